//! GameSpy 1 entries: `gs1 <port> <retries> <script>` (query) and `gs1vars <port> <retries> <script>` (query_vars).
use crate::canon::*;
use crate::net::*;
use gamedig::protocols::gamespy::one::{self, Player, Response};
use std::collections::HashMap;

pub fn entries() -> Vec<(&'static str, crate::EntryFn)> { vec![("gs1", entry_gs1), ("gs1vars", entry_gs1_vars)] }

pub fn show_map(m: &HashMap<String, String>) -> String {
    let mut kv: Vec<(&String, &String)> = m.iter().collect();
    kv.sort_by(|a, b| a.0.as_bytes().cmp(b.0.as_bytes()));
    show_list(&kv, |(k, v)| format!("{}={}", show_str(k), show_str(v)))
}

fn show_player(p: &Player) -> String {
    format!(
        "({})",
        [
            show_str(&p.name),
            show_opt(&p.team, |v| v.to_string()),
            p.ping.to_string(),
            show_opt(&p.face, |v| show_str(v)),
            show_opt(&p.skin, |v| show_str(v)),
            show_opt(&p.mesh, |v| show_str(v)),
            p.score.to_string(),
            show_opt(&p.deaths, |v| v.to_string()),
            show_opt(&p.health, |v| v.to_string()),
            show_opt(&p.secret, |v| show_bool(*v)),
        ]
        .join(";")
    )
}

pub fn show_response(r: &Response) -> String {
    format!(
        "G1{{{}}} P{} U{}",
        [
            show_str(&r.name),
            show_str(&r.map),
            show_opt(&r.map_title, |v| show_str(v)),
            show_opt(&r.admin_contact, |v| show_str(v)),
            show_opt(&r.admin_name, |v| show_str(v)),
            show_bool(r.has_password),
            show_str(&r.game_mode),
            show_str(&r.game_version),
            r.players_maximum.to_string(),
            r.players_online.to_string(),
            show_opt(&r.players_minimum, |v| v.to_string()),
            show_bool(r.tournament),
        ]
        .join(";"),
        show_list(&r.players, show_player),
        show_map(&r.unused_entries)
    )
}

fn parse(args: &[&str]) -> Option<(u16, usize, gamedig::verif_hook::Script)> {
    if args.len() < 3 {
        return None;
    }
    Some((args[0].parse().ok()?, args[1].parse().ok()?, parse_net_args(&args[2 ..])?))
}

fn entry_gs1(args: &[&str]) -> String {
    let Some((port, r, script)) = parse(args) else {
        return "bad-case".into();
    };
    run_q(script, || one::query(&addr(port), timeout(r)), show_response)
}

fn entry_gs1_vars(args: &[&str]) -> String {
    let Some((port, r, script)) = parse(args) else {
        return "bad-case".into();
    };
    run_q(script, || one::query_vars(&addr(port), timeout(r)), |m| format!("V{}", show_map(m)))
}

crate::impl_view_dump!(
    gamedig::protocols::gamespy::one::Response,
    "protocols/gamespy/protocols/one/types.rs",
    "Response",
    "protocols/gamespy/protocols/one/types.rs",
    "Player"
);

// (`ViewDump` for the raw variables map `HashMap<String, String>` is implemented in gs3.rs)
