//! `eco_hostile <raw responses, hex, comma separated>`: the real Eco query (the only user of the HTTP client) against a
//! loopback HTTP server that answers the k-th connection with the k-th raw byte string, whatever was asked (after reading
//! the request head), and closes; further connections get the last one again.  Implementation only (the HTTP client is a
//! parameter of the model): result kind, the request lines the server saw, and the memory the QUERYING thread asked for.

use crate::canon::{show_res, unhex};
use gamedig::games::eco;
use std::io::{Read, Write};
use std::sync::atomic::{AtomicBool, Ordering};
use std::sync::{Arc, Mutex};

pub fn entries() -> Vec<(&'static str, crate::EntryFn)> { vec![("eco_hostile", entry_eco_hostile)] }

fn entry_eco_hostile(args: &[&str]) -> String {
    let Some(list) = args.first() else { return "bad-case".into() };
    let mut replies: Vec<Vec<u8>> = Vec::new();
    for h in list.split(',') {
        match unhex(h) {
            Some(b) => replies.push(b),
            None => return "bad-case".into(),
        }
    }
    if replies.is_empty() {
        return "bad-case".into();
    }
    let ip: std::net::IpAddr = std::net::Ipv4Addr::LOCALHOST.into();
    let listener = std::net::TcpListener::bind(std::net::SocketAddr::new(ip, 0)).expect("loopback listener");
    let port = listener.local_addr().expect("addr").port();
    let stop = Arc::new(AtomicBool::new(false));
    let seen: Arc<Mutex<Vec<String>>> = Arc::new(Mutex::new(Vec::new()));
    let server = {
        let (stop, seen) = (stop.clone(), seen.clone());
        std::thread::spawn(move || {
            listener.set_nonblocking(true).ok();
            let mut k = 0usize;
            while !stop.load(Ordering::SeqCst) {
                let Ok((mut stream, _)) = listener.accept() else {
                    std::thread::sleep(std::time::Duration::from_millis(2));
                    continue;
                };
                stream.set_nonblocking(false).ok();
                stream.set_read_timeout(Some(std::time::Duration::from_millis(500))).ok();
                let mut req = Vec::new();
                let mut b = [0u8; 1];
                while !req.ends_with(b"\r\n\r\n") && req.len() < 65536 {
                    match stream.read(&mut b) {
                        Ok(1) => req.push(b[0]),
                        _ => break,
                    }
                }
                let first = String::from_utf8_lossy(&req).split("\r\n").next().unwrap_or("").replace(' ', "_");
                seen.lock().unwrap().push(first);
                let reply = &replies[k.min(replies.len() - 1)];
                k += 1;
                let _ = stream.write_all(reply);
                let _ = stream.flush();
                // closing ends the body of a reply without a usable length
            }
        })
    };
    let t = std::time::Duration::from_millis(400);
    let settings = Some(gamedig::protocols::types::TimeoutSettings::new(Some(t), Some(t), Some(t), 0).unwrap());
    let base = crate::alloc::begin();
    let res = eco::query_with_timeout(&ip, Some(port), &settings);
    let (peak, largest, _total) = crate::alloc::end(base);
    stop.store(true, Ordering::SeqCst);
    let _ = server.join();
    let requests = seen.lock().unwrap().join(",");
    format!("{} ;; H:{} ;; A{}/{}", show_res(&res, crate::small::show_eco), requests, peak, largest)
}
