//! Counting global allocator: per-thread live bytes / peak / largest single request, and a
//! hard ceiling on single requests so that a 200 GB reservation aborts this process instead
//! of taking the sandbox down (the abort is reported as a crash of the case that caused it).

use std::alloc::{GlobalAlloc, Layout, System};
use std::cell::Cell;

pub struct Counting;

thread_local! {
    static LIVE: Cell<isize> = const { Cell::new(0) };
    static PEAK: Cell<isize> = const { Cell::new(0) };
    static LARGEST: Cell<usize> = const { Cell::new(0) };
    static TOTAL: Cell<usize> = const { Cell::new(0) };
}

/// Single requests above this are refused (null → `handle_alloc_error` → abort).
pub const CEILING: usize = 1 << 30;

fn note_alloc(size: usize) {
    let _ = LIVE.try_with(|l| {
        let v = l.get() + size as isize;
        l.set(v);
        let _ = PEAK.try_with(|p| {
            if v > p.get() {
                p.set(v)
            }
        });
    });
    let _ = LARGEST.try_with(|l| {
        if size > l.get() {
            l.set(size)
        }
    });
    let _ = TOTAL.try_with(|t| t.set(t.get().saturating_add(size)));
}

fn note_free(size: usize) {
    let _ = LIVE.try_with(|l| l.set(l.get() - size as isize));
}

unsafe impl GlobalAlloc for Counting {
    unsafe fn alloc(&self, layout: Layout) -> *mut u8 {
        if layout.size() > CEILING {
            let _ = LARGEST.try_with(|l| l.set(layout.size()));
            return std::ptr::null_mut();
        }
        let p = System.alloc(layout);
        if !p.is_null() {
            note_alloc(layout.size());
        }
        p
    }

    unsafe fn alloc_zeroed(&self, layout: Layout) -> *mut u8 {
        if layout.size() > CEILING {
            let _ = LARGEST.try_with(|l| l.set(layout.size()));
            return std::ptr::null_mut();
        }
        let p = System.alloc_zeroed(layout);
        if !p.is_null() {
            note_alloc(layout.size());
        }
        p
    }

    unsafe fn dealloc(&self, ptr: *mut u8, layout: Layout) {
        System.dealloc(ptr, layout);
        note_free(layout.size());
    }

    unsafe fn realloc(&self, ptr: *mut u8, layout: Layout, new_size: usize) -> *mut u8 {
        if new_size > CEILING {
            let _ = LARGEST.try_with(|l| l.set(new_size));
            return std::ptr::null_mut();
        }
        let p = System.realloc(ptr, layout, new_size);
        if !p.is_null() {
            note_free(layout.size());
            note_alloc(new_size);
        }
        p
    }
}

/// Start measuring on this thread: peak := live now, largest := 0.
#[allow(dead_code)]
pub fn begin() -> isize {
    let live = LIVE.with(Cell::get);
    PEAK.with(|p| p.set(live));
    LARGEST.with(|l| l.set(0));
    TOTAL.with(|t| t.set(0));
    live
}

/// (peak live bytes above the level at `begin`, largest single request, total requested)
#[allow(dead_code)]
pub fn end(base: isize) -> (usize, usize, usize) {
    let peak = PEAK.with(Cell::get) - base;
    (
        peak.max(0) as usize,
        LARGEST.with(Cell::get),
        TOTAL.with(Cell::get),
    )
}
