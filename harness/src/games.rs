//! C14: the three call paths of a game — generic (definitions table), dedicated module, protocol level.
use crate::canon::*;
use crate::net::*;
use crate::valve::{parse_engine, parse_gather, show_map, show_server};
use gamedig::protocols::types::CommonResponse;
use gamedig::protocols::valve::game;
use gamedig::protocols::{GenericResponse, Protocol};

pub fn entries() -> Vec<(&'static str, crate::EntryFn)> {
    vec![
        ("game-generic", entry_generic),
        ("game-module", entry_module),
        ("game-protocol", entry_protocol),
        ("any-generic", entry_any_generic),
        ("any-module", entry_any_module),
        ("any-protocol", entry_any_protocol),
    ]
}

impl crate::views::ViewDump for game::Response {}

pub fn show_game_response(r: &game::Response) -> String {
    format!(
        "G{{{}}}",
        [
            r.protocol.to_string(),
            show_str(&r.name),
            show_str(&r.map),
            show_str(&r.game),
            r.appid.to_string(),
            r.players_online.to_string(),
            show_list(&r.players_details, |p| {
                format!("({};{};{})", show_str(&p.name), p.score, p.duration.to_bits())
            }),
            r.players_maximum.to_string(),
            r.players_bots.to_string(),
            show_server(&r.server_type),
            show_bool(r.has_password),
            show_bool(r.vac_secured),
            show_str(&r.version),
            show_opt(&r.port, |v| v.to_string()),
            show_opt(&r.steam_id, |v| v.to_string()),
            show_opt(&r.tv_port, |v| v.to_string()),
            show_opt(&r.tv_name, |v| show_str(v)),
            show_opt(&r.keywords, |v| show_str(v)),
            show_map(&r.rules),
        ]
        .join(";")
    )
}

/// The per-game form of a protocol response written HERE from the documentation of `valve::game::Response` (each member is
/// the protocol response's member of the same meaning; every listed player; absent sections are empty) — not through the
/// library's own conversion, which is part of what the module path is compared against.
pub fn show_valve_as_game(v: &gamedig::protocols::valve::Response) -> String {
    let e = v.info.extra_data.as_ref();
    let none_s = || "-".to_string();
    format!(
        "G{{{}}}",
        [
            v.info.protocol_version.to_string(),
            show_str(&v.info.name),
            show_str(&v.info.map),
            show_str(&v.info.game_mode),
            v.info.appid.to_string(),
            v.info.players_online.to_string(),
            match &v.players {
                Some(ps) => show_list(ps, |p| format!("({};{};{})", show_str(&p.name), p.score, p.duration.to_bits())),
                None => show_list(&Vec::<gamedig::protocols::valve::ServerPlayer>::new(), |_| String::new()),
            },
            v.info.players_maximum.to_string(),
            v.info.players_bots.to_string(),
            show_server(&v.info.server_type),
            show_bool(v.info.has_password),
            show_bool(v.info.vac_secured),
            show_str(&v.info.game_version),
            e.and_then(|x| x.port).map_or_else(none_s, |p| format!("+{p}")),
            e.and_then(|x| x.steam_id).map_or_else(none_s, |p| format!("+{p}")),
            e.and_then(|x| x.tv_port).map_or_else(none_s, |p| format!("+{p}")),
            e.and_then(|x| x.tv_name.as_ref()).map_or_else(none_s, |p| format!("+{}", show_str(p))),
            e.and_then(|x| x.keywords.as_ref()).map_or_else(none_s, |p| format!("+{}", show_str(p))),
            match &v.rules {
                Some(r) => show_map(r),
                None => show_map(&std::collections::HashMap::new()),
            },
        ]
        .join(";")
    )
}

fn port_arg(s: &str) -> Option<Option<u16>> {
    if s == "-" {
        Some(None)
    } else {
        s.parse().ok().map(Some)
    }
}

fn entry_generic(args: &[&str]) -> String {
    if args.len() < 4 {
        return "bad-case".into();
    }
    let Some(game) = gamedig::GAMES.get(args[0]) else { return "no-such-valve-game".into() };
    if !matches!(game.protocol, Protocol::Valve(_)) {
        return "no-such-valve-game".into();
    }
    let (Some(port), Ok(r), Some(script)) = (port_arg(args[1]), args[2].parse::<usize>(), parse_net_args(&args[3 ..])) else {
        return "bad-case".into();
    };
    run_q(
        script,
        || {
            let boxed = gamedig::query_with_timeout(game, &crate::net::ip(), port, timeout(r))?;
            Ok(match boxed.as_original() {
                GenericResponse::Valve(v) => v.clone(),
                other => panic!("generic path returned a non-Valve response for a Valve game: {other:?}"),
            })
        },
        show_valve_as_game,
    )
}

fn entry_module(args: &[&str]) -> String {
    if args.len() < 3 {
        return "bad-case".into();
    }
    let (Some(port), Some(script)) = (port_arg(args[1]), parse_net_args(&args[2 ..])) else {
        return "bad-case".into();
    };
    // probe without a script whether the module exists
    let id = args[0].to_string();
    let mut exists = true;
    let out = run_q(
        script,
        || {
            match crate::gen_games::valve_module(&id, &crate::net::ip(), port) {
                Some(r) => r,
                None => {
                    exists = false;
                    Err(gamedig::GDErrorKind::InvalidInput.context("no module"))
                }
            }
        },
        show_game_response,
    );
    if exists {
        out
    } else {
        "no-such-valve-game".into()
    }
}

fn entry_protocol(args: &[&str]) -> String {
    if args.len() < 5 {
        return "bad-case".into();
    }
    let (Some(port), Some(engine), Some(g), Some(r), Some(script)) = (
        args[0].parse::<u16>().ok(),
        parse_engine(args[1]),
        parse_gather(args[2]),
        args[3].parse::<usize>().ok(),
        parse_net_args(&args[4 ..]),
    ) else {
        return "bad-case".into();
    };
    run_q(
        script,
        || gamedig::protocols::valve::query(&addr(port), engine, Some(g), timeout(r)),
        show_valve_as_game,
    )
}

// ---- every protocol: the same three paths, compared through the protocol-independent form of the response ----

/// sorted JSON text of `as_original()` (hash maps print in a random order otherwise)
pub struct AnyResp(pub String);
impl crate::views::ViewDump for AnyResp {}

fn sort_value(v: serde_json::Value) -> serde_json::Value {
    use serde_json::Value::*;
    match v {
        Object(m) => {
            let mut e: Vec<(std::string::String, serde_json::Value)> = m
                .into_iter()
                .map(|(k, v)| {
                    // unreal2's `mutators` is a HashSet<String>: its array has no order of its own
                    match v {
                        Array(mut a) if k == "mutators" && a.iter().all(|x| x.is_string()) => {
                            a.sort_by(|x, y| x.as_str().cmp(&y.as_str()));
                            (k, Array(a))
                        }
                        v => (k, sort_value(v)),
                    }
                })
                .collect();
            e.sort_by(|a, b| a.0.cmp(&b.0));
            Object(e.into_iter().collect())
        }
        Array(a) => Array(a.into_iter().map(sort_value).collect()),
        x => x,
    }
}

pub fn canon_any(r: &dyn CommonResponse) -> AnyResp {
    let v = serde_json::to_value(r.as_original()).expect("response is serialisable");
    AnyResp(sort_value(v).to_string())
}

fn show_any(r: &AnyResp) -> String { format!("J{}", show_str(&r.0)) }

fn entry_any_generic(args: &[&str]) -> String {
    if args.len() < 3 {
        return "bad-case".into();
    }
    let Some(game) = gamedig::GAMES.get(args[0]) else { return "no-such-game".into() };
    let (Some(port), Some(script)) = (port_arg(args[1]), parse_net_args(&args[2 ..])) else {
        return "bad-case".into();
    };
    run_q(script, || gamedig::query(game, &crate::net::ip(), port).map(|b| canon_any(b.as_ref())), show_any)
}

fn entry_any_module(args: &[&str]) -> String {
    if args.len() < 3 {
        return "bad-case".into();
    }
    let (Some(port), Some(script)) = (port_arg(args[1]), parse_net_args(&args[2 ..])) else {
        return "bad-case".into();
    };
    let id = args[0].to_string();
    let mut exists = true;
    let out = run_q(
        script,
        || {
            match crate::gen_games::any_module(&id, &crate::net::ip(), port) {
                Some(r) => r,
                None => {
                    exists = false;
                    Err(gamedig::GDErrorKind::InvalidInput.context("no module"))
                }
            }
        },
        show_any,
    );
    if exists {
        out
    } else {
        "no-such-module".into()
    }
}

/// the protocol-level query with the definition's parameters (protocol tag and port from the translated table)
fn entry_any_protocol(args: &[&str]) -> String {
    use gamedig::games::minecraft;
    use gamedig::protocols::{gamespy, quake, unreal2};
    if args.len() < 3 {
        return "bad-case".into();
    }
    let (Some(port), Some(script)) = (args[1].parse::<u16>().ok(), parse_net_args(&args[2 ..])) else {
        return "bad-case".into();
    };
    let a = addr(port);
    let proto = args[0].to_string();
    let mut known = true;
    let out = run_q(
        script,
        || {
            Ok(match proto.as_str() {
                "unreal2" => canon_any(&unreal2::query(&a, &unreal2::GatheringSettings::default(), None)?),
                "gs1" => canon_any(&gamespy::one::query(&a, None)?),
                "gs2" => canon_any(&gamespy::two::query(&a, None)?),
                "gs3" => canon_any(&gamespy::three::query(&a, None)?),
                "quake1" => canon_any(&quake::one::query(&a, None)?),
                "quake2" => canon_any(&quake::two::query(&a, None)?),
                "quake3" => canon_any(&quake::three::query(&a, None)?),
                "prop:FFOW" => canon_any(&gamedig::games::ffow::query_with_timeout(&crate::net::ip(), Some(port), None)?),
                "prop:Savage2" => canon_any(&gamedig::games::savage2::query_with_timeout(&crate::net::ip(), Some(port), None)?),
                "prop:TheShip" => canon_any(&gamedig::games::theship::query_with_timeout(&crate::net::ip(), Some(port), None)?),
                "prop:JC2M" => canon_any(&gamedig::games::jc2m::query_with_timeout(&crate::net::ip(), Some(port), None)?),
                "prop:Mindustry" => canon_any(&gamedig::games::mindustry::protocol::query_with_retries(&a, &None)?),
                "prop:Minecraft(None)" => canon_any(&minecraft::protocol::query(&a, None, None)?),
                "prop:Minecraft(Some(Server::Java))" => canon_any(&minecraft::protocol::query_java(&a, None, None)?),
                "prop:Minecraft(Some(Server::Bedrock))" => canon_any(&minecraft::protocol::query_bedrock(&a, None)?),
                "prop:Minecraft(Some(Server::Legacy(LegacyGroup::V1_6)))" => {
                    canon_any(&minecraft::protocol::query_legacy_specific(minecraft::LegacyGroup::V1_6, &a, None)?)
                }
                "prop:Minecraft(Some(Server::Legacy(LegacyGroup::V1_4)))" => {
                    canon_any(&minecraft::protocol::query_legacy_specific(minecraft::LegacyGroup::V1_4, &a, None)?)
                }
                "prop:Minecraft(Some(Server::Legacy(LegacyGroup::VB1_8)))" => {
                    canon_any(&minecraft::protocol::query_legacy_specific(minecraft::LegacyGroup::VB1_8, &a, None)?)
                }
                _ => {
                    known = false;
                    return Err(gamedig::GDErrorKind::InvalidInput.context("protocol tag"));
                }
            })
        },
        show_any,
    );
    if known {
        out
    } else {
        "no-such-protocol".into()
    }
}
