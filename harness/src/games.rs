//! C14: the three call paths of a game — generic (definitions table), dedicated module, protocol level.
use crate::canon::*;
use crate::net::*;
use crate::valve::{parse_engine, parse_gather, show_map, show_server};
use gamedig::protocols::types::CommonResponse;
use gamedig::protocols::valve::game;
use gamedig::protocols::{GenericResponse, Protocol};

pub fn entries() -> Vec<(&'static str, crate::EntryFn)> {
    vec![
        ("game-generic", entry_generic),
        ("game-module", entry_module),
        ("game-protocol", entry_protocol),
    ]
}

impl crate::views::ViewDump for game::Response {}

pub fn show_game_response(r: &game::Response) -> String {
    format!(
        "G{{{}}}",
        [
            r.protocol.to_string(),
            show_str(&r.name),
            show_str(&r.map),
            show_str(&r.game),
            r.appid.to_string(),
            r.players_online.to_string(),
            show_list(&r.players_details, |p| {
                format!("({};{};{})", show_str(&p.name), p.score, p.duration.to_bits())
            }),
            r.players_maximum.to_string(),
            r.players_bots.to_string(),
            show_server(&r.server_type),
            show_bool(r.has_password),
            show_bool(r.vac_secured),
            show_str(&r.version),
            show_opt(&r.port, |v| v.to_string()),
            show_opt(&r.steam_id, |v| v.to_string()),
            show_opt(&r.tv_port, |v| v.to_string()),
            show_opt(&r.tv_name, |v| show_str(v)),
            show_opt(&r.keywords, |v| show_str(v)),
            show_map(&r.rules),
        ]
        .join(";")
    )
}

fn port_arg(s: &str) -> Option<Option<u16>> {
    if s == "-" {
        Some(None)
    } else {
        s.parse().ok().map(Some)
    }
}

fn entry_generic(args: &[&str]) -> String {
    if args.len() < 4 {
        return "bad-case".into();
    }
    let Some(game) = gamedig::GAMES.get(args[0]) else { return "no-such-valve-game".into() };
    if !matches!(game.protocol, Protocol::Valve(_)) {
        return "no-such-valve-game".into();
    }
    let (Some(port), Ok(r), Some(script)) = (port_arg(args[1]), args[2].parse::<usize>(), parse_net_args(&args[3 ..])) else {
        return "bad-case".into();
    };
    run_q(
        script,
        || {
            let boxed = gamedig::query_with_timeout(game, &IP, port, timeout(r))?;
            // the documented conversion of the protocol response to the per-game response
            Ok(match boxed.as_original() {
                GenericResponse::Valve(v) => game::Response::new_from_valve_response(v.clone()),
                other => panic!("generic path returned a non-Valve response for a Valve game: {other:?}"),
            })
        },
        show_game_response,
    )
}

fn entry_module(args: &[&str]) -> String {
    if args.len() < 3 {
        return "bad-case".into();
    }
    let (Some(port), Some(script)) = (port_arg(args[1]), parse_net_args(&args[2 ..])) else {
        return "bad-case".into();
    };
    // probe without a script whether the module exists
    let id = args[0].to_string();
    let mut exists = true;
    let out = run_q(
        script,
        || {
            match crate::gen_games::valve_module(&id, &IP, port) {
                Some(r) => r,
                None => {
                    exists = false;
                    Err(gamedig::GDErrorKind::InvalidInput.context("no module"))
                }
            }
        },
        show_game_response,
    );
    if exists {
        out
    } else {
        "no-such-valve-game".into()
    }
}

fn entry_protocol(args: &[&str]) -> String {
    if args.len() < 5 {
        return "bad-case".into();
    }
    let (Some(port), Some(engine), Some(g), Some(r), Some(script)) = (
        args[0].parse::<u16>().ok(),
        parse_engine(args[1]),
        parse_gather(args[2]),
        args[3].parse::<usize>().ok(),
        parse_net_args(&args[4 ..]),
    ) else {
        return "bad-case".into();
    };
    run_q(
        script,
        || gamedig::protocols::valve::query(&addr(port), engine, Some(g), timeout(r)).map(game::Response::new_from_valve_response),
        show_game_response,
    )
}
