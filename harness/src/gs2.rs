//! GameSpy 2 entry: `gs2 <port> <retries> <script>` (query).
use crate::canon::*;
use crate::net::*;
use gamedig::protocols::gamespy::two::{self, Player, Response, Team};

pub fn entries() -> Vec<(&'static str, crate::EntryFn)> { vec![("gs2", entry_gs2)] }

fn show_player(p: &Player) -> String {
    format!("({};{};{};{})", show_str(&p.name), p.score, p.ping, p.team_index)
}

fn show_team(t: &Team) -> String { format!("({};{})", show_str(&t.name), t.score) }

pub fn show_response(r: &Response) -> String {
    format!(
        "G2{{{}}} T{} P{} U{}",
        [
            show_str(&r.name),
            show_str(&r.map),
            show_bool(r.has_password),
            r.players_maximum.to_string(),
            r.players_online.to_string(),
            show_opt(&r.players_minimum, |v| v.to_string()),
        ]
        .join(";"),
        show_list(&r.teams, show_team),
        show_list(&r.players, show_player),
        crate::gs1::show_map(&r.unused_entries)
    )
}

fn entry_gs2(args: &[&str]) -> String {
    if args.len() < 3 {
        return "bad-case".into();
    }
    let (Some(port), Some(r), Some(script)) = (
        args[0].parse::<u16>().ok(),
        args[1].parse::<usize>().ok(),
        parse_net_args(&args[2 ..]),
    ) else {
        return "bad-case".into();
    };
    run_q(script, || two::query(&addr(port), timeout(r)), show_response)
}

crate::impl_view_dump!(
    gamedig::protocols::gamespy::two::Response,
    "protocols/gamespy/protocols/two/types.rs",
    "Response",
    "protocols/gamespy/protocols/two/types.rs",
    "Player"
);
