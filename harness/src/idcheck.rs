//! C20: the id-naming checker (crates/id-tests), in-process.
use crate::canon::*;
use gamedig_id_tests::{test_game_name_rules, IDFail, IDRule};

pub fn entries() -> Vec<(&'static str, crate::EntryFn)> { vec![("idcheck", entry_idcheck), ("n2w", entry_n2w)] }

fn rule_index(r: &IDRule) -> usize {
    match r {
        IDRule::IDsMustBeLowerCase => 0,
        IDRule::NumbersAreTheirOwnWord => 1,
        IDRule::IfFirstWordNumberNoDigits => 2,
        IDRule::IfLastWordNumberMustBeAppended => 3,
        IDRule::ConvertRomanNumeralsToArabic => 4,
        IDRule::TwoWordsOrLessUseFullWords => 5,
        IDRule::MoreThanTwoWordsMakeAcronym => 6,
        IDRule::IfIDDuplicateSameGameAppendYearToNewer => 7,
        IDRule::IfIDDuplicateSameGameAppendProtocol => 8,
        IDRule::IfIDDuplicateNoAcronym => 9,
        IDRule::IfModForQueriesProcessOnlyModName => 10,
        IDRule::NoDuplicates => 11,
    }
}

fn show_fail(f: &IDFail) -> String {
    format!(
        "{}>{}/{}",
        show_str(&f.game_id),
        show_str(&f.expected_id),
        f.rule_stack.iter().map(|r| rule_index(r).to_string()).collect::<Vec<_>>().join(".")
    )
}

fn entry_idcheck(args: &[&str]) -> String {
    if args.len() != 2 {
        return "bad-case".into();
    }
    let mut games: Vec<(String, String)> = Vec::new();
    for p in args[1].split(',') {
        let Some((a, b)) = p.split_once(':') else { return "bad-case".into() };
        let (Some(a), Some(b)) = (unhex(a).and_then(|x| String::from_utf8(x).ok()), unhex(b).and_then(|x| String::from_utf8(x).ok())) else {
            return "bad-case".into();
        };
        games.push((a, b));
    }
    // the checker prints its findings; keep stdout clean by redirecting nothing: it only prints when fails exist,
    // to stdout — our output is line-tagged, the orchestrator ignores untagged lines.
    let fails = test_game_name_rules(games.iter().map(|(a, b)| (a.as_str(), b.as_str())));
    format!("OK {}", show_list(&fails, show_fail))
}

/// `n2w <n>`: what the number_to_words crate says (the model takes it as a parameter table)
fn entry_n2w(args: &[&str]) -> String {
    match args.first().and_then(|v| v.parse::<u64>().ok()) {
        Some(n) => hex(number_to_words_shim(n).as_bytes()),
        None => "bad-case".into(),
    }
}

fn number_to_words_shim(n: u64) -> String { number_to_words::number_to_words(n as f64, false) }
