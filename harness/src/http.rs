//! The HTTP client (`crates/lib/src/http.rs`) and its user, the Eco query, against a loopback listener that records what
//! it received and misbehaves on request (C09 request plan, C12 error classes, C18 durations).
//!
//! `http-plan <ip> <port|0> <host x<hex>|-> <path x<hex>> <timeouts> <call> <behaviour> [h=x<name>:x<value>]… [rh=…]…`
//!   * `<ip>`: `a.b.c.d` or eight `:`-separated hex groups; `<port>` 0 = an ephemeral one (printed back as `p=<port>`)
//!   * `<timeouts>`: `-` (no settings: the defaults) or `<read>,<write>,<connect>`, each `-` or `<secs>:<nanos>`
//!   * `<call>`: `eco` (the real `eco::query_with_timeout_and_extra_settings`, path argument ignored), `json`
//!     (`HttpClient::new` + `get_json::<eco::Root>(path)`), `raw` (`HttpClient::new` + `get(path)`), `fromurl`
//!     (`HttpClient::from_url("http://<host or the address>:<port>/ignored?x=1#frag")` + `get_json(path)`)
//!   * `<behaviour>` of the listener, one per connection it expects, `+`-separated (see `parse_behaviour`)
//!   * `h=`: a header of the `HttpSettings`; `rh=`: a header of the request (`json` / `raw` only)
//! Output: `p=<port> <result> ;; N<connections> <hex of request head>|… ;; T<elapsed ms>`
//!
//! `http-url <ip> <port> <host|-> <path>`: no network; `HttpClient::new` and the URL a request for `<path>` is made to.
use crate::canon::*;
use gamedig::games::eco;
use gamedig::protocols::types::{ExtraRequestSettings, TimeoutSettings};
use gamedig::verif_hook::{VHttpClient, VHttpProtocol, VHttpSettings};
use std::io::{Read, Write};
use std::net::{IpAddr, SocketAddr, TcpListener, TcpStream};
use std::sync::atomic::{AtomicBool, Ordering};
use std::sync::{Arc, Mutex};
use std::time::{Duration, Instant};

pub fn entries() -> Vec<(&'static str, crate::EntryFn)> { vec![("http-plan", entry_http_plan), ("http-url", entry_http_url)] }

fn unx(s: &str) -> Option<Vec<u8>> { s.strip_prefix('x').and_then(unhex) }

fn unx_str(s: &str) -> Option<String> { unx(s).and_then(|b| String::from_utf8(b).ok()) }

fn parse_dur(s: &str) -> Option<Option<Duration>> {
    if s == "-" {
        return Some(None);
    }
    let (a, b) = s.split_once(':')?;
    Some(Some(Duration::new(a.parse().ok()?, b.parse().ok()?)))
}

/// `-` = no settings at all; otherwise the three durations through `TimeoutSettings::new` (they must be accepted)
fn parse_timeouts(s: &str) -> Option<Option<TimeoutSettings>> {
    if s == "-" {
        return Some(None);
    }
    let mut it = s.split(',');
    let (r, w, c) = (parse_dur(it.next()?)?, parse_dur(it.next()?)?, parse_dur(it.next()?)?);
    TimeoutSettings::new(r, w, c, 0).ok().map(Some)
}

#[derive(Clone)]
enum After {
    /// keep the connection open, write nothing more
    Stall,
    /// close the connection
    Close,
}

#[derive(Clone)]
enum Behaviour {
    /// nothing listens on the port
    Refuse,
    /// the listener's accept queue is full: the connection attempt is never answered
    Full,
    /// accept, read the request head, send these bytes, then stall or close
    Serve(Vec<u8>, After),
}

fn response(status: &str, extra: &str, body: &[u8]) -> Vec<u8> {
    let mut v = format!(
        "HTTP/1.1 {status}\r\nContent-Type: application/json\r\nContent-Length: {}\r\n{extra}Connection: close\r\n\r\n",
        body.len()
    )
    .into_bytes();
    v.extend_from_slice(body);
    v
}

/// One connection's behaviour:
///   `refuse` | `full` | `mute` | `drop` | `line-stall` | `line-close` | `garbage` | `status:<code>` |
///   `ok:x<doc>` | `body-stall:x<doc>:<n>` | `body-close:x<doc>:<n>` | `nolen:x<doc>` (no Content-Length, body ends at the close) |
///   `badlen:x<doc>` (a Content-Length that is not a number) | `redirect:<code>:x<location>`
fn parse_one(s: &str) -> Option<Behaviour> {
    let parts: Vec<&str> = s.split(':').collect();
    Some(match parts.as_slice() {
        ["refuse"] => Behaviour::Refuse,
        ["full"] => Behaviour::Full,
        ["mute"] => Behaviour::Serve(vec![], After::Stall),
        ["drop"] => Behaviour::Serve(vec![], After::Close),
        ["line-stall"] => Behaviour::Serve(b"HTTP/1.1 200 OK\r\n".to_vec(), After::Stall),
        ["line-close"] => Behaviour::Serve(b"HTTP/1.1 200 OK\r\n".to_vec(), After::Close),
        ["garbage"] => Behaviour::Serve(b"BANANA\r\n\r\n".to_vec(), After::Close),
        ["status", code] => {
            let code: u16 = code.parse().ok()?;
            Behaviour::Serve(response(&format!("{code} Whatever"), "", b"{\"error\":true}"), After::Close)
        }
        ["ok", doc] => Behaviour::Serve(response("200 OK", "", &unx(doc)?), After::Close),
        ["body-stall", doc, n] | ["body-close", doc, n] => {
            let doc = unx(doc)?;
            let n: usize = n.parse().ok()?;
            if n >= doc.len() {
                return None;
            }
            let mut v = response("200 OK", "", &doc);
            v.truncate(v.len() - (doc.len() - n));
            Behaviour::Serve(v, if parts[0] == "body-stall" { After::Stall } else { After::Close })
        }
        ["nolen", doc] => {
            let mut v = b"HTTP/1.1 200 OK\r\nContent-Type: application/json\r\nConnection: close\r\n\r\n".to_vec();
            v.extend_from_slice(&unx(doc)?);
            Behaviour::Serve(v, After::Close)
        }
        ["badlen", doc] => {
            let mut v = b"HTTP/1.1 200 OK\r\nContent-Type: application/json\r\nContent-Length: many\r\nConnection: close\r\n\r\n".to_vec();
            v.extend_from_slice(&unx(doc)?);
            Behaviour::Serve(v, After::Close)
        }
        ["redirect", code, loc] => {
            let code: u16 = code.parse().ok()?;
            let loc = unx_str(loc)?;
            Behaviour::Serve(response(&format!("{code} Moved"), &format!("Location: {loc}\r\n"), b""), After::Close)
        }
        _ => return None,
    })
}

fn parse_behaviour(s: &str) -> Option<Vec<Behaviour>> { s.split('+').map(parse_one).collect() }

extern "C" {
    fn listen(fd: i32, backlog: i32) -> i32;
}

fn parse_ip(s: &str) -> Option<IpAddr> { s.parse().ok() }

fn show_raw(b: &Vec<u8>) -> String { format!("RAW{}", show_str_bytes(b)) }

fn show_str_bytes(b: &[u8]) -> String { format!("x{}", hex(b)) }

struct Case {
    ip: IpAddr,
    port: u16,
    host: Option<String>,
    path: String,
    timeouts: Option<TimeoutSettings>,
    call: String,
    behaviour: Vec<Behaviour>,
    headers: Vec<(String, String)>,
    request_headers: Vec<(String, String)>,
}

fn parse_header(s: &str) -> Option<(String, String)> {
    let (n, v) = s.split_once(':')?;
    Some((unx_str(n)?, unx_str(v)?))
}

fn parse_case(args: &[&str]) -> Option<Case> {
    if args.len() < 7 {
        return None;
    }
    let mut c = Case {
        ip: parse_ip(args[0])?,
        port: args[1].parse().ok()?,
        host: if args[2] == "-" { None } else { Some(unx_str(args[2])?) },
        path: unx_str(args[3])?,
        timeouts: parse_timeouts(args[4])?,
        call: args[5].to_string(),
        behaviour: parse_behaviour(args[6])?,
        headers: vec![],
        request_headers: vec![],
    };
    for o in &args[7 ..] {
        if let Some(h) = o.strip_prefix("h=") {
            c.headers.push(parse_header(h)?);
        } else if let Some(h) = o.strip_prefix("rh=") {
            c.request_headers.push(parse_header(h)?);
        } else if o.starts_with("ua=") {
            // the model's parameter (the crate's name and version); the real client has its own
        } else {
            return None;
        }
    }
    if !["eco", "json", "raw", "fromurl"].contains(&c.call.as_str()) {
        return None;
    }
    Some(c)
}

/// run the client side of a case against `addr`
fn run_client(c: &Case, addr: &SocketAddr) -> String {
    match c.call.as_str() {
        "eco" => {
            let extra = c.host.clone().map(|h| ExtraRequestSettings::default().set_hostname(h).into());
            let r = eco::query_with_timeout_and_extra_settings(&addr.ip(), Some(addr.port()), &c.timeouts, extra);
            show_res(&r, crate::small::show_eco)
        }
        "fromurl" => {
            let host = c.host.clone().unwrap_or_else(|| {
                match addr.ip() {
                    IpAddr::V4(ip) => ip.to_string(),
                    IpAddr::V6(ip) => format!("[{ip}]"),
                }
            });
            let url = format!("http://{}:{}/ignored?x=1#frag", host, addr.port());
            let hs: Vec<(&str, &str)> = c.headers.iter().map(|(a, b)| (a.as_str(), b.as_str())).collect();
            let mut client = match VHttpClient::from_url(url.as_str(), &c.timeouts, if hs.is_empty() { None } else { Some(hs) }) {
                Ok(cl) => cl,
                Err(e) => return format!("ERR {}", kind_name(&e.kind)),
            };
            let rh: Vec<(&str, &str)> = c.request_headers.iter().map(|(a, b)| (a.as_str(), b.as_str())).collect();
            let rh_opt = if rh.is_empty() { None } else { Some(&rh[..]) };
            let r = client.get_json::<eco::Root>(&c.path, rh_opt).map(eco::Response::from);
            show_res(&r, crate::small::show_eco)
        }
        call => {
            let settings = VHttpSettings {
                protocol: VHttpProtocol::Http,
                hostname: c.host.clone(),
                headers: c.headers.clone(),
            };
            let mut client = match VHttpClient::new(addr, &c.timeouts, settings) {
                Ok(cl) => cl,
                Err(e) => return format!("ERR {}", kind_name(&e.kind)),
            };
            let rh: Vec<(&str, &str)> = c.request_headers.iter().map(|(a, b)| (a.as_str(), b.as_str())).collect();
            let rh_opt = if rh.is_empty() { None } else { Some(&rh[..]) };
            if call == "json" {
                let r = client.get_json::<eco::Root>(&c.path, rh_opt).map(eco::Response::from);
                show_res(&r, crate::small::show_eco)
            } else {
                let r = client.get(&c.path, rh_opt);
                show_res(&r, show_raw)
            }
        }
    }
}

fn entry_http_plan(args: &[&str]) -> String {
    let Some(c) = parse_case(args) else { return "bad-case".into() };
    let listener = match TcpListener::bind(SocketAddr::new(c.ip, c.port)) {
        Ok(l) => l,
        Err(e) => return format!("bind-failed {e}").replace(' ', "_"),
    };
    let addr = listener.local_addr().expect("addr");
    let stop = Arc::new(AtomicBool::new(false));
    let heads: Arc<Mutex<Vec<Vec<u8>>>> = Arc::new(Mutex::new(Vec::new()));
    let mut filler: Option<TcpStream> = None;
    let server = match c.behaviour.first() {
        Some(Behaviour::Refuse) => {
            drop(listener);
            None
        }
        Some(Behaviour::Full) => {
            // one pending connection fills an accept queue of length 0 (+1); the next SYN is dropped
            use std::os::fd::AsRawFd;
            // SAFETY: plain libc call on a listening socket we own
            unsafe {
                listen(listener.as_raw_fd(), 0);
            }
            filler = TcpStream::connect_timeout(&addr, Duration::from_millis(500)).ok();
            // a second one may still be queued by the kernel before the queue counts as full
            let f2 = TcpStream::connect_timeout(&addr, Duration::from_millis(300)).ok();
            let keep = (listener, f2);
            let stop = stop.clone();
            Some(std::thread::spawn(move || {
                while !stop.load(Ordering::SeqCst) {
                    std::thread::sleep(Duration::from_millis(2));
                }
                drop(keep);
            }))
        }
        _ => {
            let (stop, heads, plan) = (stop.clone(), heads.clone(), c.behaviour.clone());
            Some(std::thread::spawn(move || {
                let _ = listener.set_nonblocking(true);
                let mut plan = plan.into_iter();
                let mut held: Vec<TcpStream> = Vec::new();
                loop {
                    let mut stream = loop {
                        match listener.accept() {
                            Ok((s, _)) => break s,
                            Err(_) => {
                                if stop.load(Ordering::SeqCst) {
                                    return;
                                }
                                std::thread::sleep(Duration::from_millis(1));
                            }
                        }
                    };
                    let _ = stream.set_nonblocking(false);
                    let _ = stream.set_read_timeout(Some(Duration::from_millis(2000)));
                    let mut req = Vec::new();
                    let mut b = [0u8; 1];
                    while !req.ends_with(b"\r\n\r\n") {
                        match stream.read(&mut b) {
                            Ok(1) => req.push(b[0]),
                            _ => break,
                        }
                    }
                    heads.lock().unwrap().push(req);
                    match plan.next() {
                        Some(Behaviour::Serve(bytes, after)) => {
                            let _ = stream.write_all(&bytes);
                            let _ = stream.flush();
                            match after {
                                After::Stall => held.push(stream),
                                After::Close => drop(stream),
                            }
                        }
                        // a connection the plan does not expect: recorded, closed
                        _ => drop(stream),
                    }
                }
            }))
        }
    };
    let t0 = Instant::now();
    let result = run_client(&c, &addr);
    let elapsed = t0.elapsed().as_millis();
    // give a straggling extra connection a moment to show up before the listener goes away
    std::thread::sleep(Duration::from_millis(3));
    stop.store(true, Ordering::SeqCst);
    if let Some(h) = server {
        let _ = h.join();
    }
    drop(filler);
    let heads = heads.lock().unwrap();
    format!(
        "p={} {} ;; N{} {} ;; T{}",
        addr.port(),
        result,
        heads.len(),
        heads.iter().map(|h| hex(h)).collect::<Vec<_>>().join("|"),
        elapsed
    )
}

/// `http-url <ip> <port> <host|-> <path>`
fn entry_http_url(args: &[&str]) -> String {
    if args.len() != 4 {
        return "bad-case".into();
    }
    let (Some(ip), Ok(port), Some(path)) = (parse_ip(args[0]), args[1].parse::<u16>(), unx_str(args[3])) else {
        return "bad-case".into();
    };
    let host = if args[2] == "-" {
        None
    } else {
        match unx_str(args[2]) {
            Some(h) => Some(h),
            None => return "bad-case".into(),
        }
    };
    let settings = VHttpSettings {
        protocol: VHttpProtocol::Http,
        hostname: host,
        headers: Vec::<(String, String)>::new(),
    };
    match VHttpClient::new(&SocketAddr::new(ip, port), &None, settings) {
        Ok(mut cl) => format!("OK {}", show_str_bytes(cl.verif_request_url(&path).as_bytes())),
        Err(e) => format!("ERR {}", kind_name(&e.kind)),
    }
}
