//! `sock`: socket.rs itself — `UdpSocketImpl` / `TcpSocketImpl::{new, send, receive}`, no script installed — against
//! in-process loopback peers, observed from outside (C12, C18, C09; model: lean/GdVerif/Proto/Socket.lean, driver
//! lean/GdVerif/Run/Socket.lean, oracle props/sockplan.py).
//!
//! `sock <udp|tcp> <v4|v6|v4m> <settings> <peer> <ops>`
//!   settings  `-` (none: the defaults) | `<read>,<write>,<connect>`, each `-` or `<secs>:<nanos>`
//!   peer UDP  `u:<a>/<a>/…`  the k-th datagram the peer receives is answered by the k-th `<a>`: `~` nothing, or sizes joined by
//!             `+` (one datagram of pattern bytes each), a trailing `o`: sent from ANOTHER socket of the peer | `none`: nothing
//!             listens on the port
//!   peer TCP  `t:<a>/<a>/…`  after accepting: `w<n>` write n pattern bytes, `p<ms>` pause, `r<n>` read exactly n bytes, `c` close,
//!             `h` keep the connection open without doing anything until the client is done, `x` close while bytes of the client
//!             are unread (a reset) | `refuse` nothing listens | `full` the connection attempt is never answered |
//!             `noread` accept, small receive buffer, never read
//!   ops       `/`-joined: `s<n>` send n pattern bytes, `r<n>` / `r-` receive(Some(n)) / receive(None), `z<ms>` sleep
//! prints `<new> ;; <op results> ;; P<what the peer saw>|D<what decoys saw> ;; T<ms of new>,<ms of each op>`
use crate::canon::*;
use gamedig::protocols::types::TimeoutSettings;
use gamedig::verif_hook::{VSocket, VTcpSocket, VUdpSocket};
use std::io::{Read, Write};
use std::net::{IpAddr, Ipv4Addr, SocketAddr, TcpListener, TcpStream, UdpSocket};
use std::sync::atomic::{AtomicBool, Ordering};
use std::sync::{Arc, Mutex};
use std::time::{Duration, Instant};

pub fn entries() -> Vec<(&'static str, crate::EntryFn)> { vec![("sock", entry_sock)] }

extern "C" {
    fn listen(fd: i32, backlog: i32) -> i32;
    fn setsockopt(fd: i32, level: i32, name: i32, value: *const core::ffi::c_void, len: u32) -> i32;
}

/// what the client sends with its k-th send
pub fn client_pattern(n: usize, k: usize) -> Vec<u8> { (0 .. n).map(|i| ((i * 31 + 7 + 13 * k) % 256) as u8).collect() }
/// what the peer writes with its k-th datagram / write
pub fn peer_pattern(n: usize, k: usize) -> Vec<u8> { (0 .. n).map(|i| ((i * 17 + 3 + 29 * k) % 256) as u8).collect() }

/// FNV-1a, 32 bits
pub fn fnv(data: &[u8]) -> u32 {
    let mut h: u32 = 0x811c9dc5;
    for b in data {
        h ^= *b as u32;
        h = h.wrapping_mul(16777619);
    }
    h
}

fn digest(data: &[u8]) -> String { format!("{}/{:08x}", data.len(), fnv(data)) }

fn parse_dur(s: &str) -> Option<Option<Duration>> {
    if s == "-" {
        return Some(None);
    }
    let (a, b) = s.split_once(':')?;
    Some(Some(Duration::new(a.parse().ok()?, b.parse().ok()?)))
}

fn parse_settings(s: &str) -> Option<Option<TimeoutSettings>> {
    if s == "-" {
        return Some(None);
    }
    let p: Vec<&str> = s.split(',').collect();
    if p.len() != 3 {
        return None;
    }
    Some(Some(TimeoutSettings::new(parse_dur(p[0])?, parse_dur(p[1])?, parse_dur(p[2])?, 0).ok()?))
}

fn bind_ip(fam: &str) -> Option<IpAddr> {
    match fam {
        "v4" | "v4m" => Some(IpAddr::V4(Ipv4Addr::LOCALHOST)),
        "v6" => Some(IpAddr::V6(std::net::Ipv6Addr::LOCALHOST)),
        _ => None,
    }
}

/// the address the client is given for a peer listening on `local`
fn target(fam: &str, local: SocketAddr) -> SocketAddr {
    match (fam, local) {
        ("v4m", SocketAddr::V4(a)) => SocketAddr::new(IpAddr::V6(a.ip().to_ipv6_mapped()), a.port()),
        _ => local,
    }
}

#[derive(Clone, Debug)]
enum Op {
    Send(usize),
    Recv(Option<usize>),
    Sleep(u64),
}

fn parse_ops(s: &str) -> Option<Vec<Op>> {
    if s == "-" {
        return Some(vec![]);
    }
    s.split('/')
        .map(|o| {
            let (h, t) = o.split_at(1);
            match h {
                "s" => Some(Op::Send(t.parse().ok()?)),
                "r" => Some(Op::Recv(if t == "-" { None } else { Some(t.parse().ok()?) })),
                "z" => Some(Op::Sleep(t.parse().ok()?)),
                _ => None,
            }
        })
        .collect()
}

struct StopOnDrop(Arc<AtomicBool>);
impl Drop for StopOnDrop {
    fn drop(&mut self) { self.0.store(true, Ordering::SeqCst); }
}

/// run the operations on an open socket: (results, elapsed ms of each)
fn run_ops<S: VSocket>(sock: &mut S, ops: &[Op]) -> (Vec<String>, Vec<u128>) {
    let (mut res, mut times) = (Vec::new(), Vec::new());
    let mut nsend = 0;
    for op in ops {
        let t0 = Instant::now();
        let r = match op {
            Op::Send(n) => {
                let data = client_pattern(*n, nsend);
                nsend += 1;
                match sock.send(&data) {
                    Ok(()) => "S=OK".to_string(),
                    Err(e) => format!("S={}", kind_name(&e.kind)),
                }
            }
            Op::Recv(size) => {
                match sock.receive(*size) {
                    Ok(b) => format!("R={}", digest(&b)),
                    Err(e) => format!("R={}", kind_name(&e.kind)),
                }
            }
            Op::Sleep(ms) => {
                std::thread::sleep(Duration::from_millis(*ms));
                "Z".to_string()
            }
        };
        times.push(t0.elapsed().as_millis());
        res.push(r);
    }
    (res, times)
}

fn finish(new: &str, res: Vec<String>, peer: String, decoys: usize, t_new: u128, times: Vec<u128>) -> String {
    let mut ts = vec![t_new.to_string()];
    ts.extend(times.iter().map(|t| t.to_string()));
    format!("{} ;; {} ;; P{}|D{} ;; T{}", new, if res.is_empty() { "-".to_string() } else { res.join(" ") }, peer, decoys, ts.join(","))
}

fn entry_sock(args: &[&str]) -> String {
    if args.len() != 5 {
        return "bad-case".into();
    }
    let (Some(ip), Some(settings), Some(ops)) = (bind_ip(args[1]), parse_settings(args[2]), parse_ops(args[4])) else {
        return "bad-case".into();
    };
    match args[0] {
        "udp" => sock_udp(args[1], ip, settings, args[3], &ops),
        "tcp" => sock_tcp(args[1], ip, settings, args[3], &ops),
        _ => "bad-case".into(),
    }
}

// ------------------------------------------------------------------------------------------------ UDP

fn sock_udp(fam: &str, ip: IpAddr, settings: Option<TimeoutSettings>, peer: &str, ops: &[Op]) -> String {
    // replies[k]: what the k-th datagram is answered with: (sizes, from another socket)
    let mut replies: Vec<(Vec<usize>, bool)> = Vec::new();
    let listening = peer != "none";
    if listening {
        let Some(spec) = peer.strip_prefix("u:") else { return "bad-case".into() };
        for a in spec.split('/') {
            if a == "~" || a.is_empty() {
                replies.push((vec![], false));
                continue;
            }
            let (a, other) = match a.strip_suffix('o') {
                Some(x) => (x, true),
                None => (a, false),
            };
            let Some(sizes) = a.split('+').map(|x| x.parse().ok()).collect::<Option<Vec<usize>>>() else { return "bad-case".into() };
            replies.push((sizes, other));
        }
    }
    let main = UdpSocket::bind(SocketAddr::new(ip, 0)).expect("bind peer");
    let local = main.local_addr().unwrap();
    let other = UdpSocket::bind(SocketAddr::new(ip, 0)).expect("bind other");
    // decoys: the same address on another port; (IPv4) another loopback address on the same port
    let decoy_port = UdpSocket::bind(SocketAddr::new(ip, 0)).expect("bind decoy");
    let decoy_ip = if ip.is_ipv4() { UdpSocket::bind(SocketAddr::new(IpAddr::V4(Ipv4Addr::new(127, 0, 0, 2)), local.port())).ok() } else { None };
    let addr = target(fam, local);
    let stop = Arc::new(AtomicBool::new(false));
    let seen: Arc<Mutex<Vec<String>>> = Arc::new(Mutex::new(Vec::new()));
    let handle = if listening {
        main.set_read_timeout(Some(Duration::from_millis(5))).unwrap();
        let (stop2, seen2) = (stop.clone(), seen.clone());
        Some(std::thread::spawn(move || {
            let mut buf = vec![0u8; 70000];
            let (mut k, mut nreply) = (0usize, 0usize);
            while !stop2.load(Ordering::SeqCst) {
                if let Ok((n, from)) = main.recv_from(&mut buf) {
                    seen2.lock().unwrap().push(format!("{}:{}", if from.is_ipv4() { 4 } else { 6 }, digest(&buf[.. n])));
                    if let Some((sizes, from_other)) = replies.get(k) {
                        for s in sizes {
                            let d = peer_pattern(*s, nreply);
                            nreply += 1;
                            let _ = if *from_other { other.send_to(&d, from) } else { main.send_to(&d, from) };
                        }
                    }
                    k += 1;
                }
            }
        }))
    } else {
        drop(main);
        None
    };
    let _guard = StopOnDrop(stop.clone());
    let t0 = Instant::now();
    let sock = VUdpSocket::new(&addr, &settings);
    let t_new = t0.elapsed().as_millis();
    let (new, res, times) = match sock {
        Ok(mut s) => {
            let (r, t) = run_ops(&mut s, ops);
            ("OK".to_string(), r, t)
        }
        Err(e) => (format!("ERR {}", kind_name(&e.kind)), vec![], vec![]),
    };
    // let datagrams in flight arrive
    std::thread::sleep(Duration::from_millis(15));
    stop.store(true, Ordering::SeqCst);
    if let Some(h) = handle {
        let _ = h.join();
    }
    let mut decoys = 0;
    let mut buf = [0u8; 2048];
    for d in [Some(decoy_port), decoy_ip].into_iter().flatten() {
        let _ = d.set_nonblocking(true);
        while d.recv_from(&mut buf).is_ok() {
            decoys += 1;
        }
    }
    let s = seen.lock().unwrap();
    finish(&new, res, if s.is_empty() { "-".to_string() } else { s.join(",") }, decoys, t_new, times)
}

// ------------------------------------------------------------------------------------------------ TCP

#[derive(Clone, Debug)]
enum Act {
    Write(usize),
    Pause(u64),
    Read(usize),
    Close,
    Hold,
    Reset,
}

fn parse_acts(s: &str) -> Option<Vec<Act>> {
    s.split('/')
        .filter(|a| !a.is_empty())
        .map(|a| {
            let (h, t) = a.split_at(1);
            match h {
                "w" => Some(Act::Write(t.parse().ok()?)),
                "p" => Some(Act::Pause(t.parse().ok()?)),
                "r" => Some(Act::Read(t.parse().ok()?)),
                "c" => Some(Act::Close),
                "h" => Some(Act::Hold),
                "x" => Some(Act::Reset),
                _ => None,
            }
        })
        .collect()
}

fn sock_tcp(fam: &str, ip: IpAddr, settings: Option<TimeoutSettings>, peer: &str, ops: &[Op]) -> String {
    let listener = TcpListener::bind(SocketAddr::new(ip, 0)).expect("bind peer");
    let local = listener.local_addr().unwrap();
    let addr = target(fam, local);
    let decoy = TcpListener::bind(SocketAddr::new(ip, 0)).expect("bind decoy");
    let stop = Arc::new(AtomicBool::new(false));
    let _guard = StopOnDrop(stop.clone());
    let seen: Arc<Mutex<Option<(u8, Vec<u8>)>>> = Arc::new(Mutex::new(None));
    let mut keep: Vec<TcpStream> = Vec::new();
    let mut keep_listener: Option<TcpListener> = None;
    let mut handle = None;
    match peer {
        "refuse" => drop(listener),
        "full" => {
            use std::os::fd::AsRawFd;
            // one pending connection fills an accept queue of length 0 (+1); the next SYN is dropped
            // SAFETY: plain libc call on a listening socket we own
            unsafe {
                listen(listener.as_raw_fd(), 0);
            }
            keep.extend(TcpStream::connect_timeout(&local, Duration::from_millis(500)).ok());
            keep.extend(TcpStream::connect_timeout(&local, Duration::from_millis(300)).ok());
            keep_listener = Some(listener);
        }
        _ => {
            let acts = if peer == "noread" {
                use std::os::fd::AsRawFd;
                let v: i32 = 4096;
                // SAFETY: SO_RCVBUF (SOL_SOCKET = 1, SO_RCVBUF = 8 on Linux) on a socket we own; accepted sockets inherit it
                unsafe {
                    setsockopt(listener.as_raw_fd(), 1, 8, &v as *const i32 as *const core::ffi::c_void, 4);
                }
                vec![Act::Hold]
            } else {
                let Some(a) = peer.strip_prefix("t:").and_then(parse_acts) else { return "bad-case".into() };
                a
            };
            let (stop2, seen2) = (stop.clone(), seen.clone());
            let _ = listener.set_nonblocking(true);
            handle = Some(std::thread::spawn(move || {
                let (mut s, from) = loop {
                    match listener.accept() {
                        Ok(x) => break x,
                        Err(_) => {
                            if stop2.load(Ordering::SeqCst) {
                                return;
                            }
                            std::thread::sleep(Duration::from_millis(1));
                        }
                    }
                };
                let _ = s.set_nonblocking(false);
                let _ = s.set_read_timeout(Some(Duration::from_millis(2000)));
                *seen2.lock().unwrap() = Some((if from.is_ipv4() { 4 } else { 6 }, Vec::new()));
                let mut nwrite = 0;
                for a in acts {
                    match a {
                        Act::Write(n) => {
                            let _ = s.write_all(&peer_pattern(n, nwrite));
                            let _ = s.flush();
                            nwrite += 1;
                        }
                        Act::Pause(ms) => std::thread::sleep(Duration::from_millis(ms)),
                        Act::Read(n) => {
                            let mut b = vec![0u8; n];
                            if s.read_exact(&mut b).is_ok() {
                                if let Some(x) = seen2.lock().unwrap().as_mut() {
                                    x.1.extend_from_slice(&b);
                                }
                            }
                        }
                        Act::Close => return,
                        Act::Reset => {
                            // closing with unread bytes in the receive queue sends a reset; give the client's bytes time to arrive
                            std::thread::sleep(Duration::from_millis(40));
                            return;
                        }
                        Act::Hold => {
                            while !stop2.load(Ordering::SeqCst) {
                                std::thread::sleep(Duration::from_millis(2));
                            }
                            return;
                        }
                    }
                }
            }));
        }
    }
    let t0 = Instant::now();
    let sock = VTcpSocket::new(&addr, &settings);
    let t_new = t0.elapsed().as_millis();
    let (new, res, times) = match sock {
        Ok(mut s) => {
            let (r, t) = run_ops(&mut s, ops);
            ("OK".to_string(), r, t)
        }
        Err(e) => (format!("ERR {}", kind_name(&e.kind)), vec![], vec![]),
    };
    stop.store(true, Ordering::SeqCst);
    if let Some(h) = handle {
        let _ = h.join();
    }
    drop(keep);
    drop(keep_listener);
    let _ = decoy.set_nonblocking(true);
    let mut decoys = 0;
    while decoy.accept().is_ok() {
        decoys += 1;
    }
    let s = seen.lock().unwrap();
    let p = match s.as_ref() {
        Some((f, b)) => format!("{}:{}", f, digest(b)),
        None => "-".to_string(),
    };
    finish(&new, res, p, decoys, t_new, times)
}
