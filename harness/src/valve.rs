//! Valve A2S entries.
use crate::canon::*;
use crate::net::*;
use gamedig::protocols::types::GatherToggle;
use gamedig::protocols::valve::{self, Engine, Environment, ExtraData, GatheringSettings, ModData, Response, Server, ServerInfo, ServerPlayer, TheShip};
use std::collections::HashMap;

pub fn entries() -> Vec<(&'static str, crate::EntryFn)> { vec![("valve", entry_valve)] }

pub fn show_server(s: &Server) -> String {
    match s {
        Server::Dedicated => "D",
        Server::NonDedicated => "L",
        Server::TV => "P",
    }
    .to_string()
}

fn show_env(e: &Environment) -> String {
    match e {
        Environment::Linux => "l",
        Environment::Windows => "w",
        Environment::Mac => "m",
    }
    .to_string()
}

fn show_extra(e: &ExtraData) -> String {
    format!(
        "{{{}}}",
        [
            show_opt(&e.port, |v| v.to_string()),
            show_opt(&e.steam_id, |v| v.to_string()),
            show_opt(&e.tv_port, |v| v.to_string()),
            show_opt(&e.tv_name, |v| show_str(v)),
            show_opt(&e.keywords, |v| show_str(v)),
            show_opt(&e.game_id, |v| v.to_string()),
        ]
        .join(";")
    )
}

fn show_mod(m: &ModData) -> String {
    format!(
        "{{{}}}",
        [
            show_str(&m.link),
            show_str(&m.download_link),
            m.version.to_string(),
            m.size.to_string(),
            show_bool(m.multiplayer_only),
            show_bool(m.has_own_dll),
        ]
        .join(";")
    )
}

fn show_ship(t: &TheShip) -> String { format!("{}/{}/{}", t.mode, t.witnesses, t.duration) }

pub fn show_info(i: &ServerInfo) -> String {
    format!(
        "I{{{}}}",
        [
            i.protocol_version.to_string(),
            show_str(&i.name),
            show_str(&i.map),
            show_str(&i.folder),
            show_str(&i.game_mode),
            i.appid.to_string(),
            i.players_online.to_string(),
            i.players_maximum.to_string(),
            i.players_bots.to_string(),
            show_server(&i.server_type),
            show_env(&i.environment_type),
            show_bool(i.has_password),
            show_bool(i.vac_secured),
            show_opt(&i.the_ship, show_ship),
            show_str(&i.game_version),
            show_opt(&i.extra_data, show_extra),
            show_bool(i.is_mod),
            show_opt(&i.mod_data, show_mod),
        ]
        .join(";")
    )
}

pub fn show_player(p: &ServerPlayer) -> String {
    format!(
        "({})",
        [
            show_str(&p.name),
            p.score.to_string(),
            p.duration.to_bits().to_string(),
            show_opt(&p.deaths, |v| v.to_string()),
            show_opt(&p.money, |v| v.to_string()),
        ]
        .join(";")
    )
}

pub fn show_map(m: &HashMap<String, String>) -> String {
    let mut kv: Vec<(&String, &String)> = m.iter().collect();
    kv.sort_by(|a, b| a.0.as_bytes().cmp(b.0.as_bytes()));
    show_list(&kv, |(k, v)| format!("{}={}", show_str(k), show_str(v)))
}

pub fn show_response(r: &Response) -> String {
    format!(
        "{} P{} R{}",
        show_info(&r.info),
        show_opt(&r.players, |p| show_list(p, show_player)),
        show_opt(&r.rules, show_map)
    )
}

pub fn parse_toggle(c: char) -> Option<GatherToggle> {
    match c {
        's' => Some(GatherToggle::Skip),
        't' => Some(GatherToggle::Try),
        'e' => Some(GatherToggle::Enforce),
        _ => None,
    }
}

pub fn parse_gather(s: &str) -> Option<GatheringSettings> {
    let c: Vec<char> = s.chars().collect();
    if c.len() != 3 {
        return None;
    }
    Some(GatheringSettings {
        players: parse_toggle(c[0])?,
        rules: parse_toggle(c[1])?,
        check_app_id: match c[2] {
            'T' => true,
            'F' => false,
            _ => return None,
        },
    })
}

pub fn parse_engine(s: &str) -> Option<Engine> {
    let p: Vec<&str> = s.split(':').collect();
    match p.as_slice() {
        ["S", "-"] => Some(Engine::Source(None)),
        ["S", a] => Some(Engine::new(a.parse().ok()?)),
        ["S", a, d] => Some(Engine::new_with_dedicated(a.parse().ok()?, d.parse().ok()?)),
        ["G", "0"] => Some(Engine::GoldSrc(false)),
        ["G", "1"] => Some(Engine::GoldSrc(true)),
        _ => None,
    }
}

fn entry_valve(args: &[&str]) -> String {
    if args.len() < 5 {
        return "bad-case".into();
    }
    let (Some(port), Some(engine), Some(g), Some(r), Some(script)) = (
        args[0].parse::<u16>().ok(),
        parse_engine(args[1]),
        parse_gather(args[2]),
        args[3].parse::<usize>().ok(),
        parse_net_args(&args[4 ..]),
    ) else {
        return "bad-case".into();
    };
    run_q(
        script,
        || valve::query(&addr(port), engine, Some(g), timeout(r)),
        show_response,
    )
}
