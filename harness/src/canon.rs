//! Canonical text for outcomes and values; must print exactly what `GdVerif/Run/Common.lean` prints.
#![allow(dead_code)]

use gamedig::{GDErrorKind, GDResult};

pub fn hex(b: &[u8]) -> String {
    let mut s = String::with_capacity(b.len() * 2);
    for x in b {
        s.push_str(&format!("{x:02x}"));
    }
    s
}

pub fn unhex(s: &str) -> Option<Vec<u8>> {
    if s == "-" {
        return Some(Vec::new());
    }
    if s.len() % 2 != 0 {
        return None;
    }
    (0 .. s.len() / 2)
        .map(|i| u8::from_str_radix(&s[2 * i .. 2 * i + 2], 16).ok())
        .collect()
}

pub fn kind_name(k: &GDErrorKind) -> String { format!("{k:?}") }

pub fn show_res<T>(r: &GDResult<T>, f: impl Fn(&T) -> String) -> String {
    match r {
        Ok(v) => format!("OK {}", f(v)),
        Err(e) => format!("ERR {}", kind_name(&e.kind)),
    }
}

pub fn show_str(s: &str) -> String { format!("x{}", hex(s.as_bytes())) }

pub fn show_opt<T>(o: &Option<T>, f: impl Fn(&T) -> String) -> String {
    match o {
        None => "-".to_string(),
        Some(v) => format!("+{}", f(v)),
    }
}

pub fn show_list<T>(l: &[T], f: impl Fn(&T) -> String) -> String {
    format!("[{}]", l.iter().map(f).collect::<Vec<_>>().join(","))
}

pub fn show_bool(b: bool) -> String { if b { "T".into() } else { "F".into() } }
