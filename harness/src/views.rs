//! C15: dump of the protocol-independent view next to the protocol-specific data.
//! `ViewDump` is implemented for every response type a query entry returns; `net::run_q` appends
//! ` ;; V<hex of json>` to its output when the query succeeded.
use gamedig::protocols::types::CommonResponse;
use serde::Serialize;
use serde_json::{json, Value};

pub trait ViewDump {
    fn view_dump(&self) -> Option<String> { None }
}

pub fn dump_response<T: CommonResponse + Serialize + std::fmt::Debug>(
    file: &str,
    ty: &str,
    pfile: &str,
    pty: &str,
    r: &T,
) -> String {
    let players = r.players().map(|ps| {
        ps.iter()
            .map(|p| {
                json!({
                    "name": p.name(),
                    "score": p.score(),
                    "json": serde_json::to_value(p.as_json()).unwrap_or(Value::Null),
                    "orig": format!("{:?}", p.as_original()),
                })
            })
            .collect::<Vec<_>>()
    });
    let orig_dbg = format!("{:?}", r.as_original());
    let self_dbg = format!("{r:?}");
    let v = json!({
        "file": file, "type": ty, "pfile": pfile, "ptype": pty,
        "self": serde_json::to_value(r).unwrap_or(Value::Null),
        "acc": {
            "name": r.name(), "description": r.description(), "game_mode": r.game_mode(),
            "game_version": r.game_version(), "map": r.map(), "players_maximum": r.players_maximum(),
            "players_online": r.players_online(), "players_bots": r.players_bots(),
            "has_password": r.has_password(), "players": players,
        },
        "json": serde_json::to_value(r.as_json()).unwrap_or(Value::Null),
        // the original response must be retrievable unchanged: its Debug text is inside the wrapper's
        "orig_ok": orig_dbg.contains(&self_dbg),
    });
    v.to_string()
}

#[macro_export]
macro_rules! impl_view_dump {
    ($t:ty, $file:expr, $name:expr, $pfile:expr, $pname:expr) => {
        impl $crate::views::ViewDump for $t {
            fn view_dump(&self) -> Option<String> {
                Some($crate::views::dump_response($file, $name, $pfile, $pname, self))
            }
        }
    };
}

impl_view_dump!(
    gamedig::protocols::valve::Response,
    "protocols/valve/types.rs",
    "Response",
    "protocols/valve/types.rs",
    "ServerPlayer"
);

impl_view_dump!(
    gamedig::protocols::quake::Response<gamedig::protocols::quake::one::Player>,
    "protocols/quake/types.rs",
    "Response",
    "protocols/quake/one.rs",
    "Player"
);
impl_view_dump!(
    gamedig::protocols::quake::Response<gamedig::protocols::quake::two::Player>,
    "protocols/quake/types.rs",
    "Response",
    "protocols/quake/two.rs",
    "Player"
);
