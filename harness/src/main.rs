//! gdharness: runs the REAL gamedig code on case lines (`<id> <entry> <args…>`) read from
//! stdin and prints `<id> <canonical outcome>`, the same text the Lean model driver prints.
//!
//! Before each case `B <id>` is written (and flushed) to the progress file given by
//! `--progress`, so that the orchestrator can tell which case killed the process when an
//! abort (allocation failure, stack overflow) takes it down.

mod alloc;
mod canon;
mod cli;
mod dispatch;
mod gs1;
mod gs2;
mod games;
mod idcheck;
mod gen_games;
mod master;
mod gs3;
mod http;
mod httpx;
mod net;
mod quake;
mod reader;
mod real;
mod realseq;
mod settings;
mod small;
mod sock;
mod unreal2;
mod valve;
mod views;
mod minecraft;

use std::io::{BufRead, Write};
use std::panic::{catch_unwind, AssertUnwindSafe};

#[global_allocator]
static GLOBAL: alloc::Counting = alloc::Counting;

type EntryFn = fn(&[&str]) -> String;

fn entries() -> Vec<(&'static str, EntryFn)> {
    let mut v: Vec<(&'static str, EntryFn)> = Vec::new();
    v.extend(reader::entries());
    v.extend(valve::entries());
    v.extend(gs1::entries());
    v.extend(gs2::entries());
    v.extend(master::entries());
    v.extend(settings::entries());
    v.extend(games::entries());
    v.extend(dispatch::entries());
    v.extend(idcheck::entries());
    v.extend(cli::entries());
    v.extend(quake::entries());
    v.extend(real::entries());
    v.extend(realseq::entries());
    v.extend(unreal2::entries());
    v.extend(minecraft::entries());
    v.extend(gs3::entries());
    v.extend(small::entries());
    v.extend(httpx::entries());
    v.extend(http::entries());
    v.extend(sock::entries());
    v
}

/// the entry function behind a name (for entries that wrap another one, e.g. `realfam`)
pub fn find_entry(name: &str) -> Option<EntryFn> { entries().into_iter().find(|(n, _)| *n == name).map(|(_, f)| f) }

thread_local! {
    pub static LAST_PANIC: std::cell::RefCell<String> = const { std::cell::RefCell::new(String::new()) };
}

fn main() {
    let args: Vec<String> = std::env::args().collect();
    let mut progress: Option<std::fs::File> = None;
    let mut panic_log: Option<std::fs::File> = None;
    let mut i = 1;
    while i < args.len() {
        match args[i].as_str() {
            "--progress" => {
                progress = Some(std::fs::File::create(&args[i + 1]).expect("progress file"));
                i += 2;
            }
            "--panic-log" => {
                panic_log = Some(std::fs::File::create(&args[i + 1]).expect("panic log"));
                i += 2;
            }
            "run" => i += 1,
            other => {
                eprintln!("unknown argument {other}");
                std::process::exit(2);
            }
        }
    }

    std::panic::set_hook(Box::new(|info| {
        let msg = if let Some(s) = info.payload().downcast_ref::<&str>() {
            (*s).to_string()
        } else if let Some(s) = info.payload().downcast_ref::<String>() {
            s.clone()
        } else {
            "<non-string panic>".to_string()
        };
        let loc = info
            .location()
            .map(|l| format!("{}:{}", l.file(), l.line()))
            .unwrap_or_default();
        LAST_PANIC.with(|p| *p.borrow_mut() = format!("{msg} @ {loc}"));
    }));

    let table = entries();
    let stdin = std::io::stdin();
    let stdout = std::io::stdout();
    let mut out = std::io::BufWriter::new(stdout.lock());
    for line in stdin.lock().lines() {
        let line = line.expect("stdin");
        let line = line.trim();
        if line.is_empty() {
            continue;
        }
        let toks: Vec<&str> = line.split(' ').filter(|t| !t.is_empty()).collect();
        if toks.len() < 2 {
            writeln!(out, "? bad-line").unwrap();
            continue;
        }
        let id = toks[0];
        if let Some(p) = progress.as_mut() {
            writeln!(p, "B {id}").unwrap();
            p.flush().unwrap();
        }
        let res = match table.iter().find(|(n, _)| *n == toks[1]) {
            None => "unknown-entry".to_string(),
            Some((_, f)) => {
                let f = *f;
                let a = &toks[2 ..];
                match catch_unwind(AssertUnwindSafe(|| f(a))) {
                    Ok(s) => s,
                    Err(_) => {
                        // make sure no script stays installed after a panic
                        let _ = gamedig::verif_hook::uninstall();
                        let msg = LAST_PANIC.with(|p| p.borrow().clone());
                        if let Some(pl) = panic_log.as_mut() {
                            writeln!(pl, "{id} {msg}").unwrap();
                            pl.flush().unwrap();
                        }
                        if msg.contains(gamedig::verif_hook::HANG_MARKER) {
                            "HANG".to_string()
                        } else {
                            "CRASH".to_string()
                        }
                    }
                }
            }
        };
        writeln!(out, "{id} {res}").unwrap();
        out.flush().unwrap();
    }
}
