//! `realseq <v4|v6|v4m> <read timeout ns> <steps>`: ONE library UDP socket, a sequence of receives on it.
//! steps = `<datagram length>:<requested size|->:<m|s>` joined by `,`: before the i-th `receive(size_i)` the peer (`m`) — or
//! a stranger socket (`s`, another port) — has sent a datagram of that length to the client's local address (so it is
//! queued when the receive starts).  Prints for each step `<bytes returned>/<T|F: they are a prefix of what was sent>` or
//! `E<kind>`.  Implementation only.

use crate::canon::*;
use gamedig::protocols::types::TimeoutSettings;
use gamedig::verif_hook::{VSocket, VUdpSocket};
use std::net::{SocketAddr, UdpSocket};
use std::sync::mpsc;
use std::time::Duration;

pub fn entries() -> Vec<(&'static str, crate::EntryFn)> { vec![("realseq", entry_realseq)] }

fn payload(n: usize, salt: usize) -> Vec<u8> { (0 .. n).map(|i| (i * 31 + 7 + salt * 13) as u8).collect() }

fn entry_realseq(args: &[&str]) -> String {
    if args.len() != 3 {
        return "bad-case".into();
    }
    let (bind, mapped) = match args[0] {
        "v4" => ("127.0.0.1:0", false),
        "v6" => ("[::1]:0", false),
        "v4m" => ("127.0.0.1:0", true),
        _ => return "bad-case".into(),
    };
    let Ok(read_ns) = args[1].parse::<u64>() else { return "bad-case".into() };
    let mut steps: Vec<(usize, Option<usize>, bool)> = Vec::new();
    for s in args[2].split(',') {
        let f: Vec<&str> = s.split(':').collect();
        if f.len() != 3 {
            return "bad-case".into();
        }
        let (Ok(len), size) = (f[0].parse::<usize>(), if f[1] == "-" { None } else { f[1].parse::<usize>().ok() }) else {
            return "bad-case".into();
        };
        if f[1] != "-" && size.is_none() {
            return "bad-case".into();
        }
        steps.push((len, size, f[2] == "s"));
    }
    let server = UdpSocket::bind(bind).expect("bind");
    let stranger = UdpSocket::bind(bind).expect("bind");
    server.set_read_timeout(Some(Duration::from_millis(2000))).unwrap();
    let local = server.local_addr().unwrap();
    let addr = match (mapped, local) {
        (true, SocketAddr::V4(a)) => SocketAddr::new(std::net::IpAddr::V6(a.ip().to_ipv6_mapped()), a.port()),
        _ => local,
    };
    let (go_tx, go_rx) = mpsc::channel::<usize>();
    let (sent_tx, sent_rx) = mpsc::channel::<()>();
    let plan = steps.clone();
    let h = std::thread::spawn(move || {
        let mut buf = [0u8; 64];
        let Ok((_, client)) = server.recv_from(&mut buf) else { return };
        while let Ok(i) = go_rx.recv() {
            let (len, _, strange) = plan[i];
            let d = payload(len, i);
            let _ = if strange { stranger.send_to(&d, client) } else { server.send_to(&d, client) };
            let _ = sent_tx.send(());
        }
    });
    let st = Some(TimeoutSettings::new(Some(Duration::from_nanos(read_ns)), Some(Duration::from_secs(2)), Some(Duration::from_secs(2)), 0).unwrap());
    let mut c = match VUdpSocket::new(&addr, &st) {
        Ok(c) => c,
        Err(e) => return format!("ERR {}", kind_name(&e.kind)),
    };
    if let Err(e) = c.send(b"hello") {
        return format!("ERR {}", kind_name(&e.kind));
    }
    let mut out = Vec::new();
    for (i, (len, size, _)) in steps.iter().enumerate() {
        if go_tx.send(i).is_err() || sent_rx.recv_timeout(Duration::from_secs(3)).is_err() {
            out.push("E-peer".to_string());
            break;
        }
        match c.receive(*size) {
            Ok(b) => out.push(format!("{}/{}", b.len(), show_bool(payload(*len, i).starts_with(&b)))),
            Err(e) => out.push(format!("E{}", kind_name(&e.kind))),
        }
    }
    drop(go_tx);
    let _ = h.join();
    format!("OK {}", out.join(","))
}
