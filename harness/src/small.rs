//! Single-game protocols (C07): Mindustry, Savage 2, FFOW, The Ship, Battalion 1944, Eco.
use crate::canon::*;
use crate::net::*;
use gamedig::games::{battalion1944, eco, ffow, mindustry, savage2, theship};

crate::impl_view_dump!(mindustry::types::ServerData, "games/mindustry/types.rs", "ServerData", "", "");
crate::impl_view_dump!(savage2::Response, "games/savage2/types.rs", "Response", "", "");
crate::impl_view_dump!(ffow::Response, "games/ffow/types.rs", "Response", "", "");
crate::impl_view_dump!(
    theship::Response,
    "games/theship/types.rs",
    "Response",
    "games/theship/types.rs",
    "TheShipPlayer"
);
crate::impl_view_dump!(eco::Response, "games/eco/types.rs", "Response", "games/eco/types.rs", "Player");

pub fn entries() -> Vec<(&'static str, crate::EntryFn)> {
    vec![
        ("mindustry", entry_mindustry),
        ("mindustry_dp", entry_mindustry_dp),
        ("savage2", entry_savage2),
        ("savage2_dp", entry_savage2_dp),
        ("ffow", entry_ffow),
        ("ffow_dp", entry_ffow_dp),
        ("theship", entry_theship),
        ("theship_dp", entry_theship_dp),
        ("battalion", entry_battalion),
        ("battalion_dp", entry_battalion_dp),
        ("eco", entry_eco),
        ("eco_http", entry_eco_http),
        ("eco_http6", entry_eco_http6),
        ("eco_host", entry_eco_host),
    ]
}

pub fn show_mindustry(d: &mindustry::types::ServerData) -> String {
    use mindustry::types::GameMode::*;
    format!(
        "M{{{}}}",
        [
            show_str(&d.host),
            show_str(&d.map),
            d.players.to_string(),
            d.wave.to_string(),
            d.version.to_string(),
            show_str(&d.version_type),
            match d.gamemode {
                Survival => "survival",
                Sandbox => "sandbox",
                Attack => "attack",
                PVP => "pvp",
                Editor => "editor",
            }
            .to_string(),
            d.player_limit.to_string(),
            show_str(&d.description),
            show_opt(&d.mode_name, |s| show_str(s)),
        ]
        .join(";")
    )
}

fn mindustry_with(args: &[&str], default_port: bool) -> String {
    if args.len() < 3 {
        return "bad-case".into();
    }
    let (Some(port), Some(r), Some(script)) =
        (args[0].parse::<u16>().ok(), args[1].parse::<usize>().ok(), parse_net_args(&args[2 ..]))
    else {
        return "bad-case".into();
    };
    let port = if default_port { None } else { Some(port) };
    run_q(script, || mindustry::query(&crate::net::ip(), port, &timeout(r)), show_mindustry)
}

fn entry_mindustry(args: &[&str]) -> String { mindustry_with(args, false) }
fn entry_mindustry_dp(args: &[&str]) -> String { mindustry_with(args, true) }

// ---------------------------------------------------------------- Savage 2

pub fn show_savage2(r: &savage2::Response) -> String {
    format!(
        "S2{{{}}}",
        [
            show_str(&r.name),
            r.players_online.to_string(),
            r.players_maximum.to_string(),
            r.players_minimum.to_string(),
            show_str(&r.time),
            show_str(&r.map),
            show_str(&r.next_map),
            show_str(&r.location),
            show_str(&r.game_mode),
            show_str(&r.protocol_version),
            r.level_minimum.to_string(),
        ]
        .join(";")
    )
}

fn savage2_with(args: &[&str], default_port: bool) -> String {
    if args.len() < 3 {
        return "bad-case".into();
    }
    let (Some(port), Some(r), Some(script)) =
        (args[0].parse::<u16>().ok(), args[1].parse::<usize>().ok(), parse_net_args(&args[2 ..]))
    else {
        return "bad-case".into();
    };
    let port = if default_port { None } else { Some(port) };
    run_q(script, || savage2::query_with_timeout(&crate::net::ip(), port, timeout(r)), show_savage2)
}

fn entry_savage2(args: &[&str]) -> String { savage2_with(args, false) }
fn entry_savage2_dp(args: &[&str]) -> String { savage2_with(args, true) }

// ---------------------------------------------------------------- Frontlines: Fuel of War

fn show_env(e: &gamedig::protocols::valve::Environment) -> String {
    use gamedig::protocols::valve::Environment::*;
    match e {
        Linux => "l",
        Windows => "w",
        Mac => "m",
    }
    .to_string()
}

pub fn show_ffow(r: &ffow::Response) -> String {
    format!(
        "FF{{{}}}",
        [
            r.protocol_version.to_string(),
            show_str(&r.name),
            show_str(&r.active_mod),
            show_str(&r.game_mode),
            show_str(&r.game_version),
            show_str(&r.description),
            show_str(&r.map),
            r.players_online.to_string(),
            r.players_maximum.to_string(),
            crate::valve::show_server(&r.server_type),
            show_env(&r.environment_type),
            show_bool(r.has_password),
            show_bool(r.vac_secured),
            r.round.to_string(),
            r.rounds_maximum.to_string(),
            r.time_left.to_string(),
        ]
        .join(";")
    )
}

fn ffow_with(args: &[&str], default_port: bool) -> String {
    if args.len() < 3 {
        return "bad-case".into();
    }
    let (Some(port), Some(r), Some(script)) =
        (args[0].parse::<u16>().ok(), args[1].parse::<usize>().ok(), parse_net_args(&args[2 ..]))
    else {
        return "bad-case".into();
    };
    let port = if default_port { None } else { Some(port) };
    run_q(script, || ffow::query_with_timeout(&crate::net::ip(), port, timeout(r)), show_ffow)
}

fn entry_ffow(args: &[&str]) -> String { ffow_with(args, false) }
fn entry_ffow_dp(args: &[&str]) -> String { ffow_with(args, true) }

// ---------------------------------------------------------------- The Ship

fn show_ship_player(p: &theship::TheShipPlayer) -> String {
    format!(
        "({})",
        [
            show_str(&p.name),
            p.score.to_string(),
            p.duration.to_bits().to_string(),
            p.deaths.to_string(),
            p.money.to_string(),
        ]
        .join(";")
    )
}

pub fn show_theship(r: &theship::Response) -> String {
    format!(
        "TS{{{}}}",
        [
            r.protocol_version.to_string(),
            show_str(&r.name),
            show_str(&r.map),
            show_str(&r.game_mode),
            show_str(&r.game_version),
            show_list(&r.players, show_ship_player),
            r.players_online.to_string(),
            r.players_maximum.to_string(),
            r.players_bots.to_string(),
            crate::valve::show_server(&r.server_type),
            show_bool(r.has_password),
            show_bool(r.vac_secured),
            show_opt(&r.port, |v| v.to_string()),
            show_opt(&r.steam_id, |v| v.to_string()),
            show_opt(&r.tv_port, |v| v.to_string()),
            show_opt(&r.tv_name, |v| show_str(v)),
            show_opt(&r.keywords, |v| show_str(v)),
            crate::valve::show_map(&r.rules),
            r.mode.to_string(),
            r.witnesses.to_string(),
            r.duration.to_string(),
        ]
        .join(";")
    )
}

fn theship_with(args: &[&str], default_port: bool) -> String {
    if args.len() < 3 {
        return "bad-case".into();
    }
    let (Some(port), Some(r), Some(script)) =
        (args[0].parse::<u16>().ok(), args[1].parse::<usize>().ok(), parse_net_args(&args[2 ..]))
    else {
        return "bad-case".into();
    };
    let port = if default_port { None } else { Some(port) };
    run_q(script, || theship::query_with_timeout(&crate::net::ip(), port, timeout(r)), show_theship)
}

fn entry_theship(args: &[&str]) -> String { theship_with(args, false) }
fn entry_theship_dp(args: &[&str]) -> String { theship_with(args, true) }

// ---------------------------------------------------------------- Battalion 1944

fn show_game_player(p: &gamedig::protocols::valve::game::Player) -> String {
    format!("({})", [show_str(&p.name), p.score.to_string(), p.duration.to_bits().to_string()].join(";"))
}

fn show_game_response(r: &gamedig::protocols::valve::game::Response) -> String {
    format!(
        "G{{{}}}",
        [
            r.protocol.to_string(),
            show_str(&r.name),
            show_str(&r.map),
            show_str(&r.game),
            r.appid.to_string(),
            r.players_online.to_string(),
            show_list(&r.players_details, show_game_player),
            r.players_maximum.to_string(),
            r.players_bots.to_string(),
            crate::valve::show_server(&r.server_type),
            show_bool(r.has_password),
            show_bool(r.vac_secured),
            show_str(&r.version),
            show_opt(&r.port, |v| v.to_string()),
            show_opt(&r.steam_id, |v| v.to_string()),
            show_opt(&r.tv_port, |v| v.to_string()),
            show_opt(&r.tv_name, |v| show_str(v)),
            show_opt(&r.keywords, |v| show_str(v)),
            crate::valve::show_map(&r.rules),
        ]
        .join(";")
    )
}

fn battalion_with(args: &[&str], default_port: bool) -> String {
    if args.len() < 3 {
        return "bad-case".into();
    }
    let (Some(port), Some(_r), Some(script)) =
        (args[0].parse::<u16>().ok(), args[1].parse::<usize>().ok(), parse_net_args(&args[2 ..]))
    else {
        return "bad-case".into();
    };
    let port = if default_port { None } else { Some(port) };
    run_q(script, || battalion1944::query(&crate::net::ip(), port), show_game_response)
}

fn entry_battalion(args: &[&str]) -> String { battalion_with(args, false) }
fn entry_battalion_dp(args: &[&str]) -> String { battalion_with(args, true) }

// ---------------------------------------------------------------- Eco (the pure part: serde + From<Root>)

pub fn show_eco(r: &eco::Response) -> String {
    format!(
        "E{{{}}}",
        [
            show_bool(r.external),
            r.port.to_string(),
            r.query_port.to_string(),
            show_bool(r.is_lan),
            show_str(&r.description),
            show_str(&r.description_detailed),
            show_str(&r.description_economy),
            show_str(&r.category),
            r.players_online.to_string(),
            r.players_maximum.to_string(),
            show_list(&r.players, |p| show_str(&p.name)),
            show_bool(r.admin_online),
            r.time_since_start.to_bits().to_string(),
            r.time_left.to_bits().to_string(),
            r.animals.to_string(),
            r.plants.to_string(),
            r.laws.to_string(),
            show_str(&r.world_size),
            show_str(&r.game_version),
            show_str(&r.skill_specialization_setting),
            show_str(&r.language),
            show_bool(r.has_password),
            show_bool(r.has_meteor),
            show_str(&r.distribution_station_items),
            show_str(&r.playtimes),
            show_str(&r.discord_address),
            show_bool(r.is_paused),
            r.active_and_online_players.to_string(),
            r.peak_active_players.to_string(),
            r.max_active_players.to_string(),
            r.shelf_life_multiplier.to_bits().to_string(),
            r.exhaustion_after_hours.to_bits().to_string(),
            show_bool(r.is_limiting_hours),
            crate::valve::show_map(&r.server_achievements_dict),
            show_str(&r.relay_address),
            show_str(&r.access),
            show_str(&r.connect),
        ]
        .join(";")
    )
}

/// `eco <port (unused)> <retries (unused)> <script>`: the document is the first delivery of the first
/// connection and is handed to the code the HTTP client runs on the body (`serde_json::from_reader::<Root>`, whose
/// errors the client maps to `ProtocolFormat`), then to `Response::from`.  No socket is involved; a refused
/// connection, no delivery or a silence stand for a request that could not be made (`PacketSend`).
fn entry_eco(args: &[&str]) -> String {
    if args.len() < 3 {
        return "bad-case".into();
    }
    let (Some(_port), Some(_r), Some(script)) =
        (args[0].parse::<u16>().ok(), args[1].parse::<usize>().ok(), parse_net_args(&args[2 ..]))
    else {
        return "bad-case".into();
    };
    use gamedig::verif_hook::{ConnScript, Delivery};
    let doc = match script.conns.first() {
        Some(ConnScript::Open(ds)) => {
            match ds.first() {
                Some(Delivery::Data(d)) => Some(d.clone()),
                _ => None,
            }
        }
        _ => None,
    };
    let doc_len = doc.as_ref().map(Vec::len);
    let res: gamedig::GDResult<eco::Response> = match doc {
        None => Err(gamedig::GDErrorKind::PacketSend.into()),
        Some(d) => {
            serde_json::from_reader::<_, eco::Root>(&d[..])
                .map(eco::Response::from)
                .map_err(|e| gamedig::GDErrorKind::ProtocolFormat.context(e))
        }
    };
    let view = res
        .as_ref()
        .ok()
        .and_then(crate::views::ViewDump::view_dump)
        .map_or(String::new(), |v| format!(" ;; V{}", hex(v.as_bytes())));
    // the document handed over is logged like a received delivery
    let trace = doc_len.map_or(String::new(), |n| format!("R0:-:{n}"));
    format!("{} ;; {} ;; A0/0{}", show_res(&res, show_eco), trace, view)
}

// ---------------------------------------------------------------- Eco over a real loopback HTTP server

/// What the first connection of the script stands for.
enum EcoPeer {
    /// no listener: the connection is refused
    Closed,
    /// accepts, reads the request, never answers
    Mute,
    /// accepts, reads the request, answers `200 OK` with this body
    Body(Vec<u8>),
}

/// `eco_http <port (unused)> <retries (unused)> <script>` / `eco_http6 …`: the real `eco::query_with_timeout` against
/// a one-shot HTTP server on 127.0.0.1 / [::1] (ephemeral port).  Prints `<result> ;; H:<request line>|<Host header>`
/// with the port replaced by `P` (`H:-` when no request arrived).
fn eco_http_with(args: &[&str], v6: bool) -> String { eco_http_host(args, v6, None) }

/// `eco_host <host name hex> <retries (unused)> <script>`: the same over IPv4 with the given host name in the request
/// settings, the server listening on 127.0.0.2 (NOT what any loopback name resolves to): the request must arrive at the
/// caller's address whatever the name is
fn entry_eco_host(args: &[&str]) -> String {
    let Some(name) = args.first().and_then(|h| unhex(h)).and_then(|b| String::from_utf8(b).ok()) else { return "bad-case".into() };
    let mut a: Vec<&str> = vec!["0"];
    a.extend_from_slice(&args[1 ..]);
    eco_http_host(&a, false, Some(name))
}

fn eco_http_host(args: &[&str], v6: bool, host_name: Option<String>) -> String {
    use gamedig::verif_hook::{ConnScript, Delivery};
    use std::io::{Read, Write};
    use std::sync::atomic::{AtomicBool, Ordering};
    use std::sync::Arc;
    if args.len() < 3 {
        return "bad-case".into();
    }
    let (Some(_port), Some(_r), Some(script)) =
        (args[0].parse::<u16>().ok(), args[1].parse::<usize>().ok(), parse_net_args(&args[2 ..]))
    else {
        return "bad-case".into();
    };
    let peer = match script.conns.first() {
        Some(ConnScript::Open(ds)) => {
            match ds.first() {
                Some(Delivery::Data(d)) => EcoPeer::Body(d.clone()),
                _ => EcoPeer::Mute,
            }
        }
        _ => EcoPeer::Closed,
    };
    let ip: std::net::IpAddr = if v6 {
        std::net::Ipv6Addr::LOCALHOST.into()
    } else if host_name.is_some() {
        std::net::Ipv4Addr::new(127, 0, 0, 2).into()
    } else {
        std::net::Ipv4Addr::LOCALHOST.into()
    };
    let listener = std::net::TcpListener::bind(std::net::SocketAddr::new(ip, 0)).expect("loopback listener");
    let port = listener.local_addr().expect("addr").port();
    let stop = Arc::new(AtomicBool::new(false));
    let body_len = match &peer {
        EcoPeer::Body(b) => Some(b.len()),
        _ => None,
    };
    let server = match peer {
        EcoPeer::Closed => {
            drop(listener);
            None
        }
        peer => {
            let stop = stop.clone();
            Some(std::thread::spawn(move || -> Option<String> {
                listener.set_nonblocking(true).ok()?;
                let mut stream = loop {
                    match listener.accept() {
                        Ok((s, _)) => break s,
                        Err(_) => {
                            if stop.load(Ordering::SeqCst) {
                                return None;
                            }
                            std::thread::sleep(std::time::Duration::from_millis(2));
                        }
                    }
                };
                stream.set_nonblocking(false).ok()?;
                stream.set_read_timeout(Some(std::time::Duration::from_secs(2))).ok()?;
                let mut req = Vec::new();
                let mut b = [0u8; 1];
                while !req.ends_with(b"\r\n\r\n") {
                    match stream.read(&mut b) {
                        Ok(1) => req.push(b[0]),
                        _ => break,
                    }
                }
                match peer {
                    EcoPeer::Body(body) => {
                        // the framing of the body follows from its length (the document is the same whichever way it
                        // travels): announced length, chunked (chunks of 1-1500 bytes), or delimited by the close
                        match body.len() % 3 {
                            0 => {
                                let head = format!(
                                    "HTTP/1.1 200 OK\r\nContent-Type: application/json\r\nContent-Length: {}\r\nConnection: close\r\n\r\n",
                                    body.len()
                                );
                                let _ = stream.write_all(head.as_bytes());
                                let _ = stream.write_all(&body);
                            }
                            1 => {
                                let _ = stream.write_all(
                                    b"HTTP/1.1 200 OK\r\nContent-Type: application/json\r\nTransfer-Encoding: chunked\r\nConnection: close\r\n\r\n",
                                );
                                let mut at = 0;
                                let mut size = 1 + body.len() % 7;
                                while at < body.len() {
                                    let end = (at + size).min(body.len());
                                    let _ = stream.write_all(format!("{:x}\r\n", end - at).as_bytes());
                                    let _ = stream.write_all(&body[at .. end]);
                                    let _ = stream.write_all(b"\r\n");
                                    at = end;
                                    size = (size * 5 + 3) % 1500 + 1;
                                }
                                let _ = stream.write_all(b"0\r\n\r\n");
                            }
                            _ => {
                                let _ = stream.write_all(b"HTTP/1.1 200 OK\r\nContent-Type: application/json\r\nConnection: close\r\n\r\n");
                                let _ = stream.write_all(&body);
                            }
                        }
                        let _ = stream.flush();
                    }
                    _ => {
                        while !stop.load(Ordering::SeqCst) {
                            std::thread::sleep(std::time::Duration::from_millis(2));
                        }
                    }
                }
                Some(String::from_utf8_lossy(&req).into_owned())
            }))
        }
    };
    let t = std::time::Duration::from_millis(1500);
    // (`td=` on the case line: those durations instead — only sensible with a peer that answers)
    let settings = crate::net::timeout_override(0)
        .or_else(|| Some(gamedig::protocols::types::TimeoutSettings::new(Some(t), Some(t), Some(t), 0).unwrap()));
    let res = match host_name {
        None => eco::query_with_timeout(&ip, Some(port), &settings),
        Some(name) => {
            let extra = gamedig::protocols::types::ExtraRequestSettings::default().set_hostname(name);
            eco::query_with_timeout_and_extra_settings(&ip, Some(port), &settings, Some(extra.into()))
        }
    };
    stop.store(true, Ordering::SeqCst);
    let request = server.and_then(|h| h.join().ok().flatten());
    let trace = match request {
        None => "H:-".to_string(),
        Some(req) => {
            let mut lines = req.split("\r\n");
            let first = lines.next().unwrap_or("").to_string();
            let host = lines
                .find(|l| l.to_ascii_lowercase().starts_with("host:"))
                .unwrap_or("")
                .replace(&format!(":{port}"), ":P");
            format!(
                "H:{}|{}{}",
                first.replace(' ', "_"),
                host.replace(' ', "_"),
                body_len.map_or(String::new(), |n| format!(" R0:-:{n}"))
            )
        }
    };
    let view = res
        .as_ref()
        .ok()
        .and_then(crate::views::ViewDump::view_dump)
        .map_or(String::new(), |v| format!(" ;; V{}", hex(v.as_bytes())));
    format!("{} ;; {} ;; A0/0{}", show_res(&res, show_eco), trace, view)
}

fn entry_eco_http(args: &[&str]) -> String { eco_http_with(args, false) }
fn entry_eco_http6(args: &[&str]) -> String { eco_http_with(args, true) }
