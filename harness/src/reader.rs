//! C17 entries: operation sequences on the real packet reader, and the Minecraft codecs.

use crate::canon::*;
use byteorder::{BigEndian, ByteOrder, LittleEndian};
use gamedig::verif_hook as vh;
use gamedig::verif_hook::{Dec, VBuffer};

pub fn entries() -> Vec<(&'static str, crate::EntryFn)> {
    vec![
        ("reader", entry_reader),
        ("varint-enc", entry_varint_enc),
        ("mcstr-enc", entry_mcstr_enc),
        ("lower-upper", entry_lower_upper),
        ("exp-size", entry_exp_size),
    ]
}

trait Strs: ByteOrder + Sized {
    fn read_string(b: &mut VBuffer<Self>, d: Dec, until: Option<Vec<u8>>) -> gamedig::GDResult<String>;
    fn varint(b: &mut VBuffer<Self>) -> Option<gamedig::GDResult<i32>>;
    fn mcstring(b: &mut VBuffer<Self>) -> Option<gamedig::GDResult<String>>;
    fn switch(b: &mut VBuffer<Self>, n: usize) -> gamedig::GDResult<Vec<u8>>;
}

impl Strs for LittleEndian {
    fn read_string(b: &mut VBuffer<Self>, d: Dec, until: Option<Vec<u8>>) -> gamedig::GDResult<String> {
        vh::read_string_le(b, d, until)
    }
    fn varint(b: &mut VBuffer<Self>) -> Option<gamedig::GDResult<i32>> { Some(vh::mc::get_varint(b)) }
    fn mcstring(b: &mut VBuffer<Self>) -> Option<gamedig::GDResult<String>> { Some(vh::mc::get_string(b)) }
    fn switch(b: &mut VBuffer<Self>, n: usize) -> gamedig::GDResult<Vec<u8>> {
        b.switch_endian_chunk(n).map(|c| c.remaining_bytes().to_vec())
    }
}

impl Strs for BigEndian {
    fn read_string(b: &mut VBuffer<Self>, d: Dec, until: Option<Vec<u8>>) -> gamedig::GDResult<String> {
        vh::read_string_be(b, d, until)
    }
    // The Minecraft codecs are generic in the byte order but read single bytes only; they are
    // exercised through the little-endian reader.
    fn varint(_b: &mut VBuffer<Self>) -> Option<gamedig::GDResult<i32>> { None }
    fn mcstring(_b: &mut VBuffer<Self>) -> Option<gamedig::GDResult<String>> { None }
    fn switch(b: &mut VBuffer<Self>, n: usize) -> gamedig::GDResult<Vec<u8>> {
        b.switch_endian_chunk(n).map(|c| c.remaining_bytes().to_vec())
    }
}

fn run_ops<B: Strs>(data: &[u8], ops: &[&str]) -> String {
    let mut b: VBuffer<B> = VBuffer::new(data);
    let mut out: Vec<String> = Vec::new();
    for op in ops {
        let (head, arg) = match op.split_once(':') {
            Some((h, a)) => (h, Some(a)),
            None => (*op, None),
        };
        let until = match arg {
            None => None,
            Some(a) => {
                match unhex(a) {
                    Some(v) if !v.is_empty() => Some(v),
                    _ => return "bad-case".into(),
                }
            }
        };
        let r: gamedig::GDResult<String> = match head {
            "u1" => b.read::<u8>().map(|v| v.to_string()),
            "u2" => b.read::<u16>().map(|v| v.to_string()),
            "u4" => b.read::<u32>().map(|v| v.to_string()),
            "u8" => b.read::<u64>().map(|v| v.to_string()),
            "i1" => b.read::<i8>().map(|v| v.to_string()),
            "i2" => b.read::<i16>().map(|v| v.to_string()),
            "i4" => b.read::<i32>().map(|v| v.to_string()),
            "i8" => b.read::<i64>().map(|v| v.to_string()),
            "s8" => B::read_string(&mut b, Dec::Utf8, until).map(|s| show_str(&s)),
            "sl" => B::read_string(&mut b, Dec::Utf8Len, until).map(|s| show_str(&s)),
            "s16l" => B::read_string(&mut b, Dec::Utf16Le, until).map(|s| show_str(&s)),
            "s16b" => B::read_string(&mut b, Dec::Utf16Be, until).map(|s| show_str(&s)),
            // the fourth StringDecoder of the crate (protocols/unreal2); it has no delimiter
            "su2" => {
                if until.is_some() {
                    return "bad-case".into();
                }
                B::read_string(&mut b, Dec::Unreal2, None).map(|s| show_str(&s))
            }
            "vi" => {
                match B::varint(&mut b) {
                    Some(r) => r.map(|v| v.to_string()),
                    None => return "bad-case".into(),
                }
            }
            "vs" => {
                match B::mcstring(&mut b) {
                    Some(r) => r.map(|s| show_str(&s)),
                    None => return "bad-case".into(),
                }
            }
            h if h.starts_with("mv") => {
                match h[2 ..].parse::<isize>() {
                    Ok(off) => b.move_cursor(off).map(|_| String::new()),
                    Err(_) => return "bad-case".into(),
                }
            }
            h if h.starts_with("sw") => {
                match h[2 ..].parse::<usize>() {
                    Ok(n) => B::switch(&mut b, n).map(|c| format!("x{}", hex(&c))),
                    Err(_) => return "bad-case".into(),
                }
            }
            _ => return "bad-case".into(),
        };
        // position first: `remaining_length()` itself panics if the cursor is past the end
        let pos = b.current_position();
        if pos > b.data_length() {
            out.push(format!("OVERRUN@{}/{}", pos, b.data_length()));
            return out.join(" ");
        }
        let rem = b.remaining_length();
        if r.is_err() && (head == "vi" || head == "vs") {
            // composite reads fail part-way; where the reader stops is not part of the contract
            out.push(format!("!{}@?", kind_name(&r.unwrap_err().kind)));
            return out.join(" ");
        }
        match r {
            Ok(s) => out.push(format!("={s}@{pos}/{rem}")),
            Err(e) => out.push(format!("!{}@{pos}/{rem}", kind_name(&e.kind))),
        }
    }
    out.join(" ")
}

fn entry_reader(args: &[&str]) -> String {
    if args.len() < 2 {
        return "bad-case".into();
    }
    let Some(data) = unhex(args[1]) else { return "bad-case".into() };
    match args[0] {
        "L" => run_ops::<LittleEndian>(&data, &args[2 ..]),
        "B" => run_ops::<BigEndian>(&data, &args[2 ..]),
        _ => "bad-case".into(),
    }
}

fn entry_varint_enc(args: &[&str]) -> String {
    match args.first().and_then(|v| v.parse::<i32>().ok()) {
        Some(v) => hex(&vh::mc::as_varint(v)),
        None => "bad-case".into(),
    }
}

fn entry_mcstr_enc(args: &[&str]) -> String {
    let Some(b) = args.first().and_then(|h| unhex(h)) else { return "bad-case".into() };
    let Ok(s) = String::from_utf8(b) else { return "bad-case".into() };
    show_res(&vh::mc::as_string(&s), |v| hex(v))
}

fn entry_lower_upper(args: &[&str]) -> String {
    match args.first().and_then(|v| v.parse::<u8>().ok()) {
        Some(n) => {
            let (a, b) = vh::u8_lower_upper(n);
            format!("{a},{b}")
        }
        None => "bad-case".into(),
    }
}

fn entry_exp_size(args: &[&str]) -> String {
    if args.len() != 2 {
        return "bad-case".into();
    }
    match (args[0].parse::<usize>(), args[1].parse::<usize>()) {
        (Ok(a), Ok(b)) => show_res(&vh::error_by_expected_size(a, b), |_| String::new()),
        _ => "bad-case".into(),
    }
}
