//! Valve master server entries (C16).
use crate::canon::*;
use crate::net::*;
use gamedig::valve_master_server::{query, query_singular, Filter, Region, SearchFilters};
use gamedig::verif_hook::{self as vh, Event};
use std::net::IpAddr;

pub fn entries() -> Vec<(&'static str, crate::EntryFn)> { vec![("master", entry_master)] }

fn bool_arg(s: &str) -> Option<bool> {
    match s {
        "1" => Some(true),
        "0" => Some(false),
        _ => None,
    }
}

fn str_arg(s: &str) -> Option<String> { String::from_utf8(unhex(s)?).ok() }

fn mk_filter(kind: u32, arg: &str) -> Option<Filter> {
    Some(match kind {
        0 => Filter::IsSecured(bool_arg(arg)?),
        1 => Filter::RunsMap(str_arg(arg)?),
        2 => Filter::CanHavePassword(bool_arg(arg)?),
        3 => Filter::CanBeEmpty(bool_arg(arg)?),
        4 => Filter::IsEmpty(bool_arg(arg)?),
        5 => Filter::CanBeFull(bool_arg(arg)?),
        6 => Filter::RunsAppID(arg.parse().ok()?),
        7 => Filter::NotAppID(arg.parse().ok()?),
        8 => {
            Filter::HasTags(if arg == "_" {
                vec![]
            } else {
                arg.split('.').map(str_arg).collect::<Option<Vec<_>>>()?
            })
        }
        9 => Filter::MatchName(str_arg(arg)?),
        10 => Filter::MatchVersion(str_arg(arg)?),
        11 => Filter::RestrictUniqueIP(bool_arg(arg)?),
        12 => Filter::OnAddress(str_arg(arg)?),
        13 => Filter::Whitelisted(bool_arg(arg)?),
        14 => Filter::SpectatorProxy(bool_arg(arg)?),
        15 => Filter::IsDedicated(bool_arg(arg)?),
        16 => Filter::RunsLinux(bool_arg(arg)?),
        17 => Filter::HasGameDir(str_arg(arg)?),
        _ => return None,
    })
}

fn parse_filters(s: &str) -> Option<Option<SearchFilters>> {
    if s == "-" {
        return Some(None);
    }
    let mut sf = SearchFilters::new();
    if s == "+" {
        return Some(Some(sf));
    }
    for op in s.split(',') {
        let g = op.chars().next()?;
        let (k, a) = op[1 ..].split_once(':')?;
        let f = mk_filter(k.parse().ok()?, a)?;
        sf = match g {
            'p' => sf.insert(f),
            'a' => sf.insert_nand(f),
            'o' => sf.insert_nor(f),
            _ => return None,
        };
    }
    Some(Some(sf))
}

fn region_of(b: u8) -> Option<Region> {
    Some(match b {
        0 => Region::UsEast,
        1 => Region::UsWest,
        2 => Region::AmericaSouth,
        3 => Region::Europe,
        4 => Region::Asia,
        5 => Region::Australia,
        6 => Region::MiddleEast,
        7 => Region::Africa,
        255 => Region::Others,
        _ => return None,
    })
}

// ---- reference reader of the request grammar (mirror of GdVerif/Spec/Master.lean)

type KV = (Vec<u8>, Vec<u8>);

fn take_pairs(n: usize, toks: &[Vec<u8>]) -> Option<(Vec<KV>, &[Vec<u8>])> {
    if toks.len() < 2 * n {
        return None;
    }
    let ps = (0 .. n).map(|i| (toks[2 * i].clone(), toks[2 * i + 1].clone())).collect();
    Some((ps, &toks[2 * n ..]))
}

fn take_plain(mut toks: &[Vec<u8>]) -> Option<(Vec<KV>, &[Vec<u8>])> {
    let mut ps = Vec::new();
    loop {
        if toks.is_empty() {
            return Some((ps, toks));
        }
        if toks.len() == 1 {
            return None;
        }
        if toks[0] == b"nand" || toks[0] == b"nor" {
            return Some((ps, toks));
        }
        ps.push((toks[0].clone(), toks[1].clone()));
        toks = &toks[2 ..];
    }
}

fn parse_u64_strict(s: &[u8]) -> Option<u64> {
    let s = std::str::from_utf8(s).ok()?;
    s.parse::<u64>().ok()
}

fn take_group<'a>(name: &[u8], toks: &'a [Vec<u8>]) -> Option<(Vec<KV>, &'a [Vec<u8>])> {
    if toks.len() >= 2 && toks[0] == name {
        let cnt = parse_u64_strict(&toks[1])?;
        if cnt == 0 {
            return None;
        }
        take_pairs(usize::try_from(cnt).ok()?, &toks[2 ..])
    } else {
        Some((vec![], toks))
    }
}

fn show_kvs(mut l: Vec<KV>) -> String {
    l.sort();
    show_list(&l, |(k, v)| format!("x{}=x{}", hex(k), hex(v)))
}

fn show_request(d: &[u8]) -> String {
    let raw = || format!("RAW{}", hex(d));
    if d.len() < 2 || d[0] != 0x31 {
        return raw();
    }
    let region = d[1];
    let rest = &d[2 ..];
    let Some(p1) = rest.iter().position(|&b| b == 0) else { return raw() };
    let seed = &rest[.. p1];
    let rest2 = &rest[p1 + 1 ..];
    let Some(p2) = rest2.iter().position(|&b| b == 0) else { return raw() };
    let filter = &rest2[.. p2];
    if p2 + 1 != rest2.len() {
        return raw();
    }
    let toks: Vec<Vec<u8>> = filter.split(|&b| b == 0x5c).map(<[u8]>::to_vec).collect();
    if toks.is_empty() || !toks[0].is_empty() {
        return raw();
    }
    let Some((plain, r1)) = take_plain(&toks[1 ..]) else { return raw() };
    let Some((nand, r2)) = take_group(b"nand", r1) else { return raw() };
    let Some((nor, r3)) = take_group(b"nor", r2) else { return raw() };
    if !r3.is_empty() {
        return raw();
    }
    format!(
        "M{}|x{}|P{}|A{}|O{}",
        region,
        hex(seed),
        show_kvs(plain),
        show_kvs(nand),
        show_kvs(nor)
    )
}

fn show_master_event(e: &Event) -> String {
    let master_ip: IpAddr = "208.64.201.194".parse().unwrap();
    match e {
        Event::Send {
            conn,
            addr,
            data,
            failed,
        } => {
            format!(
                "S{}>{}:{}{}{}",
                conn,
                addr.port(),
                show_request(data),
                if *failed { "!" } else { "" },
                if addr.ip() != master_ip { "@WRONGIP" } else { "" }
            )
        }
        Event::Open {
            conn,
            tcp,
            addr,
            refused,
        } => {
            format!(
                "O{}{}{}{}{}",
                conn,
                if *tcp { "t" } else { "u" },
                addr.port(),
                if *refused { "!" } else { "" },
                if addr.ip() != master_ip { "@WRONGIP" } else { "" }
            )
        }
        other => show_event(other),
    }
}

fn entry_master(args: &[&str]) -> String {
    if args.len() < 4 {
        return "bad-case".into();
    }
    let (Some(region), Some(filters), Some(script)) = (
        args[1].parse::<u8>().ok().and_then(region_of),
        parse_filters(args[2]),
        parse_net_args(&args[3 ..]),
    ) else {
        return "bad-case".into();
    };
    let singular = args[0] == "s";
    vh::install(script, 200_000);
    let base = crate::alloc::begin();
    let r = if singular {
        query_singular(region, filters)
    } else {
        query(region, filters)
    };
    let (peak, largest, _) = crate::alloc::end(base);
    let log = vh::uninstall();
    let res = show_res(&r, |ips| show_list(ips, |(ip, port)| format!("{ip}:{port}")));
    drop(r);
    format!(
        "{} ;; {} ;; A{}/{}",
        res,
        log.iter().map(show_master_event).collect::<Vec<_>>().join(" "),
        peak,
        largest
    )
}
