//! GameSpy 3 entries (`gamespy::three::{query, query_vars}`) and Just Cause 2: Multiplayer
//! (`games::jc2m::query_with_timeout`, GameSpy 3 in single-packet mode).
use crate::canon::*;
use crate::net::*;
use gamedig::games::jc2m;
use gamedig::protocols::gamespy::three;
use std::collections::HashMap;

pub fn entries() -> Vec<(&'static str, crate::EntryFn)> {
    vec![("gs3", entry_gs3), ("gs3vars", entry_gs3_vars), ("jc2m", entry_jc2m)]
}

fn show_map(m: &HashMap<String, String>) -> String {
    let mut kv: Vec<(&String, &String)> = m.iter().collect();
    kv.sort_by(|a, b| a.0.as_bytes().cmp(b.0.as_bytes()));
    show_list(&kv, |(k, v)| format!("{}={}", show_str(k), show_str(v)))
}

fn show_player(p: &three::Player) -> String {
    format!(
        "({})",
        [
            show_str(&p.name),
            p.score.to_string(),
            p.ping.to_string(),
            p.team.to_string(),
            p.deaths.to_string(),
            p.skill.to_string(),
        ]
        .join(";")
    )
}

fn show_team(t: &three::Team) -> String { format!("({};{})", show_str(&t.name), t.score) }

pub fn show_response(r: &three::Response) -> String {
    format!(
        "G3{{{}}} P{} T{} U{}",
        [
            show_str(&r.name),
            show_str(&r.map),
            show_bool(r.has_password),
            show_str(&r.game_mode),
            show_str(&r.game_version),
            r.players_maximum.to_string(),
            r.players_online.to_string(),
            show_opt(&r.players_minimum, |v| v.to_string()),
            show_bool(r.tournament),
        ]
        .join(";"),
        show_list(&r.players, show_player),
        show_list(&r.teams, show_team),
        show_map(&r.unused_entries)
    )
}

fn show_jc2m_player(p: &jc2m::Player) -> String {
    format!("({};{};{})", show_str(&p.name), show_str(&p.steam_id), p.ping)
}

pub fn show_jc2m(r: &jc2m::Response) -> String {
    format!(
        "JC{{{}}} P{}",
        [
            show_str(&r.game_version),
            show_str(&r.description),
            show_str(&r.name),
            show_bool(r.has_password),
            r.players_maximum.to_string(),
            r.players_online.to_string(),
        ]
        .join(";"),
        show_list(&r.players, show_jc2m_player)
    )
}

/// `<port> <retries> <script> [opts]`
fn parse_common(args: &[&str]) -> Option<(u16, usize, gamedig::verif_hook::Script)> {
    if args.len() < 3 {
        return None;
    }
    Some((args[0].parse::<u16>().ok()?, args[1].parse::<usize>().ok()?, parse_net_args(&args[2 ..])?))
}

fn entry_gs3(args: &[&str]) -> String {
    let Some((port, r, script)) = parse_common(args) else {
        return "bad-case".into();
    };
    run_q(script, || three::query(&addr(port), timeout(r)), show_response)
}

fn entry_gs3_vars(args: &[&str]) -> String {
    let Some((port, r, script)) = parse_common(args) else {
        return "bad-case".into();
    };
    run_q(script, || three::query_vars(&addr(port), timeout(r)), show_map)
}

/// `jc2m <port|-> <retries> <script> [opts]` (`-` = no port given: the game's default)
fn entry_jc2m(args: &[&str]) -> String {
    if args.len() < 3 {
        return "bad-case".into();
    }
    let port = if args[0] == "-" {
        None
    } else {
        match args[0].parse::<u16>() {
            Ok(p) => Some(p),
            Err(_) => return "bad-case".into(),
        }
    };
    let (Some(r), Some(script)) = (args[1].parse::<usize>().ok(), parse_net_args(&args[2 ..])) else {
        return "bad-case".into();
    };
    run_q(script, || jc2m::query_with_timeout(&crate::net::ip(), port, timeout(r)), show_jc2m)
}

crate::impl_view_dump!(
    three::Response,
    "protocols/gamespy/protocols/three/types.rs",
    "Response",
    "protocols/gamespy/protocols/three/types.rs",
    "Player"
);
crate::impl_view_dump!(jc2m::Response, "games/jc2m/types.rs", "Response", "games/jc2m/types.rs", "Player");
// the raw variables of `query_vars` are not a response
impl crate::views::ViewDump for HashMap<String, String> {}
