//! C18: every public way of constructing TimeoutSettings, then the settings used on real sockets
//! (so that `apply_timeout`'s unwraps and `connect_timeout` are live).
use crate::canon::*;
use clap::Parser;
use gamedig::protocols::types::TimeoutSettings;
use gamedig::verif_hook::{VSocket, VTcpSocket, VUdpSocket};
use std::time::Duration;

pub fn entries() -> Vec<(&'static str, crate::EntryFn)> {
    vec![
        ("settings-new", entry_new),
        ("settings-serde", entry_serde),
        ("settings-clap", entry_clap),
        ("settings-default", entry_default),
        ("gather", entry_gather),
        ("settings-eff", entry_eff),
    ]
}

fn dur_arg(s: &str) -> Option<Option<Duration>> {
    if s == "-" {
        return Some(None);
    }
    let (a, b) = s.split_once(':')?;
    Some(Some(Duration::new(a.parse().ok()?, b.parse().ok()?)))
}

fn show_dur(d: &Duration) -> String { format!("{}:{}", d.as_secs(), d.subsec_nanos()) }

fn show_timeout(t: &TimeoutSettings) -> String {
    format!(
        "c{} r{} w{} n{}",
        show_opt(&t.get_connect(), show_dur),
        show_opt(&t.get_read(), show_dur),
        show_opt(&t.get_write(), show_dur),
        t.get_retries()
    )
}

thread_local! {
    static LISTENER: std::net::TcpListener = std::net::TcpListener::bind("127.0.0.1:0").expect("listener");
}

/// use the settings on a real UDP and a real TCP socket (no script installed: the real code runs)
fn use_on_sockets(t: &TimeoutSettings) -> String {
    let addr = LISTENER.with(|l| l.local_addr().unwrap());
    let udp = VUdpSocket::new(&addr, &Some(*t));
    let tcp = VTcpSocket::new(&addr, &Some(*t));
    LISTENER.with(|l| {
        l.set_nonblocking(true).ok();
        let _ = l.accept();
    });
    // Reaching this point means nothing panicked. A connect that times out (1 ns!) is an error VALUE and is
    // timing dependent; it is not part of the canonical output.
    let _ = (udp.is_ok(), tcp.is_ok());
    "OK ".to_string()
}

fn show_constructed(r: Result<TimeoutSettings, String>) -> String {
    match r {
        Ok(t) => format!("OK {} SOCK {}", show_timeout(&t), use_on_sockets(&t)),
        Err(e) => format!("ERR {e}"),
    }
}

fn entry_new(args: &[&str]) -> String {
    if args.len() != 4 {
        return "bad-case".into();
    }
    let (Some(r), Some(w), Some(c), Ok(n)) = (dur_arg(args[0]), dur_arg(args[1]), dur_arg(args[2]), args[3].parse::<usize>()) else {
        return "bad-case".into();
    };
    show_constructed(TimeoutSettings::new(r, w, c, n).map_err(|e| kind_name(&e.kind)))
}

fn json_dur(d: &Option<Duration>) -> String {
    match d {
        None => "null".to_string(),
        Some(d) => format!("{{\"secs\":{},\"nanos\":{}}}", d.as_secs(), d.subsec_nanos()),
    }
}

fn entry_serde(args: &[&str]) -> String {
    if args.len() != 4 {
        return "bad-case".into();
    }
    let (Some(c), Some(r), Some(w), Ok(n)) = (dur_arg(args[0]), dur_arg(args[1]), dur_arg(args[2]), args[3].parse::<usize>()) else {
        return "bad-case".into();
    };
    let json = format!(
        "{{\"connect\":{},\"read\":{},\"write\":{},\"retries\":{}}}",
        json_dur(&c),
        json_dur(&r),
        json_dur(&w),
        n
    );
    // any deserialisation failure is an invalid-input rejection
    show_constructed(serde_json::from_str::<TimeoutSettings>(&json).map_err(|_| "InvalidInput".to_string()))
}

#[derive(Parser)]
struct Wrapper {
    #[command(flatten)]
    timeout: TimeoutSettings,
}

fn flag_arg(s: &str) -> Option<Option<String>> {
    if s == "_" {
        return Some(None);
    }
    Some(Some(String::from_utf8(unhex(s)?).ok()?))
}

fn entry_clap(args: &[&str]) -> String {
    if args.len() != 4 {
        return "bad-case".into();
    }
    let (Some(c), Some(r), Some(w), Some(n)) = (flag_arg(args[0]), flag_arg(args[1]), flag_arg(args[2]), flag_arg(args[3])) else {
        return "bad-case".into();
    };
    let mut argv: Vec<String> = vec!["prog".into()];
    for (flag, v) in [("--connect-timeout", c), ("--read-timeout", r), ("--write-timeout", w), ("--retries", n)] {
        if let Some(v) = v {
            // `--flag=value` so that values starting with '-' or '+' are taken as values
            argv.push(format!("{flag}={v}"));
        }
    }
    show_constructed(
        Wrapper::try_parse_from(argv)
            .map(|w| w.timeout)
            .map_err(|_| "InvalidInput".to_string()),
    )
}

fn entry_default(_args: &[&str]) -> String { show_constructed(Ok(TimeoutSettings::default())) }

/// `gather <s|t|e> <ok|ErrorKindName>`: `maybe_gather!` on a section whose gathering function returned that outcome
fn entry_gather(args: &[&str]) -> String {
    use gamedig::errors::GDErrorKind as K;
    use gamedig::protocols::types::GatherToggle;
    if args.len() != 2 {
        return "bad-case".into();
    }
    let toggle = match args[0] {
        "s" => GatherToggle::Skip,
        "t" => GatherToggle::Try,
        "e" => GatherToggle::Enforce,
        _ => return "bad-case".into(),
    };
    let kinds = [
        K::PacketOverflow, K::PacketUnderflow, K::PacketBad, K::PacketSend, K::PacketReceive, K::Decompress, K::SocketConnect,
        K::SocketBind, K::InvalidInput, K::BadGame, K::AutoQuery, K::ProtocolFormat, K::UnknownEnumCast, K::JsonParse,
        K::TypeParse, K::HostLookup,
    ];
    let outcome = if args[1] == "ok" {
        Ok(7u8)
    } else {
        match kinds.iter().find(|k| crate::canon::kind_name(k) == args[1]) {
            Some(k) => Err(k.clone().context("scripted section failure")),
            None => return "bad-case".into(),
        }
    };
    let r = gamedig::verif_hook::maybe_gather(toggle, outcome);
    crate::canon::show_res(&r, |o| crate::canon::show_opt(o, |v| v.to_string()))
}

/// `settings-eff <read> <write> <connect> <retries>` / `settings-eff none`: what the sockets and the retry loops are
/// handed: the values of the three `*_or_default(s)` helpers
fn entry_eff(args: &[&str]) -> String {
    let t: Option<TimeoutSettings> = if args == ["none"] {
        None
    } else {
        if args.len() != 4 {
            return "bad-case".into();
        }
        let (Some(r), Some(w), Some(c), Ok(n)) = (dur_arg(args[0]), dur_arg(args[1]), dur_arg(args[2]), args[3].parse::<usize>()) else {
            return "bad-case".into();
        };
        match TimeoutSettings::new(r, w, c, n) {
            Ok(t) => Some(t),
            Err(e) => return format!("ERR {}", kind_name(&e.kind)),
        }
    };
    let (r, w) = TimeoutSettings::get_read_and_write_or_defaults(&t);
    let c = TimeoutSettings::get_connect_or_default(&t);
    let n = TimeoutSettings::get_retries_or_default(&t);
    let d = |x: &Option<Duration>| show_opt(x, |d| format!("{}:{}", d.as_secs(), d.subsec_nanos()));
    format!("EFF r{} w{} c{} n{}", d(&r), d(&w), d(&c), n)
}
