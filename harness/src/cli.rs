//! C19: the crates and std functions the command-line tool's model mirrors, in-process:
//! `IpAddr::from_str` + `Display`, `hex::encode` / `decode`, `BASE64_STANDARD.encode` / `decode`,
//! `serde_json::to_string` / `to_string_pretty` / `from_slice` (on a token tree that keeps member order),
//! `bson::to_vec` (on a token tree that calls the `serialize_*` of each Rust number type) / `bson::RawDocument`.
use crate::canon::*;
use base64::Engine;
use serde::de::{MapAccess, SeqAccess, Visitor};
use serde::ser::{SerializeMap, SerializeSeq};
use serde::{Deserialize, Deserializer, Serialize, Serializer};

pub fn entries() -> Vec<(&'static str, crate::EntryFn)> {
    vec![
        ("ip-parse", entry_ip_parse),
        ("hex-enc", entry_hex_enc),
        ("hex-dec", entry_hex_dec),
        ("b64-enc", entry_b64_enc),
        ("b64-dec", entry_b64_dec),
        ("json-print", entry_json_print),
        ("json-read", entry_json_read),
        ("bson-enc", entry_bson_enc),
        ("bson-dec", entry_bson_dec),
    ]
}

fn text_out(s: &str) -> String { if s.is_empty() { "-".into() } else { s.to_string() } }

fn hex_or_dash(b: &[u8]) -> String { if b.is_empty() { "-".into() } else { hex(b) } }

fn entry_ip_parse(args: &[&str]) -> String {
    let [h] = args else { return "bad-case".into() };
    let Some(bytes) = unhex(h) else { return "bad-case".into() };
    // the CLI's host is a `String`: text that is not UTF-8 never reaches the parser
    let Ok(text) = String::from_utf8(bytes) else { return "none".into() };
    match text.parse::<std::net::IpAddr>() {
        Ok(ip) => ip.to_string(),
        Err(_) => "none".into(),
    }
}

fn entry_hex_enc(args: &[&str]) -> String {
    let [h] = args else { return "bad-case".into() };
    let Some(bytes) = unhex(h) else { return "bad-case".into() };
    text_out(&::hex::encode(bytes))
}

fn entry_hex_dec(args: &[&str]) -> String {
    let [h] = args else { return "bad-case".into() };
    let Some(text) = unhex(h) else { return "bad-case".into() };
    match ::hex::decode(text) {
        Ok(b) => format!("OK {}", hex_or_dash(&b)),
        Err(_) => "ERR".into(),
    }
}

fn entry_b64_enc(args: &[&str]) -> String {
    let [h] = args else { return "bad-case".into() };
    let Some(bytes) = unhex(h) else { return "bad-case".into() };
    text_out(&base64::prelude::BASE64_STANDARD.encode(bytes))
}

fn entry_b64_dec(args: &[&str]) -> String {
    let [h] = args else { return "bad-case".into() };
    let Some(text) = unhex(h) else { return "bad-case".into() };
    match base64::prelude::BASE64_STANDARD.decode(text) {
        Ok(b) => format!("OK {}", hex_or_dash(&b)),
        Err(_) => "ERR".into(),
    }
}

/// a JSON value that keeps member order and repeated keys (serde_json's own `Value` sorts without `preserve_order`)
enum Tok {
    Null,
    Bool(bool),
    Num(serde_json::Number),
    Str(String),
    Arr(Vec<Tok>),
    Obj(Vec<(String, Tok)>),
}

impl Serialize for Tok {
    fn serialize<S: Serializer>(&self, s: S) -> Result<S::Ok, S::Error> {
        match self {
            Tok::Null => s.serialize_unit(),
            Tok::Bool(b) => s.serialize_bool(*b),
            Tok::Num(n) => n.serialize(s),
            Tok::Str(t) => s.serialize_str(t),
            Tok::Arr(items) => {
                let mut seq = s.serialize_seq(Some(items.len()))?;
                for i in items {
                    seq.serialize_element(i)?;
                }
                seq.end()
            }
            Tok::Obj(members) => {
                let mut map = s.serialize_map(Some(members.len()))?;
                for (k, v) in members {
                    map.serialize_entry(k, v)?;
                }
                map.end()
            }
        }
    }
}

struct TokVisitor;

impl<'de> Visitor<'de> for TokVisitor {
    type Value = Tok;

    fn expecting(&self, f: &mut std::fmt::Formatter) -> std::fmt::Result { f.write_str("a JSON value") }

    fn visit_unit<E>(self) -> Result<Tok, E> { Ok(Tok::Null) }

    fn visit_bool<E>(self, b: bool) -> Result<Tok, E> { Ok(Tok::Bool(b)) }

    fn visit_u64<E>(self, n: u64) -> Result<Tok, E> { Ok(Tok::Num(n.into())) }

    fn visit_i64<E>(self, n: i64) -> Result<Tok, E> { Ok(Tok::Num(n.into())) }

    fn visit_f64<E: serde::de::Error>(self, n: f64) -> Result<Tok, E> {
        serde_json::Number::from_f64(n).map(Tok::Num).ok_or_else(|| E::custom("not a finite number"))
    }

    fn visit_str<E>(self, s: &str) -> Result<Tok, E> { Ok(Tok::Str(s.to_string())) }

    fn visit_string<E>(self, s: String) -> Result<Tok, E> { Ok(Tok::Str(s)) }

    fn visit_seq<A: SeqAccess<'de>>(self, mut seq: A) -> Result<Tok, A::Error> {
        let mut items = Vec::new();
        while let Some(i) = seq.next_element()? {
            items.push(i);
        }
        Ok(Tok::Arr(items))
    }

    fn visit_map<A: MapAccess<'de>>(self, mut map: A) -> Result<Tok, A::Error> {
        let mut members = Vec::new();
        while let Some((k, v)) = map.next_entry::<String, Tok>()? {
            members.push((k, v));
        }
        Ok(Tok::Obj(members))
    }
}

impl<'de> Deserialize<'de> for Tok {
    fn deserialize<D: Deserializer<'de>>(d: D) -> Result<Tok, D::Error> { d.deserialize_any(TokVisitor) }
}

fn parse_tok<'a>(toks: &mut std::slice::Iter<'a, &'a str>) -> Option<Tok> {
    let t = *toks.next()?;
    Some(match t.as_bytes().first()? {
        b'N' if t == "N" => Tok::Null,
        b'T' if t == "T" => Tok::Bool(true),
        b'F' if t == "F" => Tok::Bool(false),
        b'#' => Tok::Num(String::from_utf8(unhex(&t[1 ..])?).ok()?.parse().ok()?),
        b'S' => Tok::Str(String::from_utf8(unhex(if t.len() == 1 { "-" } else { &t[1 ..] })?).ok()?),
        b'A' => {
            let n: usize = t[1 ..].parse().ok()?;
            let mut items = Vec::new();
            for _ in 0 .. n {
                items.push(parse_tok(toks)?);
            }
            Tok::Arr(items)
        }
        b'O' => {
            let n: usize = t[1 ..].parse().ok()?;
            let mut members = Vec::new();
            for _ in 0 .. n {
                let k = String::from_utf8(unhex(toks.next()?)?).ok()?;
                members.push((k, parse_tok(toks)?));
            }
            Tok::Obj(members)
        }
        _ => return None,
    })
}

fn show_tok(t: &Tok, out: &mut Vec<String>) {
    match t {
        Tok::Null => out.push("N".into()),
        Tok::Bool(b) => out.push(if *b { "T" } else { "F" }.into()),
        Tok::Num(n) => out.push(format!("#{}", hex(n.to_string().as_bytes()))),
        Tok::Str(s) => out.push(format!("S{}", hex(s.as_bytes()))),
        Tok::Arr(items) => {
            out.push(format!("A{}", items.len()));
            for i in items {
                show_tok(i, out);
            }
        }
        Tok::Obj(members) => {
            out.push(format!("O{}", members.len()));
            for (k, v) in members {
                out.push(hex_or_dash(k.as_bytes()));
                show_tok(v, out);
            }
        }
    }
}

/// `json-print <c|p> <tokens>`: serde_json's compact / pretty text of the value
fn entry_json_print(args: &[&str]) -> String {
    let Some((style, toks)) = args.split_first() else { return "bad-case".into() };
    let mut it = toks.iter();
    let Some(v) = parse_tok(&mut it) else { return "bad-case".into() };
    if it.next().is_some() {
        return "bad-case".into();
    }
    let text = match *style {
        "c" => serde_json::to_string(&v),
        "p" => serde_json::to_string_pretty(&v),
        _ => return "bad-case".into(),
    };
    match text {
        Ok(t) => hex_or_dash(t.as_bytes()),
        Err(_) => "ERR".into(),
    }
}

/// `json-read <hex document>`: the value serde_json reads, as tokens
fn entry_json_read(args: &[&str]) -> String {
    let [h] = args else { return "bad-case".into() };
    let Some(doc) = unhex(h) else { return "bad-case".into() };
    match serde_json::from_slice::<Tok>(&doc) {
        Ok(v) => {
            let mut out = Vec::new();
            show_tok(&v, &mut out);
            out.join(" ")
        }
        Err(_) => "bad".into(),
    }
}

/// a serde value whose numbers remember their Rust type (the type decides the BSON type the crate writes)
enum BTok {
    Null,
    Bool(bool),
    I8(i8),
    I16(i16),
    I32(i32),
    I64(i64),
    U8(u8),
    U16(u16),
    U32(u32),
    U64(u64),
    F64(f64),
    Str(String),
    Arr(Vec<BTok>),
    Doc(Vec<(String, BTok)>),
}

impl Serialize for BTok {
    fn serialize<S: Serializer>(&self, s: S) -> Result<S::Ok, S::Error> {
        match self {
            BTok::Null => s.serialize_unit(),
            BTok::Bool(b) => s.serialize_bool(*b),
            BTok::I8(n) => s.serialize_i8(*n),
            BTok::I16(n) => s.serialize_i16(*n),
            BTok::I32(n) => s.serialize_i32(*n),
            BTok::I64(n) => s.serialize_i64(*n),
            BTok::U8(n) => s.serialize_u8(*n),
            BTok::U16(n) => s.serialize_u16(*n),
            BTok::U32(n) => s.serialize_u32(*n),
            BTok::U64(n) => s.serialize_u64(*n),
            BTok::F64(n) => s.serialize_f64(*n),
            BTok::Str(t) => s.serialize_str(t),
            BTok::Arr(items) => {
                let mut seq = s.serialize_seq(Some(items.len()))?;
                for i in items {
                    seq.serialize_element(i)?;
                }
                seq.end()
            }
            BTok::Doc(members) => {
                let mut map = s.serialize_map(Some(members.len()))?;
                for (k, v) in members {
                    map.serialize_entry(k, v)?;
                }
                map.end()
            }
        }
    }
}

fn parse_btok<'a>(toks: &mut std::slice::Iter<'a, &'a str>) -> Option<BTok> {
    let t = *toks.next()?;
    Some(match t.as_bytes().first()? {
        b'N' if t == "N" => BTok::Null,
        b'T' if t == "T" => BTok::Bool(true),
        b'F' if t == "F" => BTok::Bool(false),
        b'I' => {
            let (k, d) = t[1 ..].split_once(':')?;
            match k {
                "i8" => BTok::I8(d.parse().ok()?),
                "i16" => BTok::I16(d.parse().ok()?),
                "i32" => BTok::I32(d.parse().ok()?),
                "i64" => BTok::I64(d.parse().ok()?),
                "u8" => BTok::U8(d.parse().ok()?),
                "u16" => BTok::U16(d.parse().ok()?),
                "u32" => BTok::U32(d.parse().ok()?),
                "u64" => BTok::U64(d.parse().ok()?),
                _ => return None,
            }
        }
        b'D' => BTok::F64(f64::from_bits(u64::from_str_radix(&t[1 ..], 16).ok()?)),
        b'S' => BTok::Str(String::from_utf8(unhex(if t.len() == 1 { "-" } else { &t[1 ..] })?).ok()?),
        b'A' => {
            let n: usize = t[1 ..].parse().ok()?;
            let mut items = Vec::new();
            for _ in 0 .. n {
                items.push(parse_btok(toks)?);
            }
            BTok::Arr(items)
        }
        b'O' => {
            let n: usize = t[1 ..].parse().ok()?;
            let mut members = Vec::new();
            for _ in 0 .. n {
                let k = String::from_utf8(unhex(toks.next()?)?).ok()?;
                members.push((k, parse_btok(toks)?));
            }
            BTok::Doc(members)
        }
        _ => return None,
    })
}

/// `bson-enc <tokens>`: `bson::to_vec` of the value (what the CLI prints as hex / base64)
fn entry_bson_enc(args: &[&str]) -> String {
    let mut it = args.iter();
    let Some(v) = parse_btok(&mut it) else { return "bad-case".into() };
    if it.next().is_some() {
        return "bad-case".into();
    }
    match bson::to_vec(&v) {
        Ok(b) => format!("OK {}", hex_or_dash(&b)),
        Err(bson::ser::Error::UnsignedIntegerExceededRange(_)) => "ERR u64".into(),
        Err(bson::ser::Error::InvalidCString(_)) => "ERR cstring".into(),
        Err(bson::ser::Error::SerializationError { message, .. }) if message.contains("non-document type at the top level") => "ERR top".into(),
        Err(e) => format!("ERR other {}", hex(e.to_string().as_bytes())),
    }
}

/// why a document cannot be shown as tokens
enum BsonRead {
    /// the crate does not read it
    Bad,
    /// it holds an element type the serialiser never writes for a serde value of the kinds above
    Unsupported,
}

fn show_raw_doc(doc: &bson::RawDocument, out: &mut Vec<String>) -> Result<(), BsonRead> {
    let mut members = Vec::new();
    for r in doc {
        let (k, v) = r.map_err(|_| BsonRead::Bad)?;
        let mut one = vec![hex_or_dash(k.as_bytes())];
        show_raw(v, &mut one)?;
        members.push(one);
    }
    out.push(format!("O{}", members.len()));
    out.extend(members.into_iter().flatten());
    Ok(())
}

fn show_raw(v: bson::RawBsonRef, out: &mut Vec<String>) -> Result<(), BsonRead> {
    use bson::RawBsonRef as R;
    match v {
        R::Null => out.push("N".into()),
        R::Boolean(b) => out.push(if b { "T" } else { "F" }.into()),
        R::Int32(n) => out.push(format!("Ii32:{n}")),
        R::Int64(n) => out.push(format!("Ii64:{n}")),
        R::Double(d) => out.push(format!("D{:016x}", d.to_bits())),
        R::String(s) => out.push(format!("S{}", hex(s.as_bytes()))),
        R::Document(d) => show_raw_doc(d, out)?,
        R::Array(a) => {
            let mut items = Vec::new();
            for r in a {
                let mut one = Vec::new();
                show_raw(r.map_err(|_| BsonRead::Bad)?, &mut one)?;
                items.push(one);
            }
            out.push(format!("A{}", items.len()));
            out.extend(items.into_iter().flatten());
        }
        _ => return Err(BsonRead::Unsupported),
    }
    Ok(())
}

/// `bson-dec <hex document>`: the value the crate's raw reader finds, as tokens
fn entry_bson_dec(args: &[&str]) -> String {
    let [h] = args else { return "bad-case".into() };
    let Some(bytes) = unhex(h) else { return "bad-case".into() };
    let Ok(doc) = bson::RawDocument::from_bytes(&bytes) else { return "bad".into() };
    let mut out = Vec::new();
    match show_raw_doc(doc, &mut out) {
        Ok(()) => out.join(" "),
        Err(BsonRead::Bad) => "bad".into(),
        Err(BsonRead::Unsupported) => "unsupported".into(),
    }
}
