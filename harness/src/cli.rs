//! C19: the crates and std functions the command-line tool's model mirrors, in-process:
//! `IpAddr::from_str` + `Display`, `hex::encode` / `decode`, `BASE64_STANDARD.encode` / `decode`,
//! `serde_json::to_string` / `to_string_pretty` / `from_slice` (on a token tree that keeps member order).
use crate::canon::*;
use base64::Engine;
use serde::de::{MapAccess, SeqAccess, Visitor};
use serde::ser::{SerializeMap, SerializeSeq};
use serde::{Deserialize, Deserializer, Serialize, Serializer};

pub fn entries() -> Vec<(&'static str, crate::EntryFn)> {
    vec![
        ("ip-parse", entry_ip_parse),
        ("hex-enc", entry_hex_enc),
        ("hex-dec", entry_hex_dec),
        ("b64-enc", entry_b64_enc),
        ("b64-dec", entry_b64_dec),
        ("json-print", entry_json_print),
        ("json-read", entry_json_read),
    ]
}

fn text_out(s: &str) -> String { if s.is_empty() { "-".into() } else { s.to_string() } }

fn hex_or_dash(b: &[u8]) -> String { if b.is_empty() { "-".into() } else { hex(b) } }

fn entry_ip_parse(args: &[&str]) -> String {
    let [h] = args else { return "bad-case".into() };
    let Some(bytes) = unhex(h) else { return "bad-case".into() };
    // the CLI's host is a `String`: text that is not UTF-8 never reaches the parser
    let Ok(text) = String::from_utf8(bytes) else { return "none".into() };
    match text.parse::<std::net::IpAddr>() {
        Ok(ip) => ip.to_string(),
        Err(_) => "none".into(),
    }
}

fn entry_hex_enc(args: &[&str]) -> String {
    let [h] = args else { return "bad-case".into() };
    let Some(bytes) = unhex(h) else { return "bad-case".into() };
    text_out(&::hex::encode(bytes))
}

fn entry_hex_dec(args: &[&str]) -> String {
    let [h] = args else { return "bad-case".into() };
    let Some(text) = unhex(h) else { return "bad-case".into() };
    match ::hex::decode(text) {
        Ok(b) => format!("OK {}", hex_or_dash(&b)),
        Err(_) => "ERR".into(),
    }
}

fn entry_b64_enc(args: &[&str]) -> String {
    let [h] = args else { return "bad-case".into() };
    let Some(bytes) = unhex(h) else { return "bad-case".into() };
    text_out(&base64::prelude::BASE64_STANDARD.encode(bytes))
}

fn entry_b64_dec(args: &[&str]) -> String {
    let [h] = args else { return "bad-case".into() };
    let Some(text) = unhex(h) else { return "bad-case".into() };
    match base64::prelude::BASE64_STANDARD.decode(text) {
        Ok(b) => format!("OK {}", hex_or_dash(&b)),
        Err(_) => "ERR".into(),
    }
}

/// a JSON value that keeps member order and repeated keys (serde_json's own `Value` sorts without `preserve_order`)
enum Tok {
    Null,
    Bool(bool),
    Num(serde_json::Number),
    Str(String),
    Arr(Vec<Tok>),
    Obj(Vec<(String, Tok)>),
}

impl Serialize for Tok {
    fn serialize<S: Serializer>(&self, s: S) -> Result<S::Ok, S::Error> {
        match self {
            Tok::Null => s.serialize_unit(),
            Tok::Bool(b) => s.serialize_bool(*b),
            Tok::Num(n) => n.serialize(s),
            Tok::Str(t) => s.serialize_str(t),
            Tok::Arr(items) => {
                let mut seq = s.serialize_seq(Some(items.len()))?;
                for i in items {
                    seq.serialize_element(i)?;
                }
                seq.end()
            }
            Tok::Obj(members) => {
                let mut map = s.serialize_map(Some(members.len()))?;
                for (k, v) in members {
                    map.serialize_entry(k, v)?;
                }
                map.end()
            }
        }
    }
}

struct TokVisitor;

impl<'de> Visitor<'de> for TokVisitor {
    type Value = Tok;

    fn expecting(&self, f: &mut std::fmt::Formatter) -> std::fmt::Result { f.write_str("a JSON value") }

    fn visit_unit<E>(self) -> Result<Tok, E> { Ok(Tok::Null) }

    fn visit_bool<E>(self, b: bool) -> Result<Tok, E> { Ok(Tok::Bool(b)) }

    fn visit_u64<E>(self, n: u64) -> Result<Tok, E> { Ok(Tok::Num(n.into())) }

    fn visit_i64<E>(self, n: i64) -> Result<Tok, E> { Ok(Tok::Num(n.into())) }

    fn visit_f64<E: serde::de::Error>(self, n: f64) -> Result<Tok, E> {
        serde_json::Number::from_f64(n).map(Tok::Num).ok_or_else(|| E::custom("not a finite number"))
    }

    fn visit_str<E>(self, s: &str) -> Result<Tok, E> { Ok(Tok::Str(s.to_string())) }

    fn visit_string<E>(self, s: String) -> Result<Tok, E> { Ok(Tok::Str(s)) }

    fn visit_seq<A: SeqAccess<'de>>(self, mut seq: A) -> Result<Tok, A::Error> {
        let mut items = Vec::new();
        while let Some(i) = seq.next_element()? {
            items.push(i);
        }
        Ok(Tok::Arr(items))
    }

    fn visit_map<A: MapAccess<'de>>(self, mut map: A) -> Result<Tok, A::Error> {
        let mut members = Vec::new();
        while let Some((k, v)) = map.next_entry::<String, Tok>()? {
            members.push((k, v));
        }
        Ok(Tok::Obj(members))
    }
}

impl<'de> Deserialize<'de> for Tok {
    fn deserialize<D: Deserializer<'de>>(d: D) -> Result<Tok, D::Error> { d.deserialize_any(TokVisitor) }
}

fn parse_tok<'a>(toks: &mut std::slice::Iter<'a, &'a str>) -> Option<Tok> {
    let t = *toks.next()?;
    Some(match t.as_bytes().first()? {
        b'N' if t == "N" => Tok::Null,
        b'T' if t == "T" => Tok::Bool(true),
        b'F' if t == "F" => Tok::Bool(false),
        b'#' => Tok::Num(String::from_utf8(unhex(&t[1 ..])?).ok()?.parse().ok()?),
        b'S' => Tok::Str(String::from_utf8(unhex(if t.len() == 1 { "-" } else { &t[1 ..] })?).ok()?),
        b'A' => {
            let n: usize = t[1 ..].parse().ok()?;
            let mut items = Vec::new();
            for _ in 0 .. n {
                items.push(parse_tok(toks)?);
            }
            Tok::Arr(items)
        }
        b'O' => {
            let n: usize = t[1 ..].parse().ok()?;
            let mut members = Vec::new();
            for _ in 0 .. n {
                let k = String::from_utf8(unhex(toks.next()?)?).ok()?;
                members.push((k, parse_tok(toks)?));
            }
            Tok::Obj(members)
        }
        _ => return None,
    })
}

fn show_tok(t: &Tok, out: &mut Vec<String>) {
    match t {
        Tok::Null => out.push("N".into()),
        Tok::Bool(b) => out.push(if *b { "T" } else { "F" }.into()),
        Tok::Num(n) => out.push(format!("#{}", hex(n.to_string().as_bytes()))),
        Tok::Str(s) => out.push(format!("S{}", hex(s.as_bytes()))),
        Tok::Arr(items) => {
            out.push(format!("A{}", items.len()));
            for i in items {
                show_tok(i, out);
            }
        }
        Tok::Obj(members) => {
            out.push(format!("O{}", members.len()));
            for (k, v) in members {
                out.push(hex_or_dash(k.as_bytes()));
                show_tok(v, out);
            }
        }
    }
}

/// `json-print <c|p> <tokens>`: serde_json's compact / pretty text of the value
fn entry_json_print(args: &[&str]) -> String {
    let Some((style, toks)) = args.split_first() else { return "bad-case".into() };
    let mut it = toks.iter();
    let Some(v) = parse_tok(&mut it) else { return "bad-case".into() };
    if it.next().is_some() {
        return "bad-case".into();
    }
    let text = match *style {
        "c" => serde_json::to_string(&v),
        "p" => serde_json::to_string_pretty(&v),
        _ => return "bad-case".into(),
    };
    match text {
        Ok(t) => hex_or_dash(t.as_bytes()),
        Err(_) => "ERR".into(),
    }
}

/// `json-read <hex document>`: the value serde_json reads, as tokens
fn entry_json_read(args: &[&str]) -> String {
    let [h] = args else { return "bad-case".into() };
    let Some(doc) = unhex(h) else { return "bad-case".into() };
    match serde_json::from_slice::<Tok>(&doc) {
        Ok(v) => {
            let mut out = Vec::new();
            show_tok(&v, &mut out);
            out.join(" ")
        }
        Err(_) => "bad".into(),
    }
}
