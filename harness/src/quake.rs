//! Quake 1 / 2 / 3 status entries: `quake <port> <1|2|3> <retries> <script> [opts]`.
use crate::canon::*;
use crate::net::*;
use gamedig::protocols::quake::{self, Response};
use std::collections::HashMap;

pub fn entries() -> Vec<(&'static str, crate::EntryFn)> { vec![("quake", entry_quake)] }

pub fn show_player_one(p: &quake::one::Player) -> String {
    format!(
        "({})",
        [
            p.id.to_string(),
            p.score.to_string(),
            p.time.to_string(),
            p.ping.to_string(),
            show_str(&p.name),
            show_str(&p.skin),
            p.color_primary.to_string(),
            p.color_secondary.to_string(),
        ]
        .join(";")
    )
}

pub fn show_player_two(p: &quake::two::Player) -> String {
    format!(
        "({})",
        [
            p.score.to_string(),
            p.ping.to_string(),
            show_str(&p.name),
            show_opt(&p.address, |a| show_str(a)),
        ]
        .join(";")
    )
}

fn show_map(m: &HashMap<String, String>) -> String {
    let mut kv: Vec<(&String, &String)> = m.iter().collect();
    kv.sort_by(|a, b| a.0.as_bytes().cmp(b.0.as_bytes()));
    show_list(&kv, |(k, v)| format!("{}={}", show_str(k), show_str(v)))
}

pub fn show_response<P>(r: &Response<P>, show_player: impl Fn(&P) -> String) -> String {
    format!(
        "Q{{{}}} P{} U{}",
        [
            show_str(&r.name),
            show_str(&r.map),
            r.players_online.to_string(),
            r.players_maximum.to_string(),
            show_opt(&r.game_version, |v| show_str(v)),
        ]
        .join(";"),
        show_list(&r.players, show_player),
        show_map(&r.unused_entries)
    )
}

fn entry_quake(args: &[&str]) -> String {
    if args.len() < 4 {
        return "bad-case".into();
    }
    let (Some(port), Some(r), Some(script)) = (
        args[0].parse::<u16>().ok(),
        args[2].parse::<usize>().ok(),
        parse_net_args(&args[3 ..]),
    ) else {
        return "bad-case".into();
    };
    match args[1] {
        "1" => {
            run_q(
                script,
                || quake::one::query(&addr(port), timeout(r)),
                |x| show_response(x, show_player_one),
            )
        }
        "2" => {
            run_q(
                script,
                || quake::two::query(&addr(port), timeout(r)),
                |x| show_response(x, show_player_two),
            )
        }
        "3" => {
            run_q(
                script,
                || quake::three::query(&addr(port), timeout(r)),
                |x| show_response(x, show_player_two),
            )
        }
        _ => "bad-case".into(),
    }
}
