//! Unreal 2 entries: the whole query under a script (`unreal2`), and the string decoder alone (`u2str`).
use crate::canon::*;
use crate::net::*;
use byteorder::LittleEndian;
use gamedig::protocols::types::GatherToggle;
use gamedig::protocols::unreal2::{self, GatheringSettings, MutatorsAndRules, Player, Players, Response, ServerInfo};
use gamedig::verif_hook as vh;
use gamedig::verif_hook::{Dec, VBuffer};

pub fn entries() -> Vec<(&'static str, crate::EntryFn)> { vec![("unreal2", entry_unreal2), ("u2str", entry_u2str)] }

crate::impl_view_dump!(
    gamedig::protocols::unreal2::Response,
    "protocols/unreal2/types.rs",
    "Response",
    "protocols/unreal2/types.rs",
    "Player"
);

fn show_info(i: &ServerInfo) -> String {
    format!(
        "I{{{}}}",
        [
            i.server_id.to_string(),
            show_str(&i.ip),
            i.game_port.to_string(),
            i.query_port.to_string(),
            show_str(&i.name),
            show_str(&i.map),
            show_str(&i.game_type),
            i.num_players.to_string(),
            i.max_players.to_string(),
            show_bool(i.password),
        ]
        .join(";")
    )
}

fn show_player(p: &Player) -> String {
    format!(
        "({})",
        [
            p.id.to_string(),
            show_str(&p.name),
            p.ping.to_string(),
            p.score.to_string(),
            p.stats_id.to_string(),
        ]
        .join(";")
    )
}

fn show_mr(m: &MutatorsAndRules) -> String {
    let mut muts: Vec<&String> = m.mutators.iter().collect();
    muts.sort_by(|a, b| a.as_bytes().cmp(b.as_bytes()));
    let mut kv: Vec<(&String, &Vec<String>)> = m.rules.iter().collect();
    kv.sort_by(|a, b| a.0.as_bytes().cmp(b.0.as_bytes()));
    format!(
        "M{} R{}",
        show_list(&muts, |s| show_str(s)),
        show_list(&kv, |(k, vs)| format!("{}={}", show_str(k), show_list(vs, |v| show_str(v))))
    )
}

fn show_players(p: &Players) -> String {
    format!("P{} B{}", show_list(&p.players, show_player), show_list(&p.bots, show_player))
}

pub fn show_response(r: &Response) -> String {
    format!("{} {} {}", show_info(&r.server_info), show_mr(&r.mutators_and_rules), show_players(&r.players))
}

fn parse_toggle(c: char) -> Option<GatherToggle> {
    match c {
        's' => Some(GatherToggle::Skip),
        't' => Some(GatherToggle::Try),
        'e' => Some(GatherToggle::Enforce),
        _ => None,
    }
}

/// two letters: mutators-and-rules toggle, players toggle
fn parse_gather(s: &str) -> Option<GatheringSettings> {
    let c: Vec<char> = s.chars().collect();
    if c.len() != 2 {
        return None;
    }
    Some(GatheringSettings {
        mutators_and_rules: parse_toggle(c[0])?,
        players: parse_toggle(c[1])?,
    })
}

/// `unreal2 <port> <gather> <retries> <script> [opts]`
fn entry_unreal2(args: &[&str]) -> String {
    if args.len() < 4 {
        return "bad-case".into();
    }
    let (Some(port), Some(g), Some(r), Some(script)) = (
        args[0].parse::<u16>().ok(),
        parse_gather(args[1]),
        args[2].parse::<usize>().ok(),
        parse_net_args(&args[3 ..]),
    ) else {
        return "bad-case".into();
    };
    run_q(script, || unreal2::query(&addr(port), &g, timeout(r)), show_response)
}

/// the bytes a `u2str` case is about: the first delivery of the first scripted socket (nothing if that is not data)
fn first_delivery(script: &vh::Script) -> Vec<u8> {
    match script.conns.first() {
        Some(vh::ConnScript::Open(ds)) => {
            match ds.first() {
                Some(vh::Delivery::Data(d)) => d.clone(),
                _ => Vec::new(),
            }
        }
        _ => Vec::new(),
    }
}

/// `u2str <hex>`: one `read_string::<Unreal2StringDecoder>` on a packet reader over the bytes;
/// prints the decoded text, the cursor and the remaining length.
fn entry_u2str(args: &[&str]) -> String {
    if args.is_empty() {
        return "bad-case".into();
    }
    let Some(script) = parse_net_args(&args[.. 1]) else {
        return "bad-case".into();
    };
    let data = first_delivery(&script);
    let mut b: VBuffer<LittleEndian> = VBuffer::new(&data);
    let r = vh::read_string_le(&mut b, Dec::Unreal2, None);
    let pos = b.current_position();
    let res = match &r {
        Ok(s) => format!("OK {} @{}", show_str(s), pos),
        Err(e) => format!("ERR {}", kind_name(&e.kind)),
    };
    // a one-event pseudo trace so that the generic runners count the case as having read its input
    format!("{} ;; R0:-:{}", res, data.len())
}
