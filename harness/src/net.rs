//! Scripted-transport plumbing shared by every network entry.
#![allow(dead_code)]

use crate::canon::*;
use gamedig::protocols::types::TimeoutSettings;
use gamedig::verif_hook::{self as vh, ConnScript, Delivery, Event, Script};
use gamedig::GDResult;
use std::net::{IpAddr, Ipv4Addr, SocketAddr};

pub const IP: IpAddr = IpAddr::V4(Ipv4Addr::new(10, 1, 2, 3));

thread_local! {
    /// real-socket mode (`realfam`): the loopback server every query is sent to and the read timeout in ms; no script is
    /// installed, the library's own socket code runs
    static REAL: std::cell::Cell<Option<(SocketAddr, u64)>> = const { std::cell::Cell::new(None) };
}

pub fn set_real(v: Option<(SocketAddr, u64)>) { REAL.with(|c| c.set(v)); }

pub const IP6: IpAddr = IpAddr::V6(std::net::Ipv6Addr::new(0x2001, 0xdb8, 0, 0, 0, 0, 0, 3));

thread_local! {
    /// the address the case's query goes to (`ip=6` on the case line: an IPv6 one)
    static CASE_IP: std::cell::Cell<IpAddr> = const { std::cell::Cell::new(IP) };
}

pub fn ip() -> IpAddr { CASE_IP.with(|c| c.get()) }

pub fn addr(port: u16) -> SocketAddr { REAL.with(|c| c.get()).map_or(SocketAddr::new(ip(), port), |r| r.0) }

fn parse_conn(s: &str) -> Option<ConnScript> {
    if s == "X" {
        return Some(ConnScript::Refused);
    }
    if s == "." {
        return Some(ConnScript::Open(vec![]));
    }
    let mut v = Vec::new();
    for d in s.split(',') {
        if d == "~" {
            v.push(Delivery::Silence);
        } else {
            v.push(Delivery::Data(unhex(d)?));
        }
    }
    Some(ConnScript::Open(v))
}

/// `<script> [f=0101] [bz=…]*` (the bz table is for the model only)
pub fn parse_net_args(toks: &[&str]) -> Option<Script> {
    let sc = toks.first()?;
    let mut script = Script::default();
    let mut durations: Option<[Option<std::time::Duration>; 3]> = None;
    if *sc != "_" {
        for c in sc.split('/') {
            script.conns.push(parse_conn(c)?);
        }
    }
    CASE_IP.with(|c| c.set(IP));
    for t in &toks[1 ..] {
        if *t == "ip=6" {
            CASE_IP.with(|c| c.set(IP6));
        } else if *t == "ip=4" {
        } else if let Some(f) = t.strip_prefix("f=") {
            script.send_faults = f.chars().map(|c| c == '1').collect();
        } else if t.starts_with("bz=") {
        } else if let Some(d) = t.strip_prefix("td=") {
            // `td=<read>,<write>,<connect>`, each `-` or `<secs>:<nanos>`: durations for `timeout()`
            let parts: Vec<&str> = d.split(',').collect();
            if parts.len() != 3 {
                return None;
            }
            let mut ds = [None; 3];
            for (i, p) in parts.iter().enumerate() {
                if *p != "-" {
                    let (a, b) = p.split_once(':')?;
                    ds[i] = Some(std::time::Duration::new(a.parse().ok()?, b.parse().ok()?));
                }
            }
            durations = Some(ds);
        } else {
            return None;
        }
    }
    DURATIONS.with(|c| c.set(durations));
    Some(script)
}

thread_local! {
    /// (read, write, connect) of the case line being run (`td=` option); None = one second each
    static DURATIONS: std::cell::Cell<Option<[Option<std::time::Duration>; 3]>> = const { std::cell::Cell::new(None) };
}

pub fn show_event(e: &Event) -> String {
    match e {
        Event::Open {
            conn,
            tcp,
            addr,
            refused,
        } => {
            format!(
                "O{}{}{}{}{}",
                conn,
                if *tcp { "t" } else { "u" },
                addr.port(),
                if *refused { "!" } else { "" },
                if addr.ip() != ip() { "@WRONGIP" } else { "" }
            )
        }
        Event::Send {
            conn,
            addr,
            data,
            failed,
        } => {
            format!(
                "S{}>{}:{}{}{}",
                conn,
                addr.port(),
                hex(data),
                if *failed { "!" } else { "" },
                if addr.ip() != ip() { "@WRONGIP" } else { "" }
            )
        }
        Event::Recv { conn, size, got } => {
            format!(
                "R{}:{}:{}",
                conn,
                size.map_or("-".to_string(), |n| n.to_string()),
                got.map_or("T".to_string(), |n| n.to_string())
            )
        }
    }
}

/// the settings of the case line's `td=` option, if it has one
pub fn timeout_override(retries: usize) -> Option<TimeoutSettings> {
    DURATIONS.with(|d| d.get()).map(|[r, w, c]| TimeoutSettings::new(r, w, c, retries).unwrap())
}

pub fn timeout(retries: usize) -> Option<TimeoutSettings> {
    // durations are irrelevant to the scripted transport itself (no clock) but reach every computation the code makes
    // with them; a case line may set them (`td=`), they must be valid
    if let Some((_, ms)) = REAL.with(|c| c.get()) {
        // read timeout `ms`; write and connect much longer and different (a receive must be bounded by the READ timeout)
        let d = |x: u64| Some(std::time::Duration::from_millis(x));
        return Some(TimeoutSettings::new(d(ms), d(ms * 10 + 2000), d(ms * 10 + 3000), retries).unwrap());
    }
    let one = Some(std::time::Duration::from_secs(1));
    let [r, w, c] = DURATIONS.with(|d| d.get()).unwrap_or([one, one, one]);
    Some(TimeoutSettings::new(r, w, c, retries).unwrap())
}

/// (peak live bytes, largest single request) of the last `run_q` on this thread
thread_local! {
    pub static LAST_ALLOC: std::cell::Cell<(usize, usize)> = const { std::cell::Cell::new((0, 0)) };
}

/// Run a query under a script; print `<result> ;; <trace>`.
pub fn run_q<T: crate::views::ViewDump>(script: Script, q: impl FnOnce() -> GDResult<T>, show: impl Fn(&T) -> String) -> String {
    if REAL.with(|c| c.get()).is_some() {
        let r = q();
        return format!("{} ;; - ;; A0/0", show_res(&r, show));
    }
    let budget = 200_000;
    vh::install(script, budget);
    let base = crate::alloc::begin();
    let r = q();
    let (peak, largest, _total) = crate::alloc::end(base);
    LAST_ALLOC.with(|c| c.set((peak, largest)));
    let log = vh::uninstall();
    let res = show_res(&r, show);
    let view = r
        .as_ref()
        .ok()
        .and_then(crate::views::ViewDump::view_dump)
        .map_or(String::new(), |v| format!(" ;; V{}", hex(v.as_bytes())));
    drop(r);
    format!(
        "{} ;; {} ;; A{}/{}{}",
        res,
        log.iter().map(show_event).collect::<Vec<_>>().join(" "),
        peak,
        largest,
        view
    )
}
