//! Minecraft entries: `minecraft::protocol::{query_java, query_bedrock, query_legacy_specific, query_legacy, query}`.
use crate::canon::*;
use crate::net::*;
use gamedig::games::minecraft::{self as mc, BedrockResponse, GameMode, JavaResponse, LegacyGroup, Player, RequestSettings, Server};

pub fn entries() -> Vec<(&'static str, crate::EntryFn)> {
    vec![
        ("mcjava", entry_java),
        ("mcbedrock", entry_bedrock),
        ("mclegacy", entry_legacy),
        ("mcauto", entry_auto),
    ]
}

fn show_group(g: &LegacyGroup) -> &'static str {
    match g {
        LegacyGroup::V1_6 => "16",
        LegacyGroup::V1_4 => "14",
        LegacyGroup::VB1_8 => "b18",
    }
}

fn show_server(s: &Server) -> String {
    match s {
        Server::Java => "J".to_string(),
        Server::Bedrock => "B".to_string(),
        Server::Legacy(g) => format!("L{}", show_group(g)),
    }
}

fn show_player(p: &Player) -> String { format!("({};{})", show_str(&p.name), show_str(&p.id)) }

pub fn show_java(r: &JavaResponse) -> String {
    format!(
        "J{{{}}}",
        [
            show_str(&r.game_version),
            r.protocol_version.to_string(),
            r.players_maximum.to_string(),
            r.players_online.to_string(),
            show_opt(&r.players, |p| show_list(p, show_player)),
            show_str(&r.description),
            show_opt(&r.favicon, |v| show_str(v)),
            show_opt(&r.previews_chat, |v| show_bool(*v)),
            show_opt(&r.enforces_secure_chat, |v| show_bool(*v)),
            show_server(&r.server_type),
        ]
        .join(";")
    )
}

fn show_mode(m: &GameMode) -> String {
    match m {
        GameMode::Survival => "S",
        GameMode::Creative => "C",
        GameMode::Hardcore => "H",
        GameMode::Spectator => "P",
        GameMode::Adventure => "A",
    }
    .to_string()
}

pub fn show_bedrock(r: &BedrockResponse) -> String {
    format!(
        "B{{{}}}",
        [
            show_str(&r.edition),
            show_str(&r.name),
            show_str(&r.version_name),
            show_str(&r.protocol_version),
            r.players_maximum.to_string(),
            r.players_online.to_string(),
            show_opt(&r.id, |v| show_str(v)),
            show_opt(&r.map, |v| show_str(v)),
            show_opt(&r.game_mode, show_mode),
            show_server(&r.server_type),
        ]
        .join(";")
    )
}

fn settings(pv: &str, host: &str) -> Option<RequestSettings> {
    Some(RequestSettings {
        hostname: String::from_utf8(unhex(host)?).ok()?,
        protocol_version: pv.parse::<i32>().ok()?,
    })
}

fn entry_java(args: &[&str]) -> String {
    if args.len() < 5 {
        return "bad-case".into();
    }
    let (Some(port), Some(st), Some(r), Some(script)) = (
        args[0].parse::<u16>().ok(),
        settings(args[1], args[2]),
        args[3].parse::<usize>().ok(),
        parse_net_args(&args[4 ..]),
    ) else {
        return "bad-case".into();
    };
    run_q(script, || mc::protocol::query_java(&addr(port), timeout(r), Some(st)), show_java)
}

fn entry_auto(args: &[&str]) -> String {
    if args.len() < 5 {
        return "bad-case".into();
    }
    let (Some(port), Some(st), Some(r), Some(script)) = (
        args[0].parse::<u16>().ok(),
        settings(args[1], args[2]),
        args[3].parse::<usize>().ok(),
        parse_net_args(&args[4 ..]),
    ) else {
        return "bad-case".into();
    };
    run_q(script, || mc::protocol::query(&addr(port), timeout(r), Some(st)), show_java)
}

fn entry_bedrock(args: &[&str]) -> String {
    if args.len() < 3 {
        return "bad-case".into();
    }
    let (Some(port), Some(r), Some(script)) = (
        args[0].parse::<u16>().ok(),
        args[1].parse::<usize>().ok(),
        parse_net_args(&args[2 ..]),
    ) else {
        return "bad-case".into();
    };
    run_q(script, || mc::protocol::query_bedrock(&addr(port), timeout(r)), show_bedrock)
}

fn entry_legacy(args: &[&str]) -> String {
    if args.len() < 4 {
        return "bad-case".into();
    }
    let (Some(port), Some(r), Some(script)) = (
        args[0].parse::<u16>().ok(),
        args[2].parse::<usize>().ok(),
        parse_net_args(&args[3 ..]),
    ) else {
        return "bad-case".into();
    };
    let group = match args[1] {
        "16" => Some(LegacyGroup::V1_6),
        "14" => Some(LegacyGroup::V1_4),
        "b18" => Some(LegacyGroup::VB1_8),
        "any" => None,
        _ => return "bad-case".into(),
    };
    match group {
        Some(g) => run_q(script, || mc::protocol::query_legacy_specific(g, &addr(port), timeout(r)), show_java),
        None => run_q(script, || mc::protocol::query_legacy(&addr(port), timeout(r)), show_java),
    }
}

crate::impl_view_dump!(
    gamedig::games::minecraft::JavaResponse,
    "games/minecraft/types.rs",
    "JavaResponse",
    "games/minecraft/types.rs",
    "Player"
);
crate::impl_view_dump!(
    gamedig::games::minecraft::BedrockResponse,
    "games/minecraft/types.rs",
    "BedrockResponse",
    "",
    ""
);
