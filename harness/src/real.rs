//! C12: the real socket code (no script installed) against in-process loopback servers.
use crate::canon::*;
use crate::valve::{parse_engine, parse_gather, show_response};
use gamedig::protocols::types::TimeoutSettings;
use gamedig::protocols::valve;
use gamedig::verif_hook::{ConnScript, Delivery, VSocket, VTcpSocket, VUdpSocket};
use std::io::{Read, Write};
use std::net::{SocketAddr, TcpListener, UdpSocket};
use std::sync::atomic::{AtomicBool, Ordering};
use std::sync::{Arc, Mutex};
use std::time::{Duration, Instant};

pub fn entries() -> Vec<(&'static str, crate::EntryFn)> {
    vec![
        ("realudp", entry_realudp),
        ("realecho", entry_realecho),
        ("realrefused", entry_realrefused),
        ("realgs2", entry_realgs2),
        ("realjava", entry_realjava),
        ("realtcp", entry_realtcp),
        ("realhttp", entry_realhttp),
        ("realfam", entry_realfam),
    ]
}

fn loopback(family: &str) -> Option<&'static str> {
    match family {
        "v4" => Some("127.0.0.1:0"),
        "v6" => Some("[::1]:0"),
        // an IPv4 peer named by its IPv4-mapped IPv6 address (::ffff:127.0.0.1): the peer listens on IPv4
        "v4m" => Some("127.0.0.1:0"),
        _ => None,
    }
}

/// the address the query is given for a peer listening on `local`
fn target(family: &str, local: SocketAddr) -> SocketAddr {
    match (family, local) {
        ("v4m", SocketAddr::V4(a)) => SocketAddr::new(std::net::IpAddr::V6(a.ip().to_ipv6_mapped()), a.port()),
        _ => local,
    }
}

/// read timeout `ms`; the write and connect timeouts are deliberately much longer and different from each other, so that
/// a blocked receive bounded by anything but the READ timeout (or a connect bounded by the wrong one) shows on the clock
fn settings(ms: u64, retries: usize) -> Option<TimeoutSettings> {
    Some(
        TimeoutSettings::new(
            Some(Duration::from_millis(ms)),
            Some(Duration::from_millis(ms * 10 + 2000)),
            Some(Duration::from_millis(ms * 10 + 3000)),
            retries,
        )
        .unwrap(),
    )
}

/// `realudp <v4|v6> <timeout_ms> <engine> <gather> <retries> <script>`: a UDP server that answers the n-th
/// request with the n-th scripted delivery (`~` = stays silent for that request, exhausted = silent for ever)
fn entry_realudp(args: &[&str]) -> String {
    if args.len() < 6 {
        return "bad-case".into();
    }
    let (Some(bind), Ok(ms), Some(engine), Some(g), Ok(retries), Some(script)) = (
        loopback(args[0]),
        args[1].parse::<u64>(),
        parse_engine(args[2]),
        parse_gather(args[3]),
        args[4].parse::<usize>(),
        crate::net::parse_net_args(&args[5 ..]),
    ) else {
        return "bad-case".into();
    };
    let deliveries: Vec<Delivery> = match script.conns.into_iter().next() {
        Some(ConnScript::Open(d)) => d,
        _ => vec![],
    };
    let server = UdpSocket::bind(bind).expect("bind loopback");
    server.set_read_timeout(Some(Duration::from_millis(20))).unwrap();
    let addr: SocketAddr = target(args[0], server.local_addr().unwrap());
    let stop = Arc::new(AtomicBool::new(false));
    let seen: Arc<Mutex<Vec<Vec<u8>>>> = Arc::new(Mutex::new(Vec::new()));
    let (stop2, seen2) = (stop.clone(), seen.clone());
    let handle = std::thread::spawn(move || {
        let mut next = deliveries.into_iter();
        let mut buf = vec![0u8; 65536];
        while !stop2.load(Ordering::Relaxed) {
            if let Ok((n, from)) = server.recv_from(&mut buf) {
                seen2.lock().unwrap().push(buf[.. n].to_vec());
                if let Some(Delivery::Data(d)) = next.next() {
                    let _ = server.send_to(&d, from);
                }
            }
        }
    });
    let t0 = Instant::now();
    let r = valve::query(&addr, engine, Some(g), settings(ms, retries));
    let elapsed = t0.elapsed().as_millis();
    stop.store(true, Ordering::Relaxed);
    let _ = handle.join();
    let reqs = seen.lock().unwrap().clone();
    format!(
        "{} ;; {} ;; T{}",
        show_res(&r, show_response),
        reqs.iter().map(|d| hex(d)).collect::<Vec<_>>().join(","),
        elapsed
    )
}

/// `realecho <udp|tcp> <v4|v6> <size> <recvsize>`: what the peer sees is what was handed to `send`; what
/// `receive(Some(recvsize))` returns is what the peer sent, up to the requested size
fn entry_realecho(args: &[&str]) -> String {
    if args.len() != 4 {
        return "bad-case".into();
    }
    let (Some(bind), Ok(size), Ok(recvsize)) = (loopback(args[1]), args[2].parse::<usize>(), args[3].parse::<usize>()) else {
        return "bad-case".into();
    };
    let payload: Vec<u8> = (0 .. size).map(|i| (i * 31 + 7) as u8).collect();
    let st = settings(2000, 0);
    match args[0] {
        "udp" => {
            let server = UdpSocket::bind(bind).expect("bind");
            server.set_read_timeout(Some(Duration::from_millis(2000))).unwrap();
            let addr = target(args[1], server.local_addr().unwrap());
            let h = std::thread::spawn(move || {
                let mut buf = vec![0u8; 70000];
                match server.recv_from(&mut buf) {
                    Ok((n, from)) => {
                        let got = buf[.. n].to_vec();
                        let _ = server.send_to(&got, from);
                        Some(got)
                    }
                    Err(_) => None,
                }
            });
            let mut c = match VUdpSocket::new(&addr, &st) {
                Ok(c) => c,
                Err(e) => return format!("ERR {}", kind_name(&e.kind)),
            };
            if let Err(e) = c.send(&payload) {
                let _ = h.join();
                return format!("ERR {}", kind_name(&e.kind));
            }
            let back = c.receive(Some(recvsize));
            let seen = h.join().ok().flatten();
            let sent_ok = seen.as_deref() == Some(&payload[..]);
            match back {
                Ok(b) => format!("OK sent={},{} got={},{}", seen.map_or(0, |s| s.len()), show_bool(sent_ok), b.len(), show_bool(payload.starts_with(&b))),
                Err(e) => format!("ERR {}", kind_name(&e.kind)),
            }
        }
        "tcp" => {
            let listener = TcpListener::bind(bind).expect("bind");
            let addr = target(args[1], listener.local_addr().unwrap());
            let h = std::thread::spawn(move || {
                let (mut s, _) = listener.accept().ok()?;
                s.set_read_timeout(Some(Duration::from_millis(2000))).ok()?;
                let mut got = vec![0u8; size];
                s.read_exact(&mut got).ok()?;
                s.write_all(&got).ok()?;
                Some(got) // dropping the stream closes it: read_to_end on the client returns
            });
            let mut c = match VTcpSocket::new(&addr, &st) {
                Ok(c) => c,
                Err(e) => return format!("ERR {}", kind_name(&e.kind)),
            };
            if let Err(e) = c.send(&payload) {
                let _ = h.join();
                return format!("ERR {}", kind_name(&e.kind));
            }
            let back = c.receive(Some(recvsize));
            let seen = h.join().ok().flatten();
            let sent_ok = seen.as_deref() == Some(&payload[..]);
            match back {
                Ok(b) => format!("OK sent={},{} got={},{}", seen.map_or(0, |s| s.len()), show_bool(sent_ok), b.len(), show_bool(b == payload)),
                Err(e) => format!("ERR {}", kind_name(&e.kind)),
            }
        }
        _ => "bad-case".into(),
    }
}

/// `realrefused <v4|v6> <timeout_ms>`: TCP connect to a port nobody listens on
fn entry_realrefused(args: &[&str]) -> String {
    if args.len() != 2 {
        return "bad-case".into();
    }
    let (Some(bind), Ok(ms)) = (loopback(args[0]), args[1].parse::<u64>()) else { return "bad-case".into() };
    let addr = {
        let l = TcpListener::bind(bind).expect("bind");
        target(args[0], l.local_addr().unwrap())
    };
    let t0 = Instant::now();
    let r = VTcpSocket::new(&addr, &settings(ms, 0));
    let elapsed = t0.elapsed().as_millis();
    match r {
        Ok(_) => format!("OK ;; - ;; T{elapsed}"),
        Err(e) => format!("ERR {} ;; - ;; T{}", kind_name(&e.kind), elapsed),
    }
}

/// A loopback UDP server that answers the n-th request with the n-th scripted delivery (`~` = silent for that
/// request, exhausted = silent for ever); runs `client` against it and returns (what `client` printed, the requests
/// the server saw, elapsed milliseconds).
fn with_udp_server(family: &str, bind: &str, deliveries: Vec<Delivery>, client: impl FnOnce(&SocketAddr) -> String) -> (String, Vec<Vec<u8>>, u128) {
    let server = UdpSocket::bind(bind).expect("bind loopback");
    server.set_read_timeout(Some(Duration::from_millis(20))).unwrap();
    let addr: SocketAddr = target(family, server.local_addr().unwrap());
    let stop = Arc::new(AtomicBool::new(false));
    let seen: Arc<Mutex<Vec<Vec<u8>>>> = Arc::new(Mutex::new(Vec::new()));
    let (stop2, seen2) = (stop.clone(), seen.clone());
    let handle = std::thread::spawn(move || {
        let mut next = deliveries.into_iter();
        let mut buf = vec![0u8; 65536];
        while !stop2.load(Ordering::Relaxed) {
            if let Ok((n, from)) = server.recv_from(&mut buf) {
                seen2.lock().unwrap().push(buf[.. n].to_vec());
                if let Some(Delivery::Data(d)) = next.next() {
                    let _ = server.send_to(&d, from);
                }
            }
        }
    });
    let t0 = Instant::now();
    let out = client(&addr);
    let elapsed = t0.elapsed().as_millis();
    stop.store(true, Ordering::Relaxed);
    let _ = handle.join();
    let reqs = seen.lock().unwrap().clone();
    (out, reqs, elapsed)
}

/// `realgs2 <v4|v6> <timeout_ms> <retries> <script>`: the GameSpy 2 query on real sockets
fn entry_realgs2(args: &[&str]) -> String {
    if args.len() < 4 {
        return "bad-case".into();
    }
    let (Some(bind), Ok(ms), Ok(retries), Some(script)) = (
        loopback(args[0]),
        args[1].parse::<u64>(),
        args[2].parse::<usize>(),
        crate::net::parse_net_args(&args[3 ..]),
    ) else {
        return "bad-case".into();
    };
    let deliveries: Vec<Delivery> = match script.conns.into_iter().next() {
        Some(ConnScript::Open(d)) => d,
        _ => vec![],
    };
    let (out, reqs, elapsed) = with_udp_server(args[0], bind, deliveries, |addr| {
        show_res(&gamedig::protocols::gamespy::two::query(addr, settings(ms, retries)), crate::gs2::show_response)
    });
    format!("{} ;; {} ;; T{}", out, reqs.iter().map(|d| hex(d)).collect::<Vec<_>>().join(","), elapsed)
}

/// `realjava <v4|v6> <timeout_ms> <retries>`: the Minecraft Java query against a TCP peer that accepts the
/// connection, reads whatever is written and never answers (the connection stays open until the query is over)
fn entry_realjava(args: &[&str]) -> String {
    if args.len() != 3 {
        return "bad-case".into();
    }
    let (Some(bind), Ok(ms), Ok(retries)) = (loopback(args[0]), args[1].parse::<u64>(), args[2].parse::<usize>()) else {
        return "bad-case".into();
    };
    let listener = TcpListener::bind(bind).expect("bind loopback");
    let addr = target(args[0], listener.local_addr().unwrap());
    let stop = Arc::new(AtomicBool::new(false));
    let stop2 = stop.clone();
    let handle = std::thread::spawn(move || {
        if let Ok((mut s, _)) = listener.accept() {
            let _ = s.set_read_timeout(Some(Duration::from_millis(20)));
            let mut buf = vec![0u8; 4096];
            while !stop2.load(Ordering::Relaxed) {
                let _ = s.read(&mut buf);
            }
        }
    });
    let t0 = Instant::now();
    let r = gamedig::games::minecraft::protocol::query_java(&addr, settings(ms, retries), None);
    let elapsed = t0.elapsed().as_millis();
    stop.store(true, Ordering::Relaxed);
    // unblock `accept` if the client never connected
    let _ = std::net::TcpStream::connect_timeout(&addr, Duration::from_millis(50));
    let _ = handle.join();
    format!("{} ;; - ;; T{}", show_res(&r, crate::minecraft::show_java), elapsed)
}

/// `realtcp <v4|v6> <timeout_ms> <c|h> <hex|.>`: a TCP peer that reads the 4-byte request, writes the given bytes
/// and then closes (`c`) or keeps the connection open without another byte (`h`, for ten timeouts + 3 s):
/// `receive` returns everything written before the close, or fails within the read timeout
fn entry_realtcp(args: &[&str]) -> String {
    if args.len() != 4 {
        return "bad-case".into();
    }
    let (Some(bind), Ok(ms), Some(reply)) = (loopback(args[0]), args[1].parse::<u64>(), unhex_dot(args[3])) else {
        return "bad-case".into();
    };
    let hold = match args[2] {
        "c" => false,
        "h" => true,
        _ => return "bad-case".into(),
    };
    let listener = TcpListener::bind(bind).expect("bind");
    let addr = target(args[0], listener.local_addr().unwrap());
    let done = Arc::new(AtomicBool::new(false));
    let done2 = done.clone();
    let h = std::thread::spawn(move || {
        let (mut s, _) = listener.accept().ok()?;
        s.set_read_timeout(Some(Duration::from_millis(2000))).ok()?;
        let mut got = [0u8; 4];
        s.read_exact(&mut got).ok()?;
        s.write_all(&reply).ok()?;
        s.flush().ok()?;
        if hold {
            let t0 = Instant::now();
            while !done2.load(Ordering::Relaxed) && t0.elapsed() < Duration::from_millis(ms * 10 + 3000) {
                std::thread::sleep(Duration::from_millis(5));
            }
        }
        Some(())
    });
    let st = settings(ms, 0);
    let mut c = match VTcpSocket::new(&addr, &st) {
        Ok(c) => c,
        Err(e) => return format!("ERR {}", kind_name(&e.kind)),
    };
    if let Err(e) = c.send(&[1, 2, 3, 4]) {
        done.store(true, Ordering::Relaxed);
        let _ = h.join();
        return format!("ERR {}", kind_name(&e.kind));
    }
    let t0 = Instant::now();
    let back = c.receive(None);
    let elapsed = t0.elapsed().as_millis();
    done.store(true, Ordering::Relaxed);
    let _ = h.join();
    match back {
        Ok(b) => format!("OK x{} ;; - ;; T{}", hex(&b), elapsed),
        Err(e) => format!("ERR {} ;; - ;; T{}", kind_name(&e.kind), elapsed),
    }
}

fn unhex_dot(s: &str) -> Option<Vec<u8>> {
    if s == "." {
        return Some(vec![]);
    }
    if s.len() % 2 != 0 {
        return None;
    }
    (0 .. s.len() / 2).map(|i| u8::from_str_radix(&s[2 * i .. 2 * i + 2], 16).ok()).collect()
}

/// `realhttp <v4|v6> <read_ms> <other_ms> <mute|head|body|ok>`: the Eco query (the library's HTTP client) against a
/// peer that accepts the connection and then writes nothing (`mute`), stalls inside the response head (`head`),
/// stalls inside the body (`body`), or answers completely (`ok`), the connection kept open for ten read timeouts +
/// 3 s.  Read timeout `read_ms`; write and connect timeouts `other_ms`.  The blocked read must end within the READ timeout.
fn entry_realhttp(args: &[&str]) -> String {
    if args.len() != 4 {
        return "bad-case".into();
    }
    let (Some(bind), Ok(read_ms), Ok(other_ms)) = (loopback(args[0]), args[1].parse::<u64>(), args[2].parse::<u64>()) else {
        return "bad-case".into();
    };
    let mode = args[3].to_string();
    if !["mute", "head", "body", "ok", "refused"].contains(&mode.as_str()) {
        return "bad-case".into();
    }
    let listener = TcpListener::bind(bind).expect("bind");
    let addr = target(args[0], listener.local_addr().unwrap());
    let done = Arc::new(AtomicBool::new(false));
    let done2 = done.clone();
    let refused = mode == "refused";
    let h = std::thread::spawn(move || {
        if refused {
            drop(listener); // nothing listens on the port any more
            return Some(());
        }
        let (mut s, _) = listener.accept().ok()?;
        s.set_read_timeout(Some(Duration::from_millis(20))).ok()?;
        // read the request head
        let mut seen = Vec::new();
        let mut buf = [0u8; 2048];
        let t0 = Instant::now();
        while !seen.windows(4).any(|w| w == b"\r\n\r\n") && t0.elapsed() < Duration::from_millis(2000) {
            if let Ok(n) = s.read(&mut buf) {
                if n == 0 {
                    break;
                }
                seen.extend_from_slice(&buf[.. n]);
            }
        }
        let body = br#"{"Info":{}}"#;
        let part: Vec<u8> = match mode.as_str() {
            "mute" => vec![],
            "head" => b"HTTP/1.1 200 OK\r\nContent-Type: application/json\r\n".to_vec(),
            "body" => format!("HTTP/1.1 200 OK\r\nContent-Type: application/json\r\nContent-Length: {}\r\n\r\n{{\"In", body.len()).into_bytes(),
            _ => [format!("HTTP/1.1 200 OK\r\nContent-Type: application/json\r\nContent-Length: {}\r\nConnection: close\r\n\r\n", body.len()).into_bytes(), body.to_vec()].concat(),
        };
        let _ = s.write_all(&part);
        let _ = s.flush();
        if mode != "ok" {
            let t0 = Instant::now();
            while !done2.load(Ordering::Relaxed) && t0.elapsed() < Duration::from_millis(read_ms * 10 + 3000) {
                std::thread::sleep(Duration::from_millis(5));
            }
        }
        Some(())
    });
    let st = Some(
        TimeoutSettings::new(
            Some(Duration::from_millis(read_ms)),
            Some(Duration::from_millis(other_ms)),
            Some(Duration::from_millis(other_ms)),
            0,
        )
        .unwrap(),
    );
    if refused {
        let _ = h.join();
        return {
            let t0 = Instant::now();
            let r = gamedig::games::eco::query_with_timeout(&addr.ip(), Some(addr.port()), &st);
            let elapsed = t0.elapsed().as_millis();
            format!("HTTP ;; - ;; T{elapsed} ;; {}", match r { Ok(_) => "OK".to_string(), Err(e) => format!("ERR {}", kind_name(&e.kind)) })
        };
    }
    let t0 = Instant::now();
    let r = gamedig::games::eco::query_with_timeout(&addr.ip(), Some(addr.port()), &st);
    let elapsed = t0.elapsed().as_millis();
    done.store(true, Ordering::Relaxed);
    let _ = h.join();
    let what = match r {
        Ok(_) => "OK".to_string(),
        Err(e) => format!("ERR {}", kind_name(&e.kind)),
    };
    format!("HTTP ;; - ;; T{elapsed} ;; {what}")
}

/// `realfam <v4|v6> <timeout_ms> <bursts a.b.c|-> <deliveries|.> <entry> <args…>`: ANY scripted UDP entry on real sockets.
/// A loopback UDP server answers the n-th datagram it receives with the next `bursts[n]` deliveries of the list (`~` =
/// nothing is sent for that delivery); the entry runs with no script installed, its address redirected to the server,
/// read timeout `timeout_ms` (write / connect much longer).  Prints `<result> ;; <requests the server saw> ;; T<ms>`.
fn entry_realfam(args: &[&str]) -> String {
    if args.len() < 6 {
        return "bad-case".into();
    }
    let (Some(bind), Ok(ms)) = (loopback(args[0]), args[1].parse::<u64>()) else { return "bad-case".into() };
    let bursts: Vec<usize> = if args[2] == "-" { vec![] } else { args[2].split('.').filter_map(|x| x.parse().ok()).collect() };
    let Some(script) = crate::net::parse_net_args(&[args[3]]) else { return "bad-case".into() };
    let deliveries: Vec<Delivery> = match script.conns.into_iter().next() {
        Some(ConnScript::Open(d)) => d,
        _ => vec![],
    };
    let Some(inner) = crate::find_entry(args[4]) else { return "unknown-entry".into() };
    let server = UdpSocket::bind(bind).expect("bind loopback");
    server.set_read_timeout(Some(Duration::from_millis(10))).unwrap();
    let addr: SocketAddr = target(args[0], server.local_addr().unwrap());
    let stop = Arc::new(AtomicBool::new(false));
    let seen: Arc<Mutex<Vec<Vec<u8>>>> = Arc::new(Mutex::new(Vec::new()));
    let (stop2, seen2) = (stop.clone(), seen.clone());
    let handle = std::thread::spawn(move || {
        let mut next = deliveries.into_iter();
        let mut burst = bursts.into_iter();
        let mut buf = vec![0u8; 65536];
        while !stop2.load(Ordering::Relaxed) {
            if let Ok((n, from)) = server.recv_from(&mut buf) {
                seen2.lock().unwrap().push(buf[.. n].to_vec());
                for _ in 0 .. burst.next().unwrap_or(0) {
                    if let Some(Delivery::Data(d)) = next.next() {
                        let _ = server.send_to(&d, from);
                    }
                }
            }
        }
    });
    crate::net::set_real(Some((addr, ms)));
    let t0 = Instant::now();
    let out = std::panic::catch_unwind(std::panic::AssertUnwindSafe(|| inner(&args[5 ..])));
    let elapsed = t0.elapsed().as_millis();
    crate::net::set_real(None);
    stop.store(true, Ordering::Relaxed);
    let _ = handle.join();
    let out = match out {
        Ok(o) => o,
        Err(e) => std::panic::resume_unwind(e),
    };
    let reqs = seen.lock().unwrap().clone();
    format!(
        "{} ;; {} ;; T{}",
        out.split(" ;; ").next().unwrap_or(""),
        reqs.iter().map(|d| hex(d)).collect::<Vec<_>>().join(","),
        elapsed
    )
}
