//! C14 / C01: the definition-driven dispatch (`games::query::query_with_timeout_and_extra_settings`) and the
//! per-game modules, with the response printed per family — the same text as the model's `Dispatch.Response`
//! printer (`lean/GdVerif/Run/Dispatch.lean`).
//!
//!   dispatch        <id> <port|-> <retries|-> <extra|-> <script> [opts]
//!   dispatch-module <module row id> <port|-> <script> [opts]
//!
//! `<retries>` `-` = no timeout settings; `<extra>` `-` = no extra settings, otherwise
//! `E<host name hex|->:<protocol version|->:<players s|t|e|->:<rules s|t|e|->:<check app id T|F|->`.
use crate::canon::*;
use crate::net::*;
use gamedig::games::minecraft;
use gamedig::protocols::types::{CommonResponse, ExtraRequestSettings, GatherToggle, ProprietaryProtocol};
use gamedig::protocols::{gamespy, quake, GenericResponse, Protocol};

pub fn entries() -> Vec<(&'static str, crate::EntryFn)> {
    // `arms-dispatch` / `arms-conv`: the same real code; the model side answers them with the TRANSLATED glue (Run/Arms.lean)
    vec![
        ("dispatch", entry_dispatch),
        ("dispatch-module", entry_dispatch_module),
        ("extra-conv", entry_extra_conv),
        ("arms-dispatch", entry_dispatch),
        ("arms-conv", entry_extra_conv),
    ]
}

/// the printed form of whatever a path returned
pub struct DispResp(pub String);
impl crate::views::ViewDump for DispResp {}

pub fn show_generic(g: &GenericResponse) -> String {
    match g {
        GenericResponse::Valve(r) => format!("valve:{}", crate::valve::show_response(r)),
        GenericResponse::GameSpy(gamespy::VersionedResponse::One(r)) => format!("gs1:{}", crate::gs1::show_response(r)),
        GenericResponse::GameSpy(gamespy::VersionedResponse::Two(r)) => format!("gs2:{}", crate::gs2::show_response(r)),
        GenericResponse::GameSpy(gamespy::VersionedResponse::Three(r)) => format!("gs3:{}", crate::gs3::show_response(r)),
        GenericResponse::Quake(quake::VersionedResponse::One(r)) => {
            format!("quake:{}", crate::quake::show_response(r, crate::quake::show_player_one))
        }
        GenericResponse::Quake(quake::VersionedResponse::TwoAndThree(r)) => {
            format!("quake:{}", crate::quake::show_response(r, crate::quake::show_player_two))
        }
        GenericResponse::Unreal2(r) => format!("unreal2:{}", crate::unreal2::show_response(r)),
        GenericResponse::Mindustry(r) => format!("mindustry:{}", crate::small::show_mindustry(r)),
        GenericResponse::Minecraft(minecraft::VersionedResponse::Java(r)) => format!("mcjava:{}", crate::minecraft::show_java(r)),
        GenericResponse::Minecraft(minecraft::VersionedResponse::Bedrock(r)) => {
            format!("mcbedrock:{}", crate::minecraft::show_bedrock(r))
        }
        GenericResponse::TheShip(r) => format!("theship:{}", crate::small::show_theship(r)),
        GenericResponse::FFOW(r) => format!("ffow:{}", crate::small::show_ffow(r)),
        GenericResponse::JC2M(r) => format!("jc2m:{}", crate::gs3::show_jc2m(r)),
        GenericResponse::Savage2(r) => format!("savage2:{}", crate::small::show_savage2(r)),
        GenericResponse::Eco(r) => format!("eco:{}", crate::small::show_eco(r)),
    }
}

pub fn canon(r: &dyn CommonResponse) -> DispResp { DispResp(show_generic(&r.as_original())) }

/// what a Valve game module returns
pub fn canon_game(r: &gamedig::protocols::valve::game::Response) -> DispResp {
    DispResp(format!("game:{}", crate::games::show_game_response(r)))
}

fn port_arg(s: &str) -> Option<Option<u16>> {
    if s == "-" {
        Some(None)
    } else {
        s.parse().ok().map(Some)
    }
}

fn opt_field<T>(s: &str, f: impl Fn(&str) -> Option<T>) -> Option<Option<T>> {
    if s == "-" {
        Some(None)
    } else {
        f(s).map(Some)
    }
}

fn toggle(s: &str) -> Option<GatherToggle> {
    match s {
        "s" => Some(GatherToggle::Skip),
        "t" => Some(GatherToggle::Try),
        "e" => Some(GatherToggle::Enforce),
        _ => None,
    }
}

fn parse_extra(s: &str) -> Option<Option<ExtraRequestSettings>> {
    if s == "-" {
        return Some(None);
    }
    let f: Vec<&str> = s.strip_prefix('E')?.split(':').collect();
    if f.len() != 5 {
        return None;
    }
    Some(Some(ExtraRequestSettings {
        hostname: opt_field(f[0], |h| unhex(h).and_then(|b| String::from_utf8(b).ok()))?,
        protocol_version: opt_field(f[1], |v| v.parse::<i32>().ok())?,
        gather_players: opt_field(f[2], toggle)?,
        gather_rules: opt_field(f[3], toggle)?,
        check_app_id: opt_field(f[4], |b| {
            match b {
                "T" => Some(true),
                "F" => Some(false),
                _ => None,
            }
        })?,
    }))
}

fn entry_dispatch(args: &[&str]) -> String {
    if args.len() < 5 {
        return "bad-case".into();
    }
    let Some(game) = gamedig::GAMES.get(args[0]) else { return "no-such-game".into() };
    // Eco goes through the HTTP client, which the scripted transport does not carry
    if matches!(game.protocol, Protocol::PROPRIETARY(ProprietaryProtocol::Eco)) {
        return "not-scripted".into();
    }
    let (Some(port), Some(retries), Some(extra), Some(script)) = (
        port_arg(args[1]),
        opt_field(args[2], |r| r.parse::<usize>().ok()),
        parse_extra(args[3]),
        parse_net_args(&args[4 ..]),
    ) else {
        return "bad-case".into();
    };
    run_q(
        script,
        || {
            gamedig::query_with_timeout_and_extra_settings(game, &crate::net::ip(), port, retries.and_then(timeout), extra)
                .map(|b| canon(b.as_ref()))
        },
        |r| r.0.clone(),
    )
}

fn entry_dispatch_module(args: &[&str]) -> String {
    if args.len() < 3 {
        return "bad-case".into();
    }
    if args[0] == "eco" {
        return "not-scripted".into();
    }
    let (Some(port), Some(script)) = (port_arg(args[1]), parse_net_args(&args[2 ..])) else {
        return "bad-case".into();
    };
    let id = args[0].to_string();
    let mut exists = true;
    let out = run_q(
        script,
        || {
            if let Some(r) = crate::gen_games::valve_module(&id, &crate::net::ip(), port) {
                return r.map(|g| canon_game(&g));
            }
            match crate::gen_games::disp_module(&id, &crate::net::ip(), port) {
                Some(r) => r,
                None => {
                    exists = false;
                    Err(gamedig::GDErrorKind::InvalidInput.context("no module"))
                }
            }
        },
        |r| r.0.clone(),
    );
    if exists {
        out
    } else {
        "no-such-module".into()
    }
}

fn show_toggle(t: &GatherToggle) -> &'static str {
    match t {
        GatherToggle::Skip => "s",
        GatherToggle::Try => "t",
        GatherToggle::Enforce => "e",
    }
}

fn show_extra(e: &ExtraRequestSettings) -> String {
    format!(
        "{}:{}:{}:{}:{}",
        e.hostname.as_ref().map_or("-".to_string(), |h| crate::canon::show_str(h)),
        e.protocol_version.map_or("-".to_string(), |v| v.to_string()),
        e.gather_players.as_ref().map_or("-", show_toggle),
        e.gather_rules.as_ref().map_or("-", show_toggle),
        e.check_app_id.map_or("-", |b| if b { "T" } else { "F" }),
    )
}

/// `extra-conv <E…|->`: the extra request settings built with the public setters (every field given is set with its
/// `set_*` method on `ExtraRequestSettings::default()`), what each protocol's settings make of them (`From`), and what
/// `into_extra()` of those settings gives back
fn entry_extra_conv(args: &[&str]) -> String {
    use gamedig::protocols::{unreal2, valve};
    if args.len() != 1 {
        return "bad-case".into();
    }
    let Some(given) = parse_extra(args[0]) else { return "bad-case".into() };
    let given = given.unwrap_or_default();
    let mut e = ExtraRequestSettings::default();
    if let Some(h) = given.hostname.clone() {
        e = e.set_hostname(h);
    }
    if let Some(v) = given.protocol_version {
        e = e.set_protocol_version(v);
    }
    if let Some(t) = given.gather_players.clone() {
        e = e.set_gather_players(t);
    }
    if let Some(t) = given.gather_rules.clone() {
        e = e.set_gather_rules(t);
    }
    if let Some(b) = given.check_app_id {
        e = e.set_check_app_id(b);
    }
    let v: valve::GatheringSettings = e.clone().into();
    let u: unreal2::GatheringSettings = e.clone().into();
    let m: gamedig::games::minecraft::RequestSettings = e.clone().into();
    format!(
        "X {} | valve {}{}{} u2 {}{} mc {}/{} | vx {} ux {}",
        show_extra(&e),
        show_toggle(&v.players),
        show_toggle(&v.rules),
        if v.check_app_id { "T" } else { "F" },
        show_toggle(&u.mutators_and_rules),
        show_toggle(&u.players),
        crate::canon::show_str(&m.hostname),
        m.protocol_version,
        show_extra(&v.into_extra()),
        show_extra(&u.into_extra()),
    )
}
