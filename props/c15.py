"""C15 — the protocol-independent view equals the protocol-specific data."""
import json, random
import vlib, netcases
from props import netprops

LEVEL = "proof"
RULE = ("responses obtained from decoded replies of every modelled family (SPEC-generated valid exchanges and mutated ones that "
        "still decode): the harness dumps the protocol-specific value (serde), every accessor, as_json() and as_original(); the "
        "GENERATED accessor tables (tools/xlate.py from the impl blocks) are evaluated by the Lean driver on the dumped value and "
        "must reproduce as_json() (correspondence of the translation); oracle on the implementation alone: accessor values = "
        "as_json members = the named fields of the value, as_original() contains the response unchanged. Distinct = distinct dumps.")
ASSUMPTIONS = ["serde's rendering of CommonResponseJson / of the response types is trusted (serde derive)",
               "response types reachable only with the tls feature (Epic, Minetest) are covered by the table theorems, not by the differential"]
TRUSTED = ["translator tools/xlate.py (impl blocks -> Gen/Views.lean), validated by this differential",
           "intended view Spec/Views.lean written from RESPONSES.md"]


def tok(v):
    if v is None:
        return ["N"]
    if v is True:
        return ["T"]
    if v is False:
        return ["F"]
    if isinstance(v, int):
        return [f"I{v}"]
    if isinstance(v, float):
        return ["S" + repr(v).encode().hex()]  # opaque: never read by an accessor
    if isinstance(v, str):
        return ["S" + v.encode().hex()]
    if isinstance(v, list):
        out = [f"A{len(v)}"]
        for x in v:
            out += tok(x)
        return out
    if isinstance(v, dict):
        out = [f"O{len(v)}"]
        for k, x in v.items():
            out += [k.encode().hex() or "-"] + tok(x)
        return out
    raise TypeError(type(v))


ORDER = ["name", "description", "game_mode", "game_version", "map", "players_maximum", "players_online", "players_bots",
         "has_password", "players"]


def canon_json(j):
    """as_json() value in the model's member order"""
    return " ".join(tok({k: j.get(k) for k in ORDER}))


def run(rep, tier, seed, replay=None):
    rnd = random.Random(seed)
    lines = list(netprops.corpus("C15"))
    if replay is not None:
        lines = replay
    else:
        for fam in netprops.FAMILIES:
            vs = [v for v in netprops.valid_cases(fam, seed + 15, 120 if tier == "quick" else 3000) if not v.notwf]
            for k, v in enumerate(vs):
                lines.append(v.line)
                if k % 3 == 0:
                    c, _ = netcases.mutate(v.case(), rnd)
                    lines.append(c.line(f"{v.id}m"))
    impl, panics = vlib.run_impl(lines, tag="c15")
    view_cases, dumps = [], {}
    for l in lines:
        cid = l.split(" ", 1)[0]
        out = impl.get(cid, "")
        d = vlib.view_of(out)
        if d is None:
            continue
        dumps[cid] = d
        view_cases.append(" ".join([cid + "v", "view", d["file"], d["type"], d["pfile"] or "-", d["ptype"] or "-"] + tok(d["self"])))
    model = vlib.run_model(view_cases)
    # the property oracle: the INTENDED view (Spec/Views.lean) evaluated on the dumped protocol-specific value is what
    # as_json() must contain, whatever the accessors in the source currently say
    intended = vlib.run_model([vc.replace(" view ", " view-intended ", 1).replace("v view-intended", "i view-intended", 1) for vc in view_cases])
    seen_types = set()
    for vc in view_cases:
        cid = vc.split(" ", 1)[0]
        d = dumps[cid[:-1]]
        seen_types.add(d["file"] + ":" + d["type"])
        m = model.get(cid, "<no output>")
        want = canon_json(d["json"])
        rep.seen(vc[:300], json.dumps(d["json"])[:300])
        rep.count("type:" + d["type"] + "@" + d["file"])
        if m != want:
            rep.divergences.append((vc, m, want, "generated accessor tables evaluated on the dumped value differ from as_json()"))
        iv = intended.get(cid[:-1] + "i", "<no output>")
        if iv not in ("no-such-view", "<no output>") and iv != want:
            rep.oracle_failures.append(("view-differs-from-fields:" + d["type"] + "@" + d["file"],
                                        f"as_json() is {want[:300]} but the protocol-specific fields give {iv[:300]}", vc, json.dumps(d["json"])[:200]))
        # the property on the implementation alone
        acc, j = d["acc"], d["json"]
        for k in ORDER[:-1]:
            if acc.get(k) != j.get(k):
                rep.oracle_failures.append(("json-differs-from-accessor:" + d["type"], f"{k}: accessor {acc.get(k)!r} but as_json {j.get(k)!r}", vc, json.dumps(j)[:200]))
        ps_acc, ps_json = acc.get("players"), j.get("players")
        if (ps_acc is None) != (ps_json is None) or (ps_acc is not None and [(p["name"], p["score"]) for p in ps_acc] != [(p["name"], p["score"]) for p in ps_json]):
            rep.oracle_failures.append(("json-differs-from-accessor:" + d["type"], "players differ between accessor and as_json", vc, json.dumps(j)[:200]))
        if ps_acc is not None and any(p["json"] != {"name": p["name"], "score": p["score"]} for p in ps_acc):
            rep.oracle_failures.append(("player-json:" + d["type"], "a player's as_json differs from its accessors", vc, json.dumps(ps_acc)[:200]))
        if not d["orig_ok"]:
            rep.oracle_failures.append(("as-original:" + d["type"], "as_original() does not contain the response unchanged", vc, ""))
    rep.extra_cov["types_exercised"] = sorted(seen_types)
    rep.extra_cov["programs"] = len(seen_types)
    rep.extra_cov["disagreements_checked"] = len(view_cases)
