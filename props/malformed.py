"""The datagram the fault builders deliver for the letter M (a reply no parser accepts).  props/c10.py rebuilds the
vectors that contain an M with each of VARIANTS in turn: which malformed reply it is must not matter — none is retried."""
DEFAULT = b"\xff\xff"
# an empty datagram, one byte, a bare protocol-looking header with nothing behind it
VARIANTS = [b"", b"\x00", b"\xff\xff\xff\xff", b"\xfe"]
CURRENT = DEFAULT
