"""C17 — packet reader and wire codecs."""
import itertools, random
import vlib

LEVEL = "proof"
RULE = ("corpus first; small-scope exhaustive (all packets up to N bytes over the boundary alphabet "
        "{00,01,41,7f,80,ff} x all operation sequences up to depth D; quick N=3,D=2 sampled + random longer; "
        "thorough N=4,D=2 exhaustive, N<=6,D<=4 sampled) plus VarInt/string codec cases (all continuation "
        "classes of 1-6 byte encodings, stratified 32-bit values) plus the Unreal 2 string decoder as a reader "
        "operation (su2: every length byte 0-255 x plain / decorated / stray-0x01 / cut by one byte / ending the "
        "packet, colour escapes of control characters and escapes cut by the end of the text, random strings). "
        "A case is non-trivial if at least one operation succeeds; distinct = distinct implementation output lines.")
ASSUMPTIONS = ["model is hand-written; tied to the code by running both on the same operation sequences",
               "from_utf8 / from_utf16 of std are mirrored by Gd.validUtf8 / Gd.utf16Decode (compared on every string read)",
               "encoding_rs (windows-1252, UTF-16LE without BOM handling) is mirrored by Gd.cp1252Decode / Gd.utf16Decode (compared on every su2 read, and against Python's codecs by the reference)"]
TRUSTED = ["harness + orchestrator (Rust/Python) compare canonical text", "hand-written Lean model of buffer.rs / minecraft types.rs codecs / Unreal2StringDecoder, checked against the code on every run"]

ALPHA = ["00", "01", "41", "7f", "80", "ff"]
OPS_L = ["u1", "u2", "u4", "u8", "i1", "i2", "i4", "i8", "mv-2", "mv-1", "mv0", "mv1", "mv3", "s8", "s8:41", "sl", "sl:41",
         "s16l", "s16b", "s16l:4100", "sw0", "sw1", "sw2", "su2", "vi", "vs"]
OPS_B = [o for o in OPS_L if o not in ("vi", "vs")]


def ref_varint(v):
    v &= 0xFFFFFFFF
    out = []
    while True:
        b = v & 0x7F
        v >>= 7
        if v:
            out.append(b | 0x80)
        else:
            out.append(b)
            return bytes(out)


# ---- Unreal 2 strings (reader operation `su2`)

ESC = 0x1b


def u2_wire(chars, ucs2, stray=False, length=None):
    """wire form of a string given as code points (below 0x100 for Latin-1, BMP for UCS-2): length byte
    (override with `length`), optional stray 0x01, the bytes"""
    if ucs2:
        body = b"".join(c.to_bytes(2, "little") for c in chars)
        lb = 0x80 | (len(chars) if length is None else length)
        return bytes([lb]) + (b"\x01" if stray else b"") + body
    body = bytes(chars)
    return bytes([len(body) if length is None else length]) + body


# texts whose cleaning is the interesting part (code points; all below 0x100 so that both encodings carry them)
U2_TEXTS = [
    [],
    # single-byte characters whose bytes, put side by side, happen to be well-formed UTF-8 (Latin-1 is not UTF-8: every byte
    # is one character of its own)
    [0x43, 0x61, 0x66, 0xc3, 0xa9], [0xc2, 0xb0], [0xe2, 0x82, 0xac, 0x35], [0xf0, 0x9f, 0x98, 0x80], [0xc3, 0xa9, 0xc3, 0xa9, 0x41],
    [0xd0, 0x9f, 0xd1, 0x80], [0xc3, 0xbf, 0x20, 0xc2, 0xa0],
    [0x41, ESC, 0x01, 0x1a, ESC, 0x42],              # escape made of control characters and an ESC
    [0x41, ESC, 0x00, 0x00, 0x00, 0x42],              # escape made of NULs
    [ESC, ESC, ESC, ESC, 0x58],                       # an escape swallows escapes
    [ESC, 0x01, 0x02, 0x03, ESC, 0x04, 0x05, 0x06, 0x59],
    [0x41, 0x42, ESC],                                # escapes cut by the end of the text: 0, 1, 2 components
    [0x41, 0x42, ESC, 0x01],
    [0x41, 0x42, ESC, 0x01, 0x02],
    [0x41, 0x42, ESC, 0x43, 0x44, 0x45],              # a complete one at the very end
    [ESC],
    [ESC, 0x1a],
    [0x00, 0x01, 0x41, 0x01, 0x00],                   # control characters uncover NULs at both ends
    [0x00, ESC, 0x41, 0x42, 0x43, 0x00, 0x5a, 0x00],  # an escape uncovers a leading NUL; an inner NUL stays
    [0x00, 0x00, 0x00],
    [0x41, 0x00, 0x42, 0x00],
    list(range(0x01, 0x20)) + [0x41],                 # every control character (01-1a go, 1c-1f stay, 1b eats three)
    [0x1c, 0x1d, 0x1e, 0x1f, 0x20, 0x7f],
    list(range(0x80, 0xa0)),                          # the windows-1252 block
    [0xe9, ESC, 0xe9, 0x80, 0xff, 0xe9, 0xa0, 0xff],
    [0x01] * 5,
    [0x01, 0x41],                                     # text that starts with 0x01: for UCS-2 the code unit is 01 00
]


def gen_su2(tier, rnd, add):
    en = ["L", "B"]
    k = 0
    # every length byte, with the announced bytes present / decorated / one byte short / ending the packet
    for lb in range(256):
        ucs2 = lb >= 0x80
        nch = lb & 0x7f
        for variant in ("plain", "decorated", "stray", "short", "end", "endstray"):
            if variant in ("stray", "endstray") and not ucs2:
                continue
            if variant == "decorated":
                chars = [rnd.choice([0x41, 0x42, ESC, 0x01, 0x1a, 0x00, 0xe9, 0x85, 0x1c]) for _ in range(nch)]
            else:
                chars = [0x41 + (i % 26) for i in range(nch)]
            w = u2_wire(chars, ucs2, stray=variant in ("stray", "endstray"))
            if variant == "short":
                if len(w) == 1:
                    continue
                w = w[:-1]
                pkt, ops = b"\x09" + w, "u1 su2 u1"
            elif variant in ("end", "endstray"):
                pkt, ops = b"\x09" + w, "u1 su2 su2 mv-1 u1"
            else:
                pkt, ops = b"\x09" + w + b"\x02\x43\x00\x07", "u1 su2 su2 u1 su2"
            k += 1
            add(f"reader {en[k % 2]} {pkt.hex()} {ops}")
    # cleaning: each text in both encodings, with and without the stray byte, followed by another string
    for chars in U2_TEXTS:
        for ucs2, stray in ((False, False), (True, False), (True, True)):
            w = u2_wire(chars, ucs2, stray)
            k += 1
            add(f"reader {en[k % 2]} {(w + bytes([1, 0x5a, 0x07])).hex()} su2 su2 u1 su2")
            k += 1
            add(f"reader {en[k % 2]} {(bytes([0x30, 0x31]) + w).hex()} mv2 su2 su2")
    # UCS-2 only: characters outside the BMP are ONE character of an escape; ill-formed UTF-16 is refused
    for units in ([0x41, ESC, 0xd83d, 0xde00, 0x42, 0x43, 0x44], [ESC, 0xd83d, 0xde00, 0xd83d, 0xde00, 0xd83d, 0xde00, 0x45],
                  [0xd83d, 0xde00], [0xd83d], [0xde00, 0x41], [0x41, 0xd83d], [0xfeff, 0x41], [0xfffe, 0x41], [0x0100, 0x011a, 0x011b],
                  [0x20ac, ESC, 0x20ac, 0x20ac, 0x20ac, 0x20ac], [0x41, ESC, 0xd83d]):
        for stray in (False, True):
            w = u2_wire(units, True, stray)
            k += 1
            add(f"reader {en[k % 2]} {(w + bytes([0x07])).hex()} su2 u1 su2")
    # the stray byte is not counted by the length byte: ambiguous and boundary placements
    for hexs in ("80", "8001", "800101", "8101", "810100", "81010100", "8101014100", "80018001", "ff", "7f", "00", "0000", "0100", "01",
                 "8201410042", "82014100", "820141004200"):
        k += 1
        add(f"reader {en[k % 2]} {hexs} su2 su2 su2")
    # random strings, random cuts, random positions
    alpha = [0x00, 0x01, 0x1a, ESC, 0x1c, 0x41, 0x42, 0x7f, 0x80, 0x9d, 0xe9, 0xff]
    for _ in range(400 if tier == "quick" else 20000):
        parts = []
        for _ in range(rnd.choice([1, 1, 2, 3])):
            ucs2 = rnd.random() < 0.5
            n = rnd.choice([0, 1, 2, 3, 4, 5, 8, 16, 40, 127])
            if ucs2 and rnd.random() < 0.3:
                chars = [rnd.choice(alpha + [0x0100, 0xd83d, 0xde00, 0x20ac, 0xfeff]) for _ in range(n)]
            else:
                chars = [rnd.choice(alpha) for _ in range(n)]
            length = None
            if rnd.random() < 0.15:
                length = max(0, min(127, n + rnd.choice([-2, -1, 1, 2, 50])))
            parts.append(u2_wire(chars, ucs2, stray=ucs2 and rnd.random() < 0.4, length=length))
        pkt = b"".join(parts)
        if rnd.random() < 0.3 and pkt:
            pkt = pkt[:rnd.randrange(len(pkt) + 1)]
        if rnd.random() < 0.2:
            pkt += bytes(rnd.randrange(256) for _ in range(rnd.choice([1, 2, 5])))
        ops = ["su2"] * rnd.choice([1, 2, 3, 4])
        if rnd.random() < 0.3:
            ops.insert(rnd.randrange(len(ops) + 1), rnd.choice(["u1", "mv1", "mv-1", "s8", "u2"]))
        add(f"reader {rnd.choice(en)} {pkt.hex() or '-'} " + " ".join(ops))


def gen_cases(tier, seed):
    rnd = random.Random(seed)
    cases = []
    n = [0]

    def add(s):
        n[0] += 1
        cases.append(f"r{n[0]} {s}")

    # corpus
    import os
    cp = os.path.join(vlib.VERIF, "corpus", "C17.txt")
    if os.path.exists(cp):
        for l in open(cp):
            l = l.strip()
            if l and not l.startswith("#"):
                add(l)
    exhaustive = False
    if tier == "thorough":
        maxlen, depth = 4, 2
        for L in range(maxlen + 1):
            for pk in itertools.product(ALPHA, repeat=L):
                hexs = "".join(pk)
                for en, ops in (("L", OPS_L), ("B", OPS_B)):
                    for d in range(1, depth + 1):
                        for seq in itertools.product(ops, repeat=d):
                            if en == "B" and d == 2 and rnd.random() < 0.5:
                                continue
                            add(f"reader {en} {hexs or '-'} " + " ".join(seq))
        nrand = 60000
        exhaustive = True
    else:
        # quick: all packets of length <= 2 x all single ops, then samples
        for L in range(3):
            for pk in itertools.product(ALPHA, repeat=L):
                hexs = "".join(pk)
                for en, ops in (("L", OPS_L), ("B", OPS_B)):
                    for op in ops:
                        add(f"reader {en} {hexs or '-'} {op}")
        nrand = 4000
    for _ in range(nrand):
        L = rnd.choice([0, 1, 2, 3, 4, 5, 6, 6, 8, 12, 20, 40])
        if rnd.random() < 0.7:
            pk = [rnd.choice(ALPHA) for _ in range(L)]
        else:
            pk = ["%02x" % rnd.randrange(256) for _ in range(L)]
        if rnd.random() < 0.3 and L >= 4:
            # plant a valid multi-byte UTF-8 / UTF-16 sequence
            ins = rnd.choice(["c3a9", "e282ac", "f09f9880", "3dd800de", "d83d00de", "e900", "00e9"])
            pk[rnd.randrange(L)] = ins
        en = rnd.choice("LB")
        ops = OPS_L if en == "L" else OPS_B
        d = rnd.choice([1, 2, 3, 4, 4, 6])
        add(f"reader {en} {''.join(pk) or '-'} " + " ".join(rnd.choice(ops) for _ in range(d)))
    gen_su2(tier, rnd, add)
    # VarInt: encodings by continuation class, 1..6 bytes
    payloads = [0x00, 0x01, 0x7f, 0x0f, 0x10, 0x40, 0x08, 0x07]
    for L in range(1, 7):
        for cont in itertools.product([0, 1], repeat=L):
            for _ in range(3 if tier == "quick" else 12):
                bs = [(rnd.choice(payloads) & 0x7f) | (0x80 if c else 0) for c in cont]
                add("reader L " + "".join("%02x" % b for b in bs) + " vi u1")
    vals = [0, 1, -1, 127, 128, 255, 16383, 16384, 2097151, 2097152, 268435455, 268435456, 2**31 - 1, -2**31, -2**31 + 1, -128, -129]
    for _ in range(300 if tier == "quick" else 20000):
        vals.append(rnd.choice([rnd.randrange(-2**31, 2**31), rnd.randrange(-300, 300), (1 << rnd.randrange(32)) - rnd.choice([0, 1])]))
    for v in vals:
        if v >= 2**31:
            v -= 2**32
        add(f"varint-enc {v}")
        add("reader L " + ref_varint(v).hex() + "4142 vi u1")
    # strings
    strs = ["", "A", "héllo", "€uro", "😀", "a" * 127, "b" * 128, "c" * 300, "\x00x",
            # around every length a width or a documented limit suggests (bytes, not characters)
            "d" * 16383, "e" * 16384, "f" * 32767, "g" * 32768, "h" * 65535, "i" * 65536, "€" * 10923, "€" * 20000, "j" * 100000, "😀" * 8192]
    for s in strs:
        b = s.encode()
        add("mcstr-enc " + (b.hex() or "-"))
        add("reader L " + (ref_varint(len(b)) + b).hex() + "7a vs u1")
    for _ in range(100 if tier == "quick" else 3000):
        L = rnd.choice([0, 1, 2, 5, 127, 128, 129, 200])
        b = bytes(rnd.choice([0x41, 0x7a, 0x00, 0x20]) for _ in range(L))
        cut = rnd.choice([0, 0, 0, 1, 2])
        pkt = (ref_varint(L) + b)
        pkt = pkt[:len(pkt) - cut] if cut else pkt
        add("reader L " + (pkt.hex() or "-") + " vs")
    for bad in ["ffffffff0f", "ffffffff07", "8080808008", "ffffffff7f", "808080808000", "fffffffff0", "ff", "8080", ""]:
        add("reader L " + (bad or "-") + " vs")
    for nn in range(256):
        add(f"lower-upper {nn}")
    for a in (0, 1, 5, 2**31):
        for b in (0, 1, 4, 5, 6):
            add(f"exp-size {a} {b}")
    return cases, exhaustive


# ---- the property itself, evaluated on the implementation's output (independent of the Lean model)

def ref_vs(data, pos):
    """reference reader of a Minecraft string (the protocol page: a VarInt byte count, then that many bytes of UTF-8; no
    other limit applies to the byte count than the packet itself): (text bytes, end position) or None when not decodable"""
    res, j = 0, pos
    for r in range(5):
        if j >= len(data):
            return None
        b = data[j]
        j += 1
        res |= (b & 0x7f) << (7 * r)
        if r == 4 and (b & 0xf0):
            return None
        if not (b & 0x80):
            break
    else:
        return None
    if res >= 2**31 or j + res > len(data):
        return None
    text = data[j:j + res]
    try:
        text.decode("utf-8")
    except UnicodeDecodeError:
        return None
    return text, j + res


def _w1252(b):
    """windows-1252 as the WHATWG encoding standard (and hence encoding_rs) decodes it: the five bytes the
    Microsoft table leaves undefined are the C1 controls of the same value"""
    if 0x80 <= b < 0xa0:
        try:
            return ord(bytes([b]).decode("cp1252"))
        except UnicodeDecodeError:
            return b
    return b


def ref_u2_clean(chars):
    """code points -> code points: colour escapes (0x1b and the three characters after it, whatever they are;
    fewer if the text ends), then the control characters 0x01-0x1a, then NULs at both ends"""
    out, skip = [], 0
    for c in chars:
        if skip:
            skip -= 1
        elif c == 0x1b:
            skip = 3
        else:
            out.append(c)
    out = [c for c in out if not (0x01 <= c <= 0x1a)]
    i, j = 0, len(out)
    while i < j and out[i] == 0:
        i += 1
    while j > i and out[j - 1] == 0:
        j -= 1
    return out[i:j]


def ref_u2_string(data, pos):
    """the property for one Unreal 2 string at `pos`: (text as UTF-8 or None if the read must fail, position after)"""
    if pos >= len(data):
        return None, pos
    lb = data[pos]
    if lb < 0x80:
        start, n = pos + 1, lb
        if start + n > len(data):
            return None, pos
        chars = [_w1252(b) for b in data[start:start + n]]
    else:
        start = pos + 1
        if start < len(data) and data[start] == 1:
            start += 1
        n = 2 * (lb - 0x80)
        if start + n > len(data):
            return None, pos
        try:
            chars = [ord(c) for c in data[start:start + n].decode("utf-16-le", "strict")]
        except UnicodeDecodeError:
            return None, pos
    return "".join(chr(c) for c in ref_u2_clean(chars)).encode("utf-8"), start + n


def ref_check_reader(case, impl):
    """Reference semantics of the property statement for the fixed-width reads, cursor moves and
    delimiter-terminated strings: returns list of (sig, desc)."""
    toks = case.split(" ")
    en, hexs, ops = toks[2], toks[3], toks[4:]
    data = bytes.fromhex("" if hexs == "-" else hexs)
    outs = impl.split(" ")
    fails = []
    pos = 0
    for k, op in enumerate(ops):
        if k >= len(outs):
            fails.append(("reader-missing-output", f"no output for op {k} {op}"))
            break
        o = outs[k]
        if o in ("CRASH", "ABORT", "HANG") or o.startswith("OVERRUN"):
            fails.append(("reader-" + o.split("@")[0].lower() + ":" + op.split(":")[0].rstrip("-0123456789"), f"{o} at op {k} ({op}) of packet {hexs}"))
            break
        if o.endswith("@?"):
            if op not in ("vi", "vs") or not o.startswith("!"):
                fails.append(("reader-format", f"unexpected output {o} for {op}"))
            elif op == "vi":
                # must be a genuine rejection: reference decoder agrees it is not decodable
                res_ok = True
                j = pos
                for r in range(5):
                    if j >= len(data):
                        res_ok = False
                        break
                    bb = data[j]
                    j += 1
                    if r == 4 and (bb & 0xf0):
                        res_ok = False
                        break
                    if not (bb & 0x80):
                        break
                if res_ok:
                    fails.append(("varint-rejects-valid", f"vi at {pos} of {hexs}: valid encoding rejected: {o}"))
            elif op == "vs" and ref_vs(data, pos) is not None:
                fails.append(("mcstring-rejects-valid", f"vs at {pos} of a packet of {len(data)} bytes ({hexs[:40]}…): a well-formed string of {len(ref_vs(data, pos)[0])} bytes rejected: {o}"))
            break
        body, _, at = o.rpartition("@")
        p2, _, rem = at.partition("/")
        p2, rem = int(p2), int(rem)
        ok = body.startswith("=")
        val = body[1:]
        if p2 > len(data) or p2 + rem != len(data):
            fails.append(("reader-position", f"position {p2}/remaining {rem} inconsistent with packet of {len(data)} bytes after {op}"))
            break
        head = op.split(":")[0]
        if head[0] in "ui" and head[1:].isdigit():
            w = int(head[1:])
            if pos + w <= len(data):
                exp = int.from_bytes(data[pos:pos + w], "little" if en == "L" else "big", signed=(head[0] == "i"))
                if not ok or int(val) != exp or p2 != pos + w:
                    fails.append(("reader-fixed-width", f"{op} at {pos} of {hexs} ({en}): expected {exp} advancing {w}, got {o}"))
            else:
                if ok or p2 != pos:
                    fails.append(("reader-fixed-width-fail", f"{op} at {pos} of {hexs}: expected failure leaving position, got {o}"))
        elif head.startswith("mv"):
            off = int(head[2:])
            tgt = pos + off
            if 0 <= tgt <= len(data):
                if not ok or p2 != tgt:
                    fails.append(("reader-move", f"{op} at {pos}: expected {tgt}, got {o}"))
            elif ok or p2 != pos:
                fails.append(("reader-move-fail", f"{op} at {pos} of {len(data)}: expected failure, got {o}"))
        elif head == "s8":
            d = int(op.split(":")[1], 16) if ":" in op else 0
            sl = data[pos:]
            i = sl.find(bytes([d]))
            s = sl if i < 0 else sl[:i]
            end = len(data) if i < 0 else pos + i + 1
            try:
                s.decode("utf-8")
                valid = True
            except UnicodeDecodeError:
                valid = False
            if valid:
                if not ok or val != "x" + s.hex() or p2 != end:
                    fails.append(("reader-cstring", f"{op} at {pos} of {hexs}: expected x{s.hex()} ending at {end}, got {o}"))
            elif ok:
                fails.append(("reader-cstring-invalid", f"{op} at {pos} of {hexs}: invalid UTF-8 accepted: {o}"))
        elif head == "sl":
            # length-prefixed: one length byte, then that many bytes (or what there is of them); the text is what
            # precedes the first delimiter inside them, the rest is padding that is consumed and never interpreted
            d = int(op.split(":")[1], 16) if ":" in op else 0
            if pos < len(data):
                n = min(data[pos], len(data) - pos - 1)
                body_b = data[pos + 1:pos + 1 + n]
                i = body_b.find(bytes([d]))
                text = body_b if i < 0 else body_b[:i]
                end = pos + 1 + n
                try:
                    text.decode("utf-8")
                    valid = True
                except UnicodeDecodeError:
                    valid = False
                if valid:
                    if not ok or val != "x" + text.hex() or p2 != end:
                        fails.append(("reader-lenstring", f"{op} at {pos} of {hexs}: expected x{text.hex()} ending at {end}, got {o}"))
                elif ok:
                    fails.append(("reader-lenstring-invalid", f"{op} at {pos} of {hexs}: invalid UTF-8 accepted: {o}"))
            elif ok or p2 != pos:
                fails.append(("reader-lenstring-fail", f"{op} at {pos} of {hexs}: expected failure leaving position, got {o}"))
        elif head in ("s16l", "s16b"):
            d = bytes.fromhex(op.split(":")[1]) if ":" in op else b"\0\0"
            sl = data[pos:]
            i = -1
            for j in range(0, len(sl) - 1, 2):
                if sl[j:j + 2] == d:
                    i = j
                    break
            body_b = sl[:len(sl) - len(sl) % 2] if i < 0 else sl[:i]
            end = len(data) if i < 0 else pos + i + 2
            try:
                s = body_b.decode("utf-16-le" if head == "s16l" else "utf-16-be")
                sb = s.encode("utf-8")
                valid = True
            except (UnicodeDecodeError, UnicodeEncodeError):
                valid = False
            if valid:
                if not ok or val != "x" + sb.hex() or p2 != end:
                    fails.append(("reader-utf16", f"{op} at {pos} of {hexs}: expected x{sb.hex()} ending at {end}, got {o}"))
            elif ok:
                fails.append(("reader-utf16-invalid", f"{op} at {pos} of {hexs}: invalid UTF-16 accepted: {o}"))
        elif head == "vs":
            r = ref_vs(data, pos)
            if r is None:
                if ok:
                    fails.append(("mcstring-accepts-invalid", f"vs at {pos} of {hexs[:60]}: not a well-formed string, accepted: {o[:80]}"))
            elif not ok or val != "x" + r[0].hex() or p2 != r[1]:
                fails.append(("mcstring-decode", f"vs at {pos} of {hexs[:60]}…: expected {len(r[0])} bytes ending at {r[1]}, got {o[:80]}"))
        elif head == "su2":
            text, end = ref_u2_string(data, pos)
            if text is None:
                if ok or p2 != pos:
                    fails.append(("reader-u2string-fail", f"{op} at {pos} of {hexs}: expected failure leaving position, got {o}"))
            elif not ok or val != "x" + text.hex() or p2 != end:
                fails.append(("reader-u2string", f"{op} at {pos} of {hexs}: expected x{text.hex()} ending at {end}, got {o}"))
        elif head == "vi":
            # reference VarInt decoder (Minecraft rule)
            res, shift, j, err = 0, 0, pos, None
            for r in range(5):
                if j >= len(data):
                    err = "underflow"
                    break
                b = data[j]
                j += 1
                res |= (b & 0x7f) << (7 * r)
                if r == 4 and (b & 0xf0):
                    err = "bad"
                    break
                if not (b & 0x80):
                    break
            if err is None:
                res &= 0xFFFFFFFF
                if res >= 2**31:
                    res -= 2**32
                if not ok or int(val) != res or p2 != j:
                    fails.append(("varint-decode", f"vi at {pos} of {hexs}: expected {res} ending at {j}, got {o}"))
            elif ok:
                fails.append(("varint-accepts-" + err, f"vi at {pos} of {hexs}: expected rejection ({err}), got {o}"))
        pos = p2
    return fails


def oracle(case, impl, model, panic):
    toks = case.split(" ")
    ent = toks[1]
    if ent == "reader":
        return ref_check_reader(case, impl)
    if ent == "varint-enc":
        v = int(toks[2])
        if impl != ref_varint(v).hex():
            return [("varint-encode", f"as_varint({v}) = {impl}, reference {ref_varint(v).hex()}")]
    if ent == "mcstr-enc":
        b = bytes.fromhex("" if toks[2] == "-" else toks[2])
        exp = "OK " + (ref_varint(len(b)) + b).hex()
        if impl != exp:
            return [("mcstring-encode", f"as_string = {impl}, reference {exp}")]
    if ent == "lower-upper":
        n = int(toks[2])
        if impl != f"{n & 15},{n >> 4}":
            return [("lower-upper", f"u8_lower_upper({n}) = {impl}")]
    if ent == "exp-size":
        a, b = int(toks[2]), int(toks[3])
        exp = "OK " if a == b else ("ERR PacketOverflow" if b > a else "ERR PacketUnderflow")
        if impl != exp:
            return [("expected-size", f"error_by_expected_size({a},{b}) = {impl}")]
    return []


def trivial(case, impl):
    return "=" not in impl and not impl.startswith("OK")


def run(rep, tier, seed, replay=None):
    if replay is not None:
        cases, exhaustive = replay, False
    else:
        cases, exhaustive = gen_cases(tier, seed)
    vlib.correspond(rep, cases, oracle=oracle, trivial=trivial, tag="c17")
    rep.extra_cov["exhaustive"] = bool(exhaustive)
    rep.extra_cov["explanation"] = "exhaustive small scope is part of the thorough tier only" if not exhaustive else "packets<=4 bytes x op sequences<=2 enumerated completely (big-endian depth-2 half-sampled)"
