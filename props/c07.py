"""C07 — Single-game protocols and the HTTP/JSON game map every field."""
from props import decode_generic

LEVEL = "proof"
RULE = decode_generic.rule_text("C07")
ASSUMPTIONS = ["external crates are parameters of the model"]
TRUSTED = ["hand-written Lean models, checked against the code on every run", "SPEC encoders written from the protocol documentation / reference implementation (node-gamedig)"]


def run(rep, tier, seed, replay=None):
    decode_generic.run("C07", rep, tier, seed, replay)
    if replay is None:
        # probes of recorded (unrepaired) findings, one hook per family module
        import importlib
        for fam in decode_generic.families_of("C07"):
            mod = importlib.import_module("props.families." + fam)
            if hasattr(mod, "finding_probes"):
                mod.finding_probes(rep)
