"""C07 — Single-game protocols and the HTTP/JSON game map every field."""
from props import decode_generic

LEVEL = "proof"
RULE = decode_generic.rule_text("C07")
ASSUMPTIONS = ["external crates are parameters of the model"]
TRUSTED = ["hand-written Lean models, checked against the code on every run", "SPEC encoders written from the protocol documentation / reference implementation (node-gamedig)"]


def run(rep, tier, seed, replay=None):
    decode_generic.run("C07", rep, tier, seed, replay)
