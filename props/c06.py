"""C06 — Unreal 2 replies decode strings and lists without loss or addition."""
from props import decode_generic

LEVEL = "proof"
RULE = decode_generic.rule_text("C06")
ASSUMPTIONS = ["external crates are parameters of the model"]
TRUSTED = ["hand-written Lean models, checked against the code on every run", "SPEC encoders written from the protocol documentation / reference implementation (node-gamedig)"]


def run(rep, tier, seed, replay=None):
    decode_generic.run("C06", rep, tier, seed, replay)
