"""What MANIFEST.json claims, per property (edited by hand; tools/mkmanifest.py renders it)."""
HOOK_COMMITS = ["7ed0aad", "d8606cd", "08f1a83", "8f24443", "c07948e", "8098570"]
NOTES = ("Every check rebuilds the harness against /repo's working tree and the Lean project, runs the proof stage "
         "(lake build of the property's theorem module + #print axioms audit), the model/implementation correspondence "
         "and the property oracle on the implementation. Genuine defects found are repaired by fix: commits in /repo "
         "or listed in known_findings.json. The constants the protocols put on the wire or decide by (request bytes, magic "
         "numbers, default ports, size limits, tables: 114 of them) are TRANSLATED from the source on every run (tools/xlate.py -> "
         "lean/GdVerif/Gen/Consts.lean) and theorems Props/Cnn_consts.lean state source = model = specification for each.")
NOT_YET = {}
TB = ("Trusted: Lean kernel (axioms propext, Classical.choice, Quot.sound only; audited by #print axioms on every run); "
      "the hand-written model's correspondence to the code (differential, bounded by the generators whose distribution is in the evidence); ")
CLAIMS = {
 "C03": dict(
  category="proof",
  text=("Lean 4 theorems (family built by a sub-agent under the common brief, merged and re-checked here): for every well-formed status, decoding the SPEC "
        "encoding returns exactly that status for Bedrock (unconnected pong), legacy 1.6 / 1.4 / beta 1.8 (kick packets, UTF-16BE), and Java (VarInt-framed JSON) "
        "for every behaviour of the JSON crate that maps the text to a document representing the status (member order, unknown members, null vs absent do not "
        "matter); auto-detection for all 32 subsets of variants a server speaks and every way an unspoken variant fails: the result is the first spoken variant in "
        "the order Java, Bedrock, 1.6, 1.4, b1.8, labelled with it, AutoQuery iff none, and the sockets opened are the prefix of [tcp, udp, tcp, tcp, tcp] up to it. "
        "Tie + oracle: SPEC-generated statuses (a Lean mirror of serde_json parses/prints the JSON in the driver), mutations, and the opened-socket sequence on the "
        "real code."),
  note=TB + "serde_json is a parameter of the model (theorem C03_java quantifies over its behaviour); the driver's JSON mirror is exercised by the differential only.",
  technique="Lean 4 proof (decode∘encode per format; case analysis over the 32 variant subsets) + SPEC-driven differential"),
 "C06": dict(
  category="proof",
  text=("Lean 4 theorems (family built by a sub-agent, merged and re-checked here): the Unreal 2 string codec for every well-formed string in both encodings "
        "(Latin-1 and UCS-2, every length 0-127, any trailing bytes): result = the characters sent minus colour escapes, control characters and trailing NULs, "
        "cursor exactly past the string; server info, rules (every value kept under its key, any cut of the list into datagrams), mutators, players (bot iff "
        "ping = 0); and the whole query on the SPEC script equals the expected response for all 9 toggle pairs, each section valid / silent / malformed, any "
        "retry count and any number of datagrams per list. Tie + oracle: every length byte 0-255 in both encodings with and without escapes (quick tier), "
        "SPEC-generated exchanges and mutations on the real code."),
  note=TB + "encoding_rs (windows-1252, UTF-16LE without BOM handling) mirrored by Gd.cp1252Decode / unitsOf; the stray-0x01 ambiguity of UCS-2 strings is excluded by the SPEC's domain.",
  technique="Lean 4 proof (string codec ∀ lengths/encodings; list induction over datagrams) + exhaustive length-byte sweep and SPEC differential"),
 "C04": dict(
  category="proof",
  text=("Lean 4 theorems, one file per version (families built by sub-agents, merged and re-checked here). GameSpy 1 (C04_gs1_query, C04_gs1_query_vars, "
        "C04_gs1_unused_exact): the whole query on the SPEC script of any well-formed state — any number of players below 65536, any subset of optional per-player "
        "fields, any cut into parts with query ids, every writing style — equals the expected response, and unused entries = sent − typed − player fields. GameSpy 2 "
        "(C04_gs2_query, C04_gs2_table, C04_gs2_vars, C04_gs2_unused_exact): 0-255 players and teams, extra columns, 0-row tables. GameSpy 3 (C04_gs3_*): challenge "
        "handshake, splitnum packets in any order, player and team field sections, any allowed field sections the response has no place for at any "
        "positions (C04_gs3_query_extra, found and repaired a reader defect on the way), value lists CUT at a packet boundary and continued in the next "
        "packet under field name + offset, for every choice of cut points and any arrival order (C04_gs3_query_cut, C04_gs3_query_cut_points; a packet "
        "that ends inside a value list is read exactly like the packet with the list closed, C04_gs3_cut_packet_as_closed; joining the packets into one "
        "buffer would NOT decode them, C04_gs3_cut_joined_buffer_differs), query_vars returns exactly the pairs sent. Tie + oracle: SPEC-generated states "
        "(0-64 players, 0-8 teams, extra variables, optional fields, 1-7 packets/parts) on the real code."),
  note=TB + "text is strict UTF-8 up to the first NUL; `to_lowercase().parse::<bool>()` is modelled as ASCII lower-casing (justified in Proto/GsCommon.lean).",
  technique="Lean 4 proof (decode∘encode per GameSpy version; canonical-map form for the multi-part merge) + SPEC-driven differential"),
 "C07": dict(
  category="proof",
  text=("Lean 4 theorems, one file per format (families built by sub-agents, merged and re-checked here): Just Cause 2: Multiplayer (C07_jc2m: GameSpy 3 carrier, "
        "reported-vs-listed player count), Mindustry (C07_mindustry: whole query = SPEC for every reply, optional trailing mode name), Savage 2 (C07_savage2, header "
        "and trailing bytes irrelevant), Frontlines: Fuel of War (C07_ffow, big-endian port / time left), The Ship (C07_theship: whole query on one-datagram replies, "
        "conversion errors are PacketBad), Battalion 1944 (C07_battalion_overrides: closed form of which bat_* rule overrides which field and what is removed; "
        "C07_battalion_query) and Eco (C07_eco_fields: the 37 field equations, C07_eco_nothing_fabricated: the map is injective). Tie + oracle: SPEC-generated replies "
        "over full numeric ranges, empty/long strings, optional trailing fields, 0-100 players on the real code; Eco through the real serde_json::from_reader and, for a "
        "share of the cases, the real HTTP client over loopback (IPv4 and IPv6)."),
  note=TB + "ureq/url/serde_json are parameters (Eco); the whole-query theorems of The Ship and Battalion 1944 cover unsplit, unchallenged exchanges, the remaining transports are covered by the tie and by C02/C08/C09. Recorded finding: Savage 2 text is decoded as strict UTF-8 (reference: Latin-1).",
  technique="Lean 4 proof (decode∘encode per format; override table in closed form; injectivity of the Eco field map) + SPEC-driven differential incl. real HTTP"),
 "C19": dict(
  category="other",
  text=("PARTIAL (the remainder is named). Proved in Lean 4 over a model of crates/cli/src/main.rs (Proto/Cli.lean, CliPlan.lean, CliJson.lean, CliCodec.lean; "
        "Props/C19.lean, C19_cli.lean): the PLAN of every invocation as an iff — clap accepts, the game is the looked-up row, port / timeouts / retries / mode / "
        "format are the caller's, the host is an IP literal or a name to resolve, the host name enters the extra settings exactly when the host was a name and "
        "none was given — and the query issued is the generic query of that game with those settings (C14_cli_*); a bad flag, an unknown game, an unresolvable "
        "host, a failed query and a failed serialisation each end with a non-zero status, a message and NO document, a document is printed only when every step "
        "succeeded and then the status is 0 (the two panic! sites and the expect are explicit crash branches shown unreachable); the XML converter for EVERY JSON "
        "value emits XML names only, properly nested tags, and for every Unicode scalar an XML 1.1 character or a reference to one; hex and base64: decode∘encode = "
        "id for all byte strings, alphabet and padding as the standards say; the JSON printers (compact and pretty): the RFC 8259 reader inverts them for every "
        "value, strings over all scalars; generic mode prints exactly the ten members of the common view (C15 tables), protocol-specific mode the original "
        "response. TIED on every run: the real binary with a cfg-guarded hook printing its plan (every game id, unknown / non-ASCII ids, IP literals and names, "
        "every flag at its boundaries, every mode x format) against the model of main; the real writers byte-exact against the model (JSON, pretty JSON, XML) or "
        "through the model's decoders (BSON hex / base64); end to end against loopback servers for Valve and one game of each UDP family x 2 modes x 6 formats, "
        "documents compared with the library's own response, the requests the fake server saw compared with the library's query of that game; invalid "
        "invocations of each kind. BSON's binary layout is in the model too (Proto/CliBson.lean, Props/C19_bson.lean): decode(encode v) = the value in the "
        "BSON types the crate picks for each Rust integer width, every int32 length field equals the bytes it spans, documents / arrays / strings nest "
        "properly, the encoder fails exactly on a u64 above i64::MAX, a NUL in a key or a non-document at the top; composed with hex / base64: the printed "
        "text decodes to the value; tie: the real crate on boundary values and the CLI's BSON bytes byte for byte against the model's serialiser. NOT "
        "proved: serde's derive output (which serialize_* call each field makes), the Debug text, the resolver, clap's argv tokenisation, the process."),
  note=TB + "Known finding: u64 > i64::MAX is not representable in BSON (clean error now). Repaired on the way: XML noncharacters U+FFFE / U+FFFF written literally (40e0891). std's IpAddr parser, hex, base64 and serde_json's formatters are mirrored in Lean and compared with the crates on every run.",
  technique="Lean 4 proof (plan of an invocation as an iff, exit logic, XML converter invariants by mutual induction, codec round trips, JSON print/read inverse) + plan-hook and byte-exact writer differential against the real binary (partial)"),
 "C12": dict(
  category="other",
  text=("PARTIAL by nature. Proved in Lean 4 on the model, for every server behaviour and every modelled family (Props/C12.lean, C12_<family>.lean): "
        "the number of blocking steps that can run into their timeout (timed-out receives, failed sends, failed socket creation) is bounded by an "
        "expression in the retry count only — r+1 for Quake, GameSpy 1/2/3, JC2M, FFOW, Mindustry, Minecraft Java / Bedrock / each legacy variant; 3r+2 "
        "for Valve, The Ship and Unreal 2 (a listening loop for further datagrams costs one timed-out step, not one per datagram); 3(r+1) for the "
        "legacy trio, 5(r+1) for Minecraft auto-detection over its five sockets; 1 for Savage 2 — by a counting logic over the transport log (Block); "
        "against a silent server each query fails with the receive-class error (auto-detection: AutoQuery) after exactly the stated number of sends, "
        "timeouts and sockets (C12_<family>_silent_server; bounds attained); a received datagram is delivered unmodified up to the requested size and a "
        "stream whole; sent bytes are handed over unmodified; default timeouts are finite. MEASURED on real loopback sockets (IPv4, IPv6 and the IPv4 peer under its IPv4-mapped IPv6 address), not "
        "proved: that the OS honours the timeouts — wall clock of Valve and GameSpy 2 queries against servers that fall silent at every point of the "
        "exchange, of the Minecraft Java query against a TCP peer that never writes, and of a TCP read against a peer that writes part of a reply and "
        "then stalls with the connection open, of the Eco query through the HTTP client against a peer that is mute / stalls in the head / in the body / "
        "refuses, and of EVERY UDP family (Quake, GameSpy 1/2/3, Unreal 2, Bedrock, Valve) against a loopback server that replays a valid exchange up to "
        "a cut point — result and requests seen compared with the model of the cut exchange —, of socket.rs itself (Proto/Socket.lean models UdpSocketImpl / "
        "TcpSocketImpl as functions into OS calls; Props/C12_socket.lean proves for every remote address incl. IPv4-mapped ones, every settings value and every "
        "OS behaviour: the bind address has the remote's family, one send_to / write of exactly the bytes to exactly the remote, a receive returns the datagram "
        "cut at the size asked for / the stream up to EOF, every blocking call is made under the duration the settings ask for — connect by connect, send by "
        "write, receive by read —, a total error table, and that the abstract Net is refined by these calls; tie: entry `sock` against loopback peers incl. "
        "decoys, both too-long and too-short waits flagged; `realseq`: several receives of different sizes on ONE socket), of the HTTP client against 29 server behaviours x 3 calls "
        "(refuses, unanswered connect, mute, stalls / closes in the head and in the body, error statuses, redirects, non-JSON: Props/C12_http.lean proves the "
        "decision tables — which failure gives which error kind, at most ONE timed-out step and which duration bounds it; found and repaired: a stall inside "
        "nested JSON cost one read timeout per open bracket) —, each vs (model's count of timed-out steps) x READ timeout "
        "+ slack with write / connect timeouts ten times longer; byte-exact round trips for payloads "
        "0..65507 (UDP) / 100 000 (TCP); refused connections. The runtime behaviour a model cannot exhibit (kernel timers, scheduling) is exactly the "
        "measured part."),
  note=TB + "OS socket timeouts, scheduling and the kernel's IPv4/IPv6 stacks are outside any model; the HTTP client (ureq agent: Eco) is measured by the Eco family's loopback HTTP runs only for fidelity, its timeouts are not modelled.",
  technique="Lean 4 proof of the blocking-step bounds per family and transport fidelity on the model + wall-clock measurement on real loopback sockets (partial)"),
 "C05": dict(
  category="proof",
  text=("Lean 4 theorems (family built by a sub-agent under the common brief, merged and re-checked here): for every well-formed Quake 1/2/3 status reply "
        "(distinct variables, names/skins/addresses quoted or unquoted, optional address, optional trailing NUL, 0-255 player lines) and every port / retry "
        "count, the query over the SPEC reply equals the SPEC's expected response: named variables, one player entry per line in order, count = number of "
        "lines (u8), every other variable unchanged in the unused entries. Tie + oracle: SPEC-generated replies and mutations on the real code. Two "
        "findings recorded with witnesses probed on every run (negative QuakeWorld frags vs u16 score; non-UTF-8 name bytes)."),
  note=TB + "SPEC written from the servers' print formats and node-gamedig; the two recorded findings are outside the repaired behaviour (public type / charset decisions).",
  technique="Lean 4 proof (decode∘encode over the line-oriented status format, through the transport) + SPEC-driven differential"),
 "C20": dict(
  category="proof",
  text=("Lean 4 theorems over a model of the id-naming checker: totality — for EVERY list of (id, name) pairs (any byte strings, hence every name of "
        "the documented grammar incl. text after a hyphenated number) the checker returns a list of failures and never panics: every word it produces is "
        "non-empty, so no unwrap on an empty word is reachable (assumption: number_to_words never returns an empty string); self-consistency — for a single "
        "game there is an id E (a function of the name alone) such that an id is accepted exactly when it is E or, for a name with a '-', the id expected "
        "for the part after the first '-'. Tie + oracle: grammar-generated names x ids (the ids the checker itself reports, near misses, junk) and lists of "
        "1-4 games on the real crate in-process; accepted = reported set, independent of the wrong id proposed; the shipped table passes."),
  note=TB + "ASCII names (Unicode is_alphabetic/to_lowercase outside the model); roman_numeral mirrored in Lean, number_to_words a parameter table filled from the real crate at check time; the shipped-table pass is checked by running model and implementation on it, not by a kernel evaluation.",
  technique="Lean 4 proof (non-emptiness invariant through the word pipeline; case analysis of the rule-8 recursion) + grammar-driven differential"),
 "C14": dict(
  category="proof",
  text=("Translation + Lean 4 proof: tools/xlate.py regenerates on every run the definitions table (96 games) and every dedicated module's parameters "
        "(macro invocations, the hand-written modules' default ports, the Minecraft module functions) as Lean data; theorems re-checked against it: for "
        "every game with a module, port / protocol tag / engine ids / gathering settings agree (decide over the whole table); ids unique; every row within "
        "the translator's grammar and mapped to a modelled arm. Proto/Dispatch.lean is a statement-for-statement model of "
        "query_with_timeout_and_extra_settings for EVERY non-tls arm (Valve with the extra-settings fallback, GameSpy 1/2/3, Quake 1/2/3, Unreal 2, "
        "Savage 2, The Ship, FFOW, JC2M, Mindustry, Minecraft Java / Bedrock / legacy / auto, Eco) and of every kind of module. Proved for every row of "
        "the generated table, every transport state, port given or omitted, any timeout / extra settings and any behaviour of the external decoders: "
        "generic = the protocol's own query with the row's parameters (C14_dispatch_generic_eq_protocol); generic with no extra settings and default "
        "timeouts = the module's query, derived from the table agreement, the two exclusions being the two recorded findings stated as model-level "
        "witnesses (C14_dispatch_generic_eq_module, C14_dispatch_battalion, C14_dispatch_minecraft_auto_port_omitted); every logged open / send carries "
        "the given port or the row's default, for all arms (C14_dispatch_destination_port); arms that hand the optional port on use a callee default equal "
        "to the row's (C14_dispatch_own_default). Tie + oracle: `dispatch` / `dispatch-module` entries run the model and the real code for every game of "
        "the table on valid, cut and mutated exchanges, port given and omitted, fixed and random retry / extra-settings combinations, over IPv4 and IPv6; "
        "the three real call paths are compared with each other (the per-game form of a protocol response is written by the harness itself, not through the "
        "library's conversion). THE ARMS THEMSELVES ARE TRANSLATED (tools/xlate_arms.py -> Gen/Arms.lean, on every run; a source shape outside its "
        "vocabulary makes it fail loudly): every arm of `match &game.protocol` in games/query.rs (callee, how each argument is built from address / port / "
        "definition / timeout / extra settings), the From<ExtraRequestSettings> impls, defaults, the game_query_fn! bodies and the hand-written modules' "
        "wrappers; Proto/ArmsSem.lean evaluates the translated terms and Props/C14_arms.lean proves for EVERY arm and every argument value: evaluated "
        "translation = the call the hand-written Dispatch model makes (C14_arms_call_eq_model, C14_arms_translation_eq_generic), exactly one arm per "
        "protocol value, the caller's timeout / retry count reaches every arm, the port is the caller's else the definition's default for every arm and "
        "every auto-detect probe, extra settings reach the protocol field by field when given (C14_arms_extra_*); a mutation self-test of the translator "
        "runs in the thorough tier. The CLI as fourth caller (C14_cli_*)."),
  note=TB + "translator validated by the differential; modules take no timeout argument (compared at retry 0); Eco's HTTP client is a parameter of the dispatch model (Ext.ecoFetch) and its arm is tied by the three real paths only; Epic and Minetest (tls feature) are outside the model. Known findings: battalion1944 (module-only rule overrides), Minecraft auto-detect with the port omitted (Bedrock probe port).",
  technique="source-to-Lean translation of the game tables + Lean 4 proof (decide over the table; path equalities and destination port over the dispatch model) + model/implementation and three-path differential"),
 "C15": dict(
  category="proof",
  text=("Translation + Lean 4 proof: tools/xlate.py regenerates, on every run, the accessor table of every `impl CommonResponse/CommonPlayer for T` "
        "(29 impls) as Lean data (Gen/Views.lean); theorems re-checked against it: every accessor is syntactically the intended one of Spec/Views.lean "
        "(reads exactly the corresponding protocol-specific field, or is None where the type has none), no accessor body is outside the translator's "
        "grammar, as_original is `Generic…::Variant(self)` and as_json is never overridden for every type; and for ALL response values and ALL accessor "
        "tables: an accessor returns exactly the value at its path, and the JSON form's members are exactly the accessor values (players: the players' own "
        "JSON forms, in order). Tie: the generated tables are evaluated by the Lean driver on dumped real responses and must reproduce the real as_json(); "
        "oracle: accessors = as_json members, as_original contains the response unchanged."),
  note=TB + "translator (regex over one-line accessor bodies) is validated by the differential; serde rendering is trusted; Epic/Minetest (tls feature) are covered by the table theorems only.",
  technique="source-to-Lean translation of accessor tables + Lean 4 proof over all response values + evaluation differential"),
 "C18": dict(
  category="proof",
  text=("Lean 4 theorems over a model of TimeoutSettings: the constructor rejects a zero read/write/connect duration with InvalidInput whatever "
        "the other values and accepts everything else unchanged; a command-line flag value that parses to zero is rejected and whatever the flags "
        "accept has three non-zero durations; deserialisation is the constructor; every configuration accepted by any path (or Default, or none) "
        "passes apply_timeout's unwraps and makes connect_timeout at worst return an error value; the retry combinator has no crash of its own for "
        "any retry count. Tie + oracle: the quantifier's matrix enumerated exhaustively through new / serde_json / clap on the real code, every "
        "accepted value then used on real UDP and TCP sockets, extreme retry counts and durations on scripted queries of every family, extreme host names / "
        "protocol versions as request settings. THE HTTP CLIENT (Props/C18_http.lean): each duration reaches the agent unchanged at its own place (None = the "
        "builder's default), nothing is computed from the durations, no panic for any accepted combination; tie: http-plan with 17 duration triples incl. "
        "the largest against a server that answers. socket.rs (Props/C18_socket.lean): the unwraps in apply_timeout are unreachable for every accepted settings "
        "value under std's setter contract (a zero duration WOULD panic: the validation is what protects them), no panic in any session of sends and receives; "
        "nanosecond timeouts on real sockets with datagrams from the peer and from strangers queued before the receive. The CLI's flag group (C18_cli_*)."),
  note=TB + "clap/serde derive output is modelled (field-wise construction through parse_duration_secs / try_from), std socket-option behaviour is exercised on real sockets, not proved.",
  technique="Lean 4 proof (decision logic of the three construction paths) + exhaustive configuration matrix on the real code"),
 "C16": dict(
  category="proof",
  text=("Lean 4 theorems: (1) for ANY three ordered groups of filters (hence every iteration order of the three hash maps), any region and seed, "
        "the request datagram read back by a reference reader of the Master Server Query Protocol grammar yields exactly the region, the seed "
        "'ip:port' and, per group, the key/value pair the protocol defines for each filter (values over all byte strings without backslash/NUL, all "
        "u32 ids via a proved decimal render/parse inverse); insertion keeps one filter per kind, the later replacing the earlier, each method touching "
        "only its own group; (2) for EVERY well-formed history of reply pages (any number of pages) the paged query returns all listed addresses in "
        "order without the terminator, one request per page seeded with the last address of the previous page, and stops; a page in the protocol's "
        "layout decodes to exactly its entries, and whatever the decoder accepts is exactly a protocol page (C16_master_page_iff). Tie + oracle: insertion sequences (exhaustive to 3 in the thorough tier) and page histories on the real "
        "code, including histories whose last page ends on its own seed instead of the terminator; sent requests parsed by the reference grammar and "
        "compared with an independently computed denotation."),
  note=TB + "the reference grammar reader (Spec/Master.lean) is the specification and is trusted; pages are limited to 232 entries (the 1400-byte receive buffer).",
  technique="Lean 4 proof (tokenisation/grammar round trip; induction over page histories) + grammar-based request differential"),
 "C01": dict(
  category="proof",
  text=("Lean 4 theorem per modelled entry family: for EVERY reply script (any datagrams of any content and size, silences, refused "
        "sockets, failing sends), every setting and any behaviour of the external decoders, the model of the query returns a response "
        "or an error, never a crash (panic / out-of-bounds / overflow / allocation failure are explicit crash branches of the model; loops "
        "take fuel from the number of queued deliveries and 'fuel suffices' is proved, so termination is part of the theorem). Built from "
        "a crash-freedom logic for parsers (Safe) and one for query computations (QSafe: log grows by permitted events, queues only "
        "shrink). Tie + search: valid, mutated, oversized (to 64 KiB) and garbage scripts run on the real entry points under a panic hook, "
        "an abort-surviving worker and an operation budget (hang detector), outcome and full transport trace compared with the model."),
  note=TB + "entry families under a theorem are listed in the evidence (entry_families_under_theorem): every protocol, every game wrapper, the master-server service (C01_master_*: fuel sufficiency of the paging loop, rounds <= datagrams + 1) and the generic definition-driven dispatch for every row of the generated table (C01_dispatch_rows; the Eco arm under the hypothesis that the HTTP client itself does not panic). Third-party decoders are parameters. tls-only code (Epic, Minetest) is outside the model.",
  technique="Lean 4 proof (Safe/QSafe program logics, fuel-sufficiency by a queue-length measure) + hostile-input differential"),
 "C13": dict(
  category="proof",
  text=("Lean 4 theorems. Requests sent: for EVERY server behaviour the model of the Valve query sends at most 3·(retries+1) datagrams plus one per datagram "
        "received (C13_valve_send_bound; per request r+1 plus received), the Unreal 2 query at most 3·(retries+1) whatever it receives, and every other modelled "
        "family at most units·(retries+1) [+ received where a request is only sent in answer to a reply] with units proved per family (1 for Quake, GameSpy 1/2/3, "
        "JC2M, FFOW, Mindustry, Bedrock, each legacy variant; 3 for Java, the legacy trio, The Ship; 7 for auto-detection; Savage 2 sends once) — C13_<family>_send_bound / "
        "_units / _attained, a counting logic over the transport log (Cost). Memory: the list of ALL allocation-size expressions of the library is regenerated from the source on every "
        "run by the translator (expression, defining lets/parameters, guards and constants hashed into a site id); C13_every_site_classified proves every generated "
        "site is in the hand-written classification (constant / fixed-width wire field / clamped / proportional to the bytes of the datagram it came from / drained "
        "behind a take-limit / caller-supplied constant / unreachable from a query), and C13_single_request_proportional / _datagram prove that a site of any class "
        "asks for at most 10 MiB + 64 bytes per byte received, below 16 MiB for any datagram. MEASURED on the implementation (the search for a failing input, and "
        "the part a model cannot carry): a counting global allocator in the harness records peak live bytes and the largest single request of every query on "
        "SPEC-generated exchanges and mutations biased to extreme length / count / index fields and oversized datagrams, checked against 64 MiB / 16 MiB; the number "
        "of requests in the real trace is checked against units·(r+1) + received for every family."),
  note=TB + "element sizes in the classification are estimates of the Rust layouts and collection growth policies (measured, not modelled); the translator finds allocation sites syntactically (with_capacity, vec![x; n], reserve, resize, read_to_end, take, repeat) — growth by push/insert is proportional to parsed input by construction and is covered by the measurement only; the `send_units` numbers the trace oracle uses per family are exactly the ones the theorems prove.",
  technique="Lean 4 proof (send-count logic over the log; classification theorem over the generated allocation-site table) + counting-allocator measurement on the real code"),
 "C09": dict(
  category="proof",
  text=("Lean 4 theorems: the A2S request bytes equal the specification's literals; for every script, every event the Valve query logs is on "
        "the one UDP socket it opened to the caller's port, every sent datagram is a protocol request optionally carrying a challenge, every "
        "receive uses the 6144-byte buffer; challenge echo as an equation for every challenge value (after a kind-0x41 reply with payload c the "
        "next action is sending the same request with exactly c); a non-challenge reply ends the exchange; per family (Props/C09_<family>.lean) the "
        "request literals, socket / port invariant and, where the protocol has one, the challenge echo (GameSpy 3 for every i32, Minecraft Java "
        "handshake framing); master server: the WHOLE log equals a closed form for every script (C09_master_log), every follow-up request is seeded with "
        "the last address of the page just received, port 27011. Tie + oracle: the implementation's sent datagrams (port + bytes, in order) equal the "
        "SPEC request list on generated exchanges with stratified challenge values; request settings on every VarInt group boundary; every family also "
        "through the definition-driven generic query with the port omitted (= the definition's default) and given. THE HTTP CLIENT (Props/C09_http.lean over "
        "Proto/Http.lean, a model of http.rs incl. the url crate's parser and ureq's request head): for every IPv4 / IPv6 address, port, plain host name, path "
        "and settings the connection goes to exactly the caller's address and port (the resolver answers every name with it), the Host header names the host "
        "name when one is given and the address otherwise (for IPv6 it parses back to the address), the request target is the path asked for, Eco asks for "
        "GET /frontpage; host names that change the URL (`/ ? # @ :`) are recorded as witnesses; tie: entries http-url / http-plan (the real client against a "
        "recording loopback listener, head compared byte for byte with the model's)."),
  note=TB + "per-game default ports (definitions table) are covered under C14; of the HTTP client ureq's wire behaviour, IDNA for non-ASCII names and serde are parameters.",
  technique="Lean 4 proof (event invariant over all scripts + unfolding equation for the echo) + sent-log differential against SPEC"),
 "C08": dict(
  category="proof",
  text=("Lean 4 theorem, for any number of fragments and with no hypothesis on them: every arrival order of the same multiset of "
        "Valve split packets yields the same reassembly result (sorted-by-number reassembly is permutation invariant when numbers "
        "are distinct — List.Perm.eq_of_pairwise on mergeSort — and a repeated number is rejected whatever the order); a duplicated "
        "fragment is always an error; in-order/any-order arrival of the fragments of a payload reassembles exactly the payload. "
        "Tie + oracle: every permutation (exhaustive to 5 fragments, sampled at 6) and every single duplication at every position of "
        "SPEC-generated Source/GoldSrc split replies run on the real code and on the model."),
  note=TB + "theorems are about the reassembly function (assemble∘sortChunks); that receive() feeds it the datagrams it got is covered by the correspondence. GameSpy 1/3 and Unreal 2 are added as their models land.",
  technique="Lean 4 proof (permutation invariance of sort-based reassembly) + exhaustive permutation/duplication differential"),
 "C10": dict(
  category="proof",
  text=("Lean 4 theorems. (1) The model of retry_on_timeout for every retry count r and every unit: never more than r+1 attempts; "
        "after L<=r timed-out attempts the first non-timeout attempt (valid or malformed) decides the result after exactly L+1 attempts "
        "(a malformed reply is never retried); r+1 timeouts give the last timeout-class error; the combinator has no crash of its own for "
        "any r (incl. usize::MAX, repaired in /repo). (2) END TO END on whole queries under any fault plan (Props/C10_<family>_whole.lean; "
        "Valve, The Ship, GameSpy 3 incl. query_vars and GameSpy 1 (all four also with replies that stop half way: any incomplete selection of the "
        "fragments / packets / parts, in any order, before the silence or before a malformed datagram; GameSpy 3 over the whole decoding domain incl. extra "
        "field sections and value lists cut at packet boundaries), FFOW, Quake 1/2/3, GameSpy 2, "
        "JC2M, Unreal 2, Mindustry (a socket per attempt), Minecraft Java / Bedrock / legacy): for every state of the SPEC's domain, every setting and "
        "retry count, and failed attempts (a silence or a failed send, at the first exchange of an attempt or after its challenge / handshake "
        "rounds) placed before the valid exchange of each unit: if every unit loses at most r attempts the query returns exactly the fault-free "
        "response and unit i is attempted k_i+1 times (…_query_recovers); after r+1 timeouts of an enforced unit the query fails with the last "
        "failure's receive/send-class error after exactly r+1 attempts and later units are not touched (…_query_exhausted); a unit that is only "
        "tried leaves the response intact with the section absent; a malformed reply ends the unit at once whatever r (…_malformed_not_retried); "
        "the whole list of datagrams sent, with failed flags, in closed form (…_query_faulty). Tie + oracle: all outcome vectors over {silent, send "
        "fault, malformed, valid} up to length r+2, r in 0..3, at each unit and stage of every family with a fault builder, recovering vectors at two "
        "or three units of one query at once, attempts counted on the wire; for the families under (2) every injected script is rebuilt by the model "
        "driver from the SPEC's plan (identical line, theorem hypotheses evaluated, result and sent list compared with the SPEC's)."),
  note=TB + "timeouts are scripted (silence); real socket timeouts belong to C12. Limits: the malformed datagram after some fragments of a Valve reply is of the shorter-than-5-bytes class; The Ship has plan correspondence through `theshipplan`. Recorded finding: The Ship reports an exhausted players / rules unit as PacketBad.",
  technique="Lean 4 proof (induction on the retry count; exact-outcome logic Steps over queue, fault flags and sent list for whole queries) + fault-vector and plan differential"),
 "C11": dict(
  category="proof",
  text=("Lean 4 theorems: maybe_gather! semantics for Skip (function not run, transport state untouched, section absent), Try (failure of any "
        "kind -> section absent, computation continues) and Enforce (failure propagates unchanged); the app-id decision (check on: accepted "
        "iff the id is the main or dedicated id; check off or no expectation: never a failure); and how Valve's query composes them after the "
        "info section (BadGame without any further request). Tie + oracle: 9 toggle pairs x {valid, silent, malformed, challenge-then-silent}^2 "
        "x {main, dedicated, other, no expectation} x check on/off on the real code, request kinds observed on the wire."),
  note=TB + "Unreal 2's use of the toggles is added with its model.",
  technique="Lean 4 proof (decision logic stated outright) + exhaustive toggle/outcome matrix differential"),
 "C02": dict(
  category="proof",
  text=("Lean 4 theorems: for every server state in the Valve specification's domain the model of each section parser "
        "(A2S_INFO Source layout with all 32 extra-data flag subsets, either case of the type bytes and The Ship fields; "
        "obsolete GoldSrc layout with/without mod data; A2S_PLAYER with 0-255 players; A2S_RULES with 0-65535 distinct rules "
        "incl. the Risk of Rain 2 quirk) applied to the SPEC encoding returns exactly that state (unbounded strings and lists, by "
        "induction / a compositional decoding logic). WHOLE QUERY (Props/C02_whole.lean): for every such state, engine, gather setting, "
        "retry count, and an exchange in which each of the three requests is answered after any number of challenge rounds with any "
        "challenge bytes and the reply arrives as one datagram, a Source split of up to 255 fragments or a GoldSrc split of up to 15, cut "
        "anywhere, fragments in ANY arrival order (composed with C08), the model of Valve.query returns exactly the SPEC's expected "
        "response (C02_whole, C02_whole_any_order); the same for bzip2-compressed Source splits under the decoder law bunzip(compress p) = p "
        "with the matching CRC-32 (C02_whole_compressed); every field of the per-game response equals the state's (C02_game_view_fields, "
        "C02_whole_game_view). Tie + oracle: the SPEC generator prints the very script function the theorem is about (every generated case "
        "is checked to lie in the theorem's domain), run on the real code together with real bzip2-compressed variants (Python bz2 / "
        "zlib.crc32) and structured mutations; the SPEC's expected response is compared with the implementation's."),
  note=TB + "SPEC encoders are hand-written from the Valve Server Queries page; bzip2-rs/crc32fast are parameters (law as hypothesis in the theorem; oracle table from Python bz2 at check time); hypotheses of the whole-query theorem: well-formed state and exchange, every datagram at most 6144 bytes (the client's receive buffer), decompressed reply at most 4 MiB.",
  technique="Lean 4 proof (compositional decode∘encode = id per section; success logic over the socket queue for the whole query with challenge rounds and split replies) + SPEC-driven model/implementation correspondence"),
 "C17": dict(
  category="proof",
  text=("Lean 4 theorems over a model of buffer.rs and the Minecraft VarInt/string codecs: no operation history crashes or "
        "leaves the packet; fixed-width reads, cursor moves, terminated/unterminated string reads characterised exactly; "
        "the Unreal 2 string decoder as a reader operation (C17_unreal2_string_*: never a crash, position within the packet, advance = exactly the "
        "announced bytes, a failed read leaves the position); VarInt decode∘encode = id for all 2^32 values, injective, over-long rejected, at most five bytes; string round trip "
        "for all valid UTF-8. The model is tied to the code on every run by executing the same operation sequences on both "
        "(position and remaining length compared after every operation) and a reference oracle written from the property "
        "statement is evaluated on the implementation's outputs."),
  note=TB + "std's from_utf8/from_utf16 mirrored by Gd.validUtf8/Gd.utf16Decode (compared on every string read).",
  technique="Lean 4 proof (induction over operation histories, Decodes/Safe program logics) + model/implementation correspondence"),
}
