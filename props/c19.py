"""C19 — the CLI prints a well-formed, faithful document or a clean error (partial: the tool's own logic is proved,
the serialisers and the process are exercised by running the real binary)."""
import base64, json, os, random, re, socket, struct, subprocess, threading, time
import vlib, netcases
from props import netprops, cliplan, clibson
from props.c15 import tok as val_tokens

LEVEL = "other"
RULE = ("(1) PLAN: the real gamedig_cli binary built with the verification hook prints the plan of an invocation (game looked up, literal or resolved host, "
        "port, timeout and extra settings, output mode and format) instead of querying; generated invocations — every game id of the table, unknown ids "
        "(non-ASCII, blank, very long, not UTF-8), IPv4 / IPv6 literals in every notation and near-literals, host names that resolve and that do not, every "
        "typed flag at its boundary values, every presence pattern of the two flattened flag groups, every mode x format — go to the binary and to the model "
        "of main (driver entry `cli-plan`, Proto/CliPlan.lean) and must give the same plan or the same way out; oracle on the binary alone: exit rules of the "
        "property and the hand-over of every flag value. (2) MIRRORS: the model's IP-literal parser, hex / base64 codecs, JSON printer (compact, pretty) and JSON "
        "reader against std / hex / base64 / serde_json in the harness on generated and damaged inputs; the model's BSON serialiser and reader "
        "(`bson-enc` / `bson-dec`) against bson::to_vec / bson::RawDocument on every Rust integer type at its limits, u64 above i64::MAX, every kind of f64, empty / long / "
        "non-ASCII strings, odd keys and keys with NUL, nesting to depth 120, arrays of 0-2500 items, non-documents at the top, and on documents of an independent writer, "
        "whole and damaged. (3) WRITERS: the real binary's output_result_* on values "
        "of every shape (print hook): JSON / pretty JSON / XML byte for byte = the model's, BSON-hex / BSON-base64 decoded by the model's decoders = Python's, the "
        "BSON inside = the model's serialiser on the value byte for byte, and read by the model's BSON reader and by a Python walker = the value (maps whose only key "
        "is an extended-JSON marker included). (4) END TO END: the shipped binary (no hook) against in-process loopback UDP servers replaying SPEC-generated "
        "exchanges of Valve games (names, maps, rule keys and values with markup, control and non-ASCII characters; rule keys that are not "
        "XML names are injected) x 2 output modes x 6 formats; stdout must be one well-formed document: JSON read by Python AND by the model's reader and compared "
        "with the library's own response (obtained in-process through the harness on the same exchange), reprinted by the model's printer byte for byte; generic "
        "mode = the C15 accessor tables evaluated by the model on the protocol-specific value, byte for byte; XML compared byte for byte with the Lean "
        "model's rendering of that JSON value (and parsed), BSON (hex / base64) decoded by the model's decoders, read by the model's BSON reader and by an independent walker and compared with the "
        "library's response and with the JSON document of the same invocation; exit status 0. "
        "Invalid invocations of each kind (unknown game, unresolvable host, silent server, bad flag values) must exit non-zero with a message "
        "and no panic. Distinct = distinct outputs.")
ASSUMPTIONS = ["clap's tokenisation of argv, the system resolver, serde's derive output, serde_json / quick-xml / bson succeeding or failing, and the Debug text are parameters "
               "of the model (its theorems hold for all their behaviours); the per-value parsers of the flags, std's IpAddr parser and Display, hex, base64 and "
               "serde_json's two formatters are mirrored in Lean and compared with the real ones on every run",
               "the Debug format is only checked for being printed (it has no grammar to validate)",
               "BSON's binary layout (bson::to_vec) is modelled (Proto/CliBson.lean) and compared with the crate on every run; serde handing each field over in its "
               "Rust type (derive output) stays a parameter"]
TRUSTED = ["Lean model of main (Proto/CliPlan.lean), of the JSON documents and their reader (Proto/CliJson.lean), of hex / base64 (Proto/CliCodec.lean), of BSON's layout (Proto/CliBson.lean) and of the JSON→XML "
           "converter (Proto/Cli.lean); theorems in Props/C19.lean, C19_cli.lean, C19_bson.lean, C14_cli.lean, C18_cli.lean; tied to the binary by the plan hook, the print hook and "
           "byte-exact comparison of the documents"]

CLI_TARGET = os.path.join(vlib.WORK, "cli-target")
CLI = os.path.join(CLI_TARGET, "debug", "gamedig_cli")
# (valheim skips the rules, conanexiles the players, armareforger does not check the app id: games whose DEFINITION carries
# settings of its own — the CLI must issue the definition's query when no flag says otherwise)
GAMES = [("teamfortress2", "S:440", "ttT"), ("theforest", "S:242760:556450", "ttT"), ("sco", "G:0", "ttT"), ("valheim", "S:892970", "esT"),
         ("armareforger", "S:1874880", "eeF"), ("conanexiles", "S:440900", "seT")]
FORMATS = ["debug", "json", "json-pretty", "xml", "bson-hex", "bson-base64"]
MODES = ["generic", "protocol-specific"]


def build_cli():
    with vlib.Lock("cargo-cli"):
        rc, out = vlib.sh(["cargo", "build", "--offline", "-p", "gamedig_cli", "--target-dir", CLI_TARGET], cwd=vlib.REPO, timeout=1800)
        return rc == 0, out


class Server(threading.Thread):
    """UDP server answering the n-th request with the next bursts[n] datagrams (default: one each)"""

    def __init__(self, deliveries, bursts=None):
        super().__init__(daemon=True)
        self.sock = socket.socket(socket.AF_INET, socket.SOCK_DGRAM)
        self.sock.bind(("127.0.0.1", 0))
        self.sock.settimeout(0.05)
        self.port = self.sock.getsockname()[1]
        self.deliveries = list(deliveries)
        self.bursts = list(bursts) if bursts is not None else None
        self.stop = False
        self.seen = []   # the datagrams received, in order

    def run(self):
        i = 0
        while not self.stop:
            try:
                req, frm = self.sock.recvfrom(65536)
            except socket.timeout:
                continue
            except OSError:
                return
            self.seen.append(req)
            if self.bursts is None:
                if i < len(self.deliveries) and self.deliveries[i] is not None:
                    self.sock.sendto(self.deliveries[i], frm)
                i += 1
            else:
                n = self.bursts.pop(0) if self.bursts else 0
                for d in self.deliveries[i:i + n]:
                    if d is not None:
                        self.sock.sendto(d, frm)
                i += n

    def close(self):
        self.stop = True
        self.join(1)
        self.sock.close()


def run_cli(args, timeout=30):
    p = subprocess.run([CLI] + args, stdout=subprocess.PIPE, stderr=subprocess.PIPE, timeout=timeout)
    return p.returncode, p.stdout, p.stderr


NUM = re.compile(rb"-?(?:0|[1-9]\d*)(?:\.\d+)?(?:[eE][+-]?\d+)?")


def number_texts(doc):
    """map from parsed number (repr of python value) to the literal text serde_json printed, harvested from a JSON document"""
    out = {}
    i, n = 0, len(doc)
    while i < n:
        c = doc[i:i + 1]
        if c == b'"':
            i += 1
            while i < n and doc[i:i + 1] != b'"':
                i += 2 if doc[i:i + 1] == b"\\" else 1
            i += 1
        elif c in b"-0123456789":
            m = NUM.match(doc, i)
            text = m.group(0)
            out[num_key(json.loads(text))] = text
            i = m.end()
        else:
            i += 1
    return out


def num_key(v):
    if isinstance(v, float):
        try:
            return "f" + struct.pack("<f", v).hex()
        except OverflowError:
            return repr(v)
    return repr(v)


def jtokens(v, nums):
    if v is None:
        return ["N"]
    if v is True:
        return ["T"]
    if v is False:
        return ["F"]
    if isinstance(v, (int, float)):
        return ["#" + nums.get(num_key(v), repr(v).encode()).hex()]
    if isinstance(v, str):
        return ["S" + v.encode().hex()]
    if isinstance(v, list):
        out = [f"A{len(v)}"]
        for x in v:
            out += jtokens(x, nums)
        return out
    # member order: as in the document (the CLI's serde_json keeps insertion order: bson enables `preserve_order`)
    out = [f"O{len(v)}"]
    for k in v:
        out += [k.encode().hex() or "-"] + jtokens(v[k], nums)
    return out


XML_TOKEN = re.compile(rb"<\?xml[^>]*\?>|</([^\s>]+)>|<([^\s/>!?]+)((?:\s+[^\s=>/]+=\"[^\"<]*\")*)\s*(/?)>|([^<]+)")
XML_ATTR = re.compile(rb"([^\s=>/]+)=\"([^\"<]*)\"")
XML_REF = re.compile(r"&(#x[0-9A-Fa-f]+|#[0-9]+|amp|lt|gt|quot|apos);")


def xml_unescape(b):
    def ref(m):
        r = m.group(1)
        if r.startswith("#x"):
            return chr(int(r[2:], 16))
        if r.startswith("#"):
            return chr(int(r[1:]))
        return {"amp": "&", "lt": "<", "gt": ">", "quot": '"', "apos": "'"}[r]
    t = b.decode("utf-8")
    if "&" in XML_REF.sub("", t):
        raise ValueError("stray '&' in XML text")
    # XML 1.1 (the version the documents declare): C0 controls other than TAB / LF / CR and the C1 controls other than
    # NEL may only appear as character references; literal CR LF, CR NEL, CR, NEL and U+2028 are read as LF
    for ch in t:
        o = ord(ch)
        if (o < 0x20 and ch not in "\t\n\r") or 0x7F <= o <= 0x84 or 0x86 <= o <= 0x9F:
            raise ValueError(f"literal control character U+{o:04X} in an XML 1.1 document")
    t = re.sub("\r\n|\r\x85|\r|\x85|\u2028", "\n", t)
    t = XML_REF.sub(ref, t)
    # Char ::= [#x1-#xD7FF] | [#xE000-#xFFFD] | [#x10000-#x10FFFF], literally or by reference
    for ch in t:
        o = ord(ch)
        if o == 0 or 0xD800 <= o <= 0xDFFF or o in (0xFFFE, 0xFFFF):
            raise ValueError(f"U+{o:04X} is not an XML character")
    return t


def xml_leaves(doc):
    """Independent reader for the documents the CLI prints (written from the XML grammar, not from the converter):
    every leaf as (tuple of keys from the root, text or None for an empty element); raises on ill-nested input."""
    stack, leaves, text, had_child = [], [], [None], [False]
    pos = 0
    for m in XML_TOKEN.finditer(doc):
        if m.start() != pos:
            raise ValueError(f"unreadable XML at byte {pos}")
        pos = m.end()
        if m.group(1) is not None:  # end tag
            name, key = stack.pop()
            if name != m.group(1):
                raise ValueError(f"</{m.group(1)!r}> closes <{name!r}>")
            t, hc = text.pop(), had_child.pop()
            if not hc:
                leaves.append((tuple(k for _, k in stack[1:]) + (key,), t if t is not None else ""))
            elif t is not None and t.strip():
                raise ValueError("mixed content")
        elif m.group(2) is not None:  # start or empty tag
            attrs = dict((a.group(1), xml_unescape(a.group(2))) for a in XML_ATTR.finditer(m.group(3) or b""))
            name = m.group(2)
            key = attrs[b"key"] if (name == b"entry" and b"key" in attrs) else name.decode("utf-8")
            if had_child:
                had_child[-1] = True
            if m.group(4):
                leaves.append((tuple(k for _, k in stack[1:]) + (key,), None))
            else:
                stack.append((name, key)); text.append(None); had_child.append(False)
        elif m.group(5) is not None:
            if not stack:
                if m.group(5).strip():
                    raise ValueError("text outside the root")
            else:
                text[-1] = (text[-1] or "") + xml_unescape(m.group(5))
    if pos != len(doc) or stack:
        raise ValueError("document ends inside an element")
    return leaves


def xml_chars(text):
    """U+0000 and the noncharacters U+FFFE / U+FFFF are no XML characters (not even as references): a faithful rendering shows
    them as U+FFFD, in text and in the `key` attribute alike"""
    return text.replace("\0", "\ufffd").replace("\ufffe", "\ufffd").replace("\uffff", "\ufffd")


def json_leaves(v, nums, path=(), key=None):
    """the leaves a faithful XML rendering of the JSON value must have: object members under their key, array items
    under the array's key (`item` when it has none), null as an empty element, NUL shown as U+FFFD"""
    here = path + ((xml_chars(key),) if key is not None else ())
    if isinstance(v, dict):
        out = []
        for k in v:
            out += json_leaves(v[k], nums, here, k)
        if not out and key is not None:
            # no member (or only empty arrays, which leave nothing): an element without content
            out.append((here, ""))
        return out
    if isinstance(v, list):
        out = []
        for x in v:
            out += json_leaves(x, nums, path, key if key is not None else "item")
        return out
    if key is None:
        return []
    if v is None:
        return [(here, None)]
    if v is True or v is False:
        return [(here, "true" if v else "false")]
    if isinstance(v, (int, float)):
        return [(here, nums.get(num_key(v), repr(v).encode()).decode())]
    return [(here, xml_chars(v))]



CHILD = re.compile(rb"<[^/!?][^>]*/>|<([^/!?\s>]+)[^>]*>[^<]*</\1>")


def canon_rules(xml):
    """the rules come out of a HashMap in arbitrary order: sort the children of <rules>"""
    def fix(m):
        kids = [k.group(0) for k in CHILD.finditer(m.group(2))]
        if b"".join(kids) != m.group(2):
            return m.group(0)
        return m.group(1) + b"".join(sorted(kids)) + m.group(3)
    return re.sub(rb"(<rules>)(.*?)(</rules>)", fix, xml, flags=re.S)


def canon_xml(doc):
    """maps come out of HashMaps in an order that changes from run to run: siblings sorted by (element name, key attribute),
    stably, so that the items of an array (same name, same key) keep their order; unreadable input is returned as it is"""
    try:
        root, stack = [], []
        cur = root
        for m in XML_TOKEN.finditer(doc):
            if m.group(1) is not None:
                cur = stack.pop()
            elif m.group(2) is not None:
                node = [m.group(2), m.group(3) or b"", [], bool(m.group(4))]
                cur.append(node)
                if not m.group(4):
                    stack.append(cur)
                    cur = node[2]
            elif m.group(5) is not None:
                cur.append(m.group(5))
            else:
                cur.append(m.group(0))
        if stack:
            return doc

        def emit(items):
            kids = sorted((x for x in items if isinstance(x, list)), key=lambda n: (n[0], n[1]))
            it = iter(kids)
            out = []
            for x in items:
                if isinstance(x, list):
                    n = next(it)
                    out.append(b"<" + n[0] + n[1] + (b"/>" if n[3] else b">" + emit(n[2]) + b"</" + n[0] + b">"))
                else:
                    out.append(x)
            return b"".join(out)
        return emit(root)
    except (IndexError, StopIteration):
        return doc


def bson_decode(b):
    """minimal BSON reader: document -> python dict (arrays as lists)"""
    def doc(off, as_list=False):
        size = struct.unpack_from("<i", b, off)[0]
        end = off + size
        off += 4
        items = []
        while b[off] != 0:
            t = b[off]
            off += 1
            e = b.index(b"\0", off)
            key = b[off:e].decode()
            off = e + 1
            if t == 0x01:
                val = struct.unpack_from("<d", b, off)[0]; off += 8
            elif t == 0x02:
                ln = struct.unpack_from("<i", b, off)[0]; val = b[off + 4:off + 4 + ln - 1].decode(); off += 4 + ln
            elif t == 0x03:
                val, off = doc(off)
            elif t == 0x04:
                val, off = doc(off, True)
            elif t == 0x08:
                val = b[off] == 1; off += 1
            elif t == 0x0A:
                val = None
            elif t == 0x10:
                val = struct.unpack_from("<i", b, off)[0]; off += 4
            elif t == 0x12:
                val = struct.unpack_from("<q", b, off)[0]; off += 8
            else:
                raise ValueError(f"unsupported BSON element type {t:#x}")
            items.append((key, val))
        assert off + 1 == end, "document size mismatch"
        return ([v for _, v in items] if as_list else dict(items)), end
    v, end = doc(0)
    assert end == len(b), "trailing bytes after the BSON document"
    return v


def same_values(a, b):
    """JSON-level equality, numbers compared as numbers"""
    if isinstance(a, dict) and isinstance(b, dict):
        return a.keys() == b.keys() and all(same_values(a[k], b[k]) for k in a)
    if isinstance(a, list) and isinstance(b, list):
        return len(a) == len(b) and all(same_values(x, y) for x, y in zip(a, b))
    import math
    # serde_json prints NaN / infinite floats as null
    if a is None and isinstance(b, float) and not math.isfinite(b):
        return True
    if b is None and isinstance(a, float) and not math.isfinite(a):
        return True
    if isinstance(a, bool) or isinstance(b, bool) or a is None or b is None or isinstance(a, str) or isinstance(b, str):
        return a == b and type(a) == type(b)
    if isinstance(a, float) or isinstance(b, float):
        # f32 fields reach JSON either as the shortest f32 text or as the widened f64: equal as f32
        try:
            return struct.pack("<f", float(a)) == struct.pack("<f", float(b)) or float(a) == float(b)
        except OverflowError:
            return float(a) == float(b)
    return a == b


class Original:
    """the protocol-specific response as `as_original()` wraps it: the value inside one single-member object per enum variant
    (`{"Valve": …}`, `{"GameSpy": {"One": …}}`)"""

    def __init__(self, value):
        self.value = value


def holds(doc, expected):
    """does the document hold the expected values? (`Original`: inside its variant wrappers, at least one)"""
    if not isinstance(expected, Original):
        return same_values(doc, expected)
    depth = 0
    while isinstance(doc, dict) and len(doc) == 1 and depth < 3:
        (k, inner), = doc.items()
        if not (k[:1].isupper() and isinstance(inner, dict)):
            break
        doc, depth = inner, depth + 1
        if same_values(doc, expected.value):
            return True
    return False


# other protocol families over loopback UDP: definitions-table protocol -> (family, (argument index, value) selecting the variant)
UDP_FAMILIES = {
    "quake1": ("quake", (1, "1")), "quake2": ("quake", (1, "2")), "quake3": ("quake", (1, "3")), "gs1": ("gs1", None), "gs2": ("gs2", None),
    "gs3": ("gs3", None), "unreal2": ("unreal2", None), "prop:FFOW": ("ffow", None), "prop:Savage2": ("savage2", None),
    "prop:TheShip": ("theship", None), "prop:JC2M": ("jc2m", None), "prop:Minecraft(Some(Server::Bedrock))": ("mcbedrock", None),
}


def other_family_jobs(rep, tier, seed):
    """(game id, case id, case, harness line) for one game of every other protocol family that answers over one UDP socket"""
    tables = json.load(open(os.path.join(vlib.WORK, "games.json")))
    out = []
    for proto, (fam, variant) in UDP_FAMILIES.items():
        if fam not in netprops.FAMILIES:
            continue
        gid = next((d["id"] for d in tables["defs"] if d["proto"] == proto), None)
        if gid is None:
            continue
        picked = 0
        for v in netprops.valid_cases(fam, seed + 19, 60 if tier == "quick" else 400):
            c = v.case()
            if v.notwf or not v.want.startswith("OK") or (variant and c.args[variant[0]] != variant[1]):
                continue
            if len(c.script) != 1 or c.script[0] == "X" or any(d is None for d in c.script[0]) or any(o.startswith("f=") for o in c.opts):
                continue  # one socket, no silence, no injected send fault: an exchange the tool can repeat without retries
            extra = []
            if fam == "unreal2":
                # the case names its gathering settings (mutators-and-rules, then players): the same through the tool's flags
                word = {"s": "skip", "t": "try", "e": "enforce"}
                g = c.args[netprops.FAMILIES[fam]["gather"]]
                extra = ["--gather-rules", word[g[0]], "--gather-players", word[g[1]]]
            out.append((gid, f"{fam}{picked}", c, c.line(f"{fam}{picked}{gid}"), extra))
            rep.count("family:" + fam)
            picked += 1
            if picked >= (1 if tier == "quick" else 6):
                break
    return out


def inject_rule_keys(case, valid, rnd):
    """replace the A2S_RULES reply by one whose keys are not XML names / contain markup and control characters"""
    seg = valid.seg()
    if seg[2] == 0:
        return None
    rules = [(b"sv tags", b"a,b"), (b"1v1", b"<on>"), (b"<x>", b"&amp;"), (b"k\x01", b"v\x02\x7f"), (b"a.b-c_d", b"ok"), ("é€".encode(), "😀".encode()), (b"", b"empty key")]
    rnd.shuffle(rules)
    rules = rules[: rnd.randrange(2, len(rules) + 1)]
    body = len(rules).to_bytes(2, "little") + b"".join(k + b"\0" + v + b"\0" for k, v in rules)
    c = case.clone()
    c.script[0] = c.script[0][:seg[0] + seg[1]] + [b"\xff\xff\xff\xff\x45" + body]
    return c



def untok(toks):
    """tokens of the driver's `json-read` -> python value (numbers through json.loads of their text)"""
    it = iter(toks)

    def val():
        t = next(it)
        if t == "N":
            return None
        if t in ("T", "F"):
            return t == "T"
        if t.startswith("#"):
            return json.loads(bytes.fromhex(t[1:]))
        if t.startswith("S"):
            return bytes.fromhex(t[1:]).decode("utf-8")
        n = int(t[1:])
        if t.startswith("A"):
            return [val() for _ in range(n)]
        out = {}
        for _ in range(n):
            k = next(it)
            out["" if k == "-" else bytes.fromhex(k).decode("utf-8")] = val()
        return out
    v = val()
    if next(it, None) is not None:
        raise ValueError("trailing tokens")
    return v


def value_tokens(v):
    """python value -> tokens, numbers as serde_json prints them (ints in decimal, floats by their shortest text)"""
    if v is None:
        return ["N"]
    if v is True or v is False:
        return ["T" if v else "F"]
    if isinstance(v, (int, float)):
        return ["#" + repr(v).encode().hex()]
    if isinstance(v, str):
        return ["S" + v.encode().hex()]
    if isinstance(v, list):
        out = [f"A{len(v)}"]
        for x in v:
            out += value_tokens(x)
        return out
    out = [f"O{len(v)}"]
    for k, x in v.items():
        out += [k.encode().hex() or "-"] + value_tokens(x)
    return out


def hook_tree(rnd, depth=0):
    """a value every output format can hold (BSON: integers within i64)"""
    k = rnd.randrange(9 if depth < 4 else 5)
    if k == 0:
        return None
    if k == 1:
        return rnd.choice([True, False])
    if k == 2:
        return rnd.choice([0, -1, 1, 255, 2 ** 31 - 1, 2 ** 31, -2 ** 31 - 1, 2 ** 53, 2 ** 63 - 1, -2 ** 63, 0.5, -2.25, 1234.5, 1.5e300])
    if k in (3, 4):
        return cliplan.rand_text(rnd)
    if k in (5, 6):
        return [hook_tree(rnd, depth + 1) for _ in range(rnd.choice([0, 1, 2, 3]))]
    return {cliplan.rand_text(rnd, 5): hook_tree(rnd, depth + 1) for _ in range(rnd.choice([0, 1, 2, 3]))}


def run_hook_print(fmt, text):
    p = subprocess.run([cliplan.HOOK_CLI, "query", "-g", "x", "-i", "x", "-f", fmt], input=text, stdout=subprocess.PIPE, stderr=subprocess.PIPE,
                       timeout=60, env=dict(os.environ, GAMEDIG_VERIF_PRINT="1"))
    return p.returncode, p.stdout, p.stderr


def hook_documents(rep, tier, seed):
    """the WRITERS of the real binary (`output_result_*`, reached through the verification hook) on values of every shape — strings
    over the whole of Unicode, control characters, quotes, keys of every kind, documents of every length modulo 3 — against the
    model: JSON / pretty JSON / XML byte for byte, BSON-hex / BSON-base64 decoded by the model's decoders (and by Python's)"""
    ok, log = cliplan.build_hook_cli()
    if not ok:
        rep.tie_failures.append("the CLI does not build with the verification hook: " + log[-800:])
        return
    rnd = random.Random(seed + 1900)
    values = [{}, {"a": 1}, {"": ""}] + [{"k": "x" * n} for n in range(0, 7)] + [{"s": "".join(cliplan.TEXT_ALPHABET)}]
    # maps whose keys are extended-JSON markers (a server may name a rule so): they are maps in every format
    values += [{"rules": {"$numberLong": "7"}}, {"rules": {"$symbol": "x"}}, {"name": "a", "rules": {"$oid": "0123456789abcdef01234567"}}, {"$symbol": "x"},
               {"r": {"$numberInt": "5"}}, {"r": {"$numberDouble": "NaN"}}, {"r": {"$code": "x"}}, {"r": {"$undefined": True}}, {"r": {"$minKey": 1}},
               {"r": {"$regularExpression": {"pattern": "a", "options": "i"}}}, {"r": {"$date": {"$numberLong": "0"}}}, {"r": {"$binary": {"base64": "", "subType": "00"}}},
               {"r": {"$timestamp": {"t": 1, "i": 2}}}, {"r": {"$uuid": "00112233-4455-6677-8899-aabbccddeeff"}}]
    values += [{cliplan.rand_text(rnd, 5): hook_tree(rnd, 1) for _ in range(rnd.choice([1, 2, 3, 4]))} for _ in range(40 if tier == "quick" else 1500)]
    values += [hook_tree(rnd) for _ in range(20 if tier == "quick" else 400)]
    cases, meta = [], {}
    for n, v in enumerate(values):
        # NUL cannot be written into a BSON key (cstring); the binary reports that as an error, which is right
        text = json.dumps(v, ensure_ascii=False).encode("utf-8")
        toks = value_tokens(v)
        is_doc = isinstance(v, dict)
        for fmt in FORMATS[1:]:
            if fmt.startswith("bson") and not is_doc:
                continue  # `panic!("… BSON_DOCUMENT_UNAVAILABLE")` by design; a response is always a struct or a map
            rc, out, err = run_hook_print(fmt, text)
            key = f"hook:{n}:{fmt}"
            rep.seen(key, out[:200].decode("utf-8", "replace"))
            rep.count("hook-format:" + fmt)
            desc = f"{key} GAMEDIG_VERIF_PRINT=1 gamedig_cli query -g x -i x -f {fmt} <<< {text[:600]!r}"
            if b"panicked at" in err or rc == 101:
                rep.oracle_failures.append(("cli-writer-panic:" + fmt, f"panic: {err[-300:]!r}", desc, ""))
                continue
            if rc != 0:
                if fmt.startswith("bson") and b"Bson" in err and has_nul_key(v):
                    continue
                rep.oracle_failures.append((f"cli-writer-error:{fmt}", f"exit {rc}, stderr {err[-200:]!r}", desc, ""))
                continue
            doc = out[:-1] if out.endswith(b"\n") else out
            cid = f"w{len(cases)}"
            if fmt == "json":
                cases.append(" ".join([cid, "json-print", "c"] + toks)); meta[cid] = ("eq", doc, desc)
            elif fmt == "json-pretty":
                cases.append(" ".join([cid, "json-print", "p"] + toks)); meta[cid] = ("eq", doc, desc)
            elif fmt == "xml":
                cases.append(" ".join([cid, "xml-of"] + toks)); meta[cid] = ("eq", doc, desc)
                try:
                    xml_leaves(doc)
                    if b"&#x" not in doc:
                        import xml.parsers.expat
                        xml.parsers.expat.ParserCreate().Parse(doc.replace(b'version="1.1"', b'version="1.0"'), True)
                except Exception as e:
                    rep.oracle_failures.append(("cli-xml-not-wellformed", f"{type(e).__name__}: {e}; {doc[:160]!r}", desc, ""))
            else:
                entry, raw = ("hex-dec", None) if fmt == "bson-hex" else ("b64-dec", None)
                try:
                    raw = bytes.fromhex(doc.decode()) if fmt == "bson-hex" else base64.b64decode(doc, validate=True)
                except ValueError as e:
                    rep.oracle_failures.append((f"cli-malformed:{fmt}", f"{e}; stdout {doc[:120]!r}", desc, ""))
                    continue
                cases.append(f"{cid} {entry} {doc.hex() or '-'}"); meta[cid] = ("dec", raw, desc)
                # and back: the model's encoder on the decoded bytes gives the printed text
                cid2 = f"w{len(cases)}"
                cases.append(f"{cid2} {'hex-enc' if fmt == 'bson-hex' else 'b64-enc'} {raw.hex() or '-'}"); meta[cid2] = ("text", doc, desc)
                try:
                    if not same_values(bson_decode(raw), v):
                        rep.oracle_failures.append((f"cli-bson-unfaithful:hook", "BSON differs from the value", desc, ""))
                except Exception as e:
                    rep.oracle_failures.append((f"cli-malformed:{fmt}", f"{type(e).__name__}: {e}", desc, ""))
                # the layout: the MODEL's BSON reader on the bytes gives the value, and the model's serialiser on the value (numbers
                # in the Rust types serde_json hands over: u64 / i64 / f64) gives the bytes
                cid3 = f"w{len(cases)}"
                cases.append(f"{cid3} bson-dec {raw.hex() or '-'}"); meta[cid3] = ("bson-values", v, desc)
                cid4 = f"w{len(cases)}"
                cases.append(" ".join([cid4, "bson-enc"] + serde_json_tokens(v))); meta[cid4] = ("bson-bytes", raw, desc)
    model = vlib.run_model(cases)
    for c in cases:
        cid = c.split(" ", 1)[0]
        kind, want, desc = meta[cid]
        got = model.get(cid, "<no output>")
        rep.count("hook-compared")
        if kind == "eq":
            good = got == (want.hex() or "-")
        elif kind == "bson-values":
            try:
                good = same_values(clibson.untok(got.split(" ")), want)
            except (ValueError, StopIteration, UnicodeDecodeError, IndexError):
                good = False
            want = json.dumps(want, ensure_ascii=True).encode()
        elif kind == "bson-bytes":
            good = got == "OK " + (want.hex() or "-")
        elif kind == "dec":
            good = got == "OK " + (want.hex() or "-")
        else:
            good = got == (want.decode("latin-1") or "-")
        if not good:
            rep.divergences.append((c[:2000], got[:600], (want.hex() if kind != "text" else want.decode("latin-1"))[:600], "writer of the real binary differs from the model; " + desc[:400]))


def serde_json_tokens(v):
    """a JSON value as `serde_json::Value` hands it to a serialiser: integers ≥ 0 as u64, below 0 as i64, the others as f64"""
    if v is None:
        return ["N"]
    if v is True or v is False:
        return ["T" if v else "F"]
    if isinstance(v, int):
        return [f"Iu64:{v}" if v >= 0 else f"Ii64:{v}"]
    if isinstance(v, float):
        return ["D" + struct.pack(">d", v).hex()]
    if isinstance(v, str):
        return ["S" + v.encode().hex()]
    if isinstance(v, list):
        out = [f"A{len(v)}"]
        for x in v:
            out += serde_json_tokens(x)
        return out
    out = [f"O{len(v)}"]
    for k, x in v.items():
        out += [k.encode().hex() or "-"] + serde_json_tokens(x)
    return out


def has_nul_key(v):
    if isinstance(v, dict):
        return any("\0" in k or has_nul_key(x) for k, x in v.items())
    if isinstance(v, list):
        return any(has_nul_key(x) for x in v)
    return False


def run(rep, tier, seed, replay=None):
    if replay is not None:
        # case lines of the plan / codec stages are re-run as they are; anything else (a description of a document case) means
        # the whole run
        cliplan.run(rep, [l for l in replay if cliplan.is_plan(l)])
        cliplan.run_codec(rep, [l for l in replay if cliplan.is_codec(l)], tag="c19codec")
        if all(cliplan.is_plan(l) or cliplan.is_codec(l) for l in replay):
            return
    rnd = random.Random(seed)
    # the plan of an invocation: real binary (plan hook) against the model of main, and the exit rules on every invalid invocation
    cliplan.run(rep, [l for l in netprops.corpus("C19") if cliplan.is_plan(l)])
    cliplan.run(rep, cliplan.gen(seed + 19, tier))
    # the mirrors the model's documents are made of, against the crates / std themselves
    cliplan.run_codec(rep, [l for l in netprops.corpus("C19") if cliplan.is_codec(l)] + cliplan.codec_cases(seed + 19, tier) + clibson.cases(seed + 19, tier),
                      tag="c19codec")
    # the writers of the real binary on values of every shape
    hook_documents(rep, tier, seed)
    ok, log = build_cli()
    if not ok:
        rep.tie_failures.append("the CLI does not build: " + log[-800:])
        return
    per = 2 if tier == "quick" else 12
    jobs = []
    for gid, eng, gather in GAMES:
        raws = vlib.model_gen("valvefor", seed + 19, per * 6, extra=[eng, gather])
        picked = 0
        for raw in raws:
            v = netprops.Valid(raw, "valve")
            c = v.case()
            if v.notwf or not v.want.startswith("OK") or any(d is not None and d[:4] == b"\xfe\xff\xff\xff" for d in c.script[0]):
                continue
            variants = [c]
            inj = inject_rule_keys(c, v, rnd)
            if inj is not None:
                variants.append(inj)
            for k, cc in enumerate(variants):
                jobs.append((gid, f"{v.id}{'i' if k else ''}", cc))
            picked += 1
            if picked >= per:
                break
    # one LARGE reply per game: the rules of the first exchange replaced by ~2500 rules sent as an uncompressed Source split
    # (the documents then exceed 64 KiB: block-wise encoders, buffers and line handling of the output formats see more than one block)
    def big_rules_variant(c, v):
        seg = v.seg()
        ch = [int(x) for x in v.tags["CH"].split(",")]
        if seg[2] == 0 or not c.args[1].startswith("S:") or c.args[1] == "S:240":
            return None
        ds = c.script[0]
        start = seg[0] + seg[1]
        n = 2500
        payload = b"\xff\xff\xff\xffE" + n.to_bytes(2, "little") + b"".join(
            f"sv_rule_{k:05d}".encode() + b"\0" + f"value of rule {k} \u00e9\u20ac".encode() + b"\0" for k in range(n))
        chunks = [payload[i:i + 1200] for i in range(0, len(payload), 1200)]
        if len(chunks) > 255:
            return None
        frags = [b"\xfe\xff\xff\xff" + (77).to_bytes(4, "little") + bytes([len(chunks), i]) + (1248).to_bytes(2, "little") + ch_
                 for i, ch_ in enumerate(chunks)]
        c2 = c.clone()
        c2.script[0] = ds[:start + ch[2]] + frags + ds[start + seg[2]:]
        return c2

    big = []
    for gid, eng, gather in GAMES[:2]:
        for raw in vlib.model_gen("valvefor", seed + 19, per * 6, extra=[eng, gather]):
            v = netprops.Valid(raw, "valve")
            c = v.case()
            if v.notwf or not v.want.startswith("OK") or any(d is not None and d[:4] == b"\xfe\xff\xff\xff" for d in c.script[0]):
                continue
            c2 = big_rules_variant(c, v)
            if c2 is not None:
                big.append((gid, f"{v.id}big", c2))
                break
    jobs += big
    # the library's own response for each exchange (in-process, scripted transport)
    jobs = [(gid, cid, c, f"{cid}{gid} valve {c.args[0]} {c.args[1]} {c.args[2]} 0 {c.fmt_script()}", []) for gid, cid, c in jobs]
    jobs += other_family_jobs(rep, tier, seed)
    lib_lines = [j[3] for j in jobs]
    lib_out, _ = vlib.run_impl(lib_lines, tag="c19")
    xml_cases, xml_meta = [], {}
    dec_cases, dec_meta = [], {}

    def decode_with_model(kind, entry_args, want, desc):
        did = f"d{len(dec_cases)}"
        dec_cases.append(" ".join([did] + entry_args))
        dec_meta[did] = (kind, want, desc)

    for gid, cid, c, line, cli_extra in jobs:
        lib_line = lib_out.get(line.split(" ", 1)[0], "")
        dump = vlib.view_of(lib_line)
        if dump is None:
            continue
        dump_raw = bytes.fromhex(lib_line[lib_line.rfind(" ;; V") + 5:])
        expected = {"generic": dump["json"], "protocol-specific": {"Valve": dump["self"]} if line.split(" ")[1] == "valve" else Original(dump["self"])}
        srv_deliveries = list(c.script[0])
        # how many datagrams answer each request: read off the library's own transport trace of the same exchange
        bursts = []
        for e in vlib.trace_of(lib_line):
            if e.startswith("S"):
                bursts.append(0)
            elif e.startswith("R") and not e.endswith(":T") and bursts:
                bursts[-1] += 1
        json_docs = {}
        for mode in MODES:
            for fmt in FORMATS:
                srv = Server(srv_deliveries, bursts)
                srv.start()
                try:
                    rc, out, err = run_cli(["query", "-g", gid, "-i", "127.0.0.1", "-p", str(srv.port), "-f", fmt, "-o", mode, "--read-timeout", "2"] + cli_extra)
                finally:
                    srv.close()
                key = f"{cid}:{gid}:{mode}:{fmt}"
                # the CLI issues the query the library issues for this game (same requests in the same order): whatever it adds
                # to or leaves out of the settings shows on the wire
                lib_sent = [d for (_, _, d, failed) in vlib.sends_of(lib_line) if not failed]
                if [x.hex() for x in srv.seen] != lib_sent:
                    rep.oracle_failures.append((f"cli-other-query:{gid}", f"the CLI sent {[x.hex()[:24] for x in srv.seen]}, the library's query of this game sends {[x[:24] for x in lib_sent]}",
                                                f"{key} gamedig_cli query -g {gid} -f {fmt} -o {mode}  script={c.fmt_script()[:600]}", ""))
                rep.seen(key, out[:200].decode("utf-8", "replace"))
                rep.count("format:" + fmt)
                case_desc = f"{key} gamedig_cli query -g {gid} -f {fmt} -o {mode} {' '.join(cli_extra)} script={c.fmt_script()[:600]}"
                if b"panicked at" in err:
                    rep.oracle_failures.append(("cli-panic:" + fmt, f"panic: {err[-300:]!r}", case_desc, ""))
                    continue
                if rc != 0 and b"Bson" in err and b"panicked" not in err and fmt.startswith("bson"):
                    # BSON has no unsigned 64-bit integer: a u64 above i64::MAX cannot be written (known finding)
                    rep.oracle_failures.append((f"cli-bson-unrepresentable:{mode}", f"exit {rc}, stderr {err[-160:]!r}", case_desc, ""))
                    continue
                if rc != 0 or not out.strip():
                    rep.oracle_failures.append((f"cli-no-document:{fmt}:{mode}", f"exit {rc}, stdout {out[:80]!r}, stderr {err[-200:]!r}", case_desc, ""))
                    continue
                try:
                    if fmt in ("json", "json-pretty"):
                        doc = json.loads(out)
                        json_docs[mode] = out
                        if not holds(doc, expected[mode]):
                            rep.oracle_failures.append((f"cli-json-unfaithful:{mode}", f"JSON differs from the library's response: {out[:200]!r}", case_desc, ""))
                        # the same through the MODEL's reader (the decoder of the C19_cli theorems): what it reads holds the library's
                        # values, and the model's printer gives the document back byte for byte
                        text = out[:-1] if out.endswith(b"\n") else out
                        decode_with_model("json-values", ["json-read", text.hex() or "-"], (expected[mode], text, "c" if fmt == "json" else "p"), case_desc)
                        if mode == "generic":
                            # generic mode prints exactly the common view: the generated accessor tables (C15) evaluated by the model on
                            # the protocol-specific value, through the model's printer
                            decode_with_model("eq", ["cli-doc", "g", fmt, dump["file"], dump["type"], dump["pfile"] or "-", dump["ptype"] or "-", "-"] + val_tokens(dump["self"]),
                                              text, case_desc)
                    elif fmt in ("bson-hex", "bson-base64"):
                        raw = bytes.fromhex(out.strip().decode()) if fmt == "bson-hex" else base64.b64decode(out.strip(), validate=True)
                        text = out.strip()
                        decode_with_model("dec", ["hex-dec" if fmt == "bson-hex" else "b64-dec", text.hex() or "-"], raw, case_desc)
                        decode_with_model("text", ["hex-enc" if fmt == "bson-hex" else "b64-enc", raw.hex() or "-"], text, case_desc)
                        doc = bson_decode(raw)
                        if not holds(doc, expected[mode]):
                            rep.oracle_failures.append((f"cli-bson-unfaithful:{mode}", f"BSON differs from the library's response", case_desc, ""))
                        # the same through the MODEL's BSON reader (the decoder of the C19_bson theorems): what it reads holds the
                        # library's values and equals the JSON document of the same invocation
                        decode_with_model("bson-values", ["bson-dec", raw.hex() or "-"], (expected[mode], json_docs.get(mode)), case_desc)
                    elif fmt == "xml":
                        if mode in json_docs:
                            # the converter works on serde_json::to_value(result): number texts as Value prints them
                            nums = number_texts(dump_raw)
                            xid = f"x{len(xml_cases)}"
                            # structure and member order from the CLI's own JSON document, number texts as Value prints them
                            xml_cases.append(" ".join([xid, "xml-of"] + jtokens(json.loads(json_docs[mode]), nums)))
                            xml_meta[xid] = (out.rstrip(b"\n"), case_desc)
                            # faithfulness, independently of the model: the leaves read back from the XML document are
                            # the leaves of the JSON document (which was compared with the library's response above)
                            rep.count("xml-read-back")
                            want_leaves = sorted(json_leaves(json.loads(json_docs[mode]), nums, (), None), key=repr)
                            try:
                                got_leaves = sorted(xml_leaves(out.strip()), key=repr)
                                if got_leaves != want_leaves:
                                    diff = [x for x in got_leaves if x not in want_leaves][:2] + [x for x in want_leaves if x not in got_leaves][:2]
                                    rep.oracle_failures.append((f"cli-xml-unfaithful:{mode}", f"values read back from the XML differ from the JSON document: {diff!r}"[:400], case_desc, ""))
                            except (ValueError, KeyError, IndexError, UnicodeDecodeError) as e:
                                rep.oracle_failures.append(("cli-xml-not-wellformed", f"reader: {e}; {out[:160]!r}", case_desc, ""))
                except Exception as e:  # a document that cannot even be read back
                    rep.oracle_failures.append((f"cli-malformed:{fmt}", f"{type(e).__name__}: {e}; stdout {out[:120]!r}", case_desc, ""))
    dmodel = vlib.run_model(dec_cases)
    reprint = []
    for dc in dec_cases:
        did = dc.split(" ", 1)[0]
        kind, want, desc = dec_meta[did]
        got = dmodel.get(did, "<no output>")
        rep.count("model-decoded:" + dc.split(" ")[1])
        if kind == "json-values":
            expected_value, text, style = want
            try:
                value = untok(got.split(" "))
            except (ValueError, StopIteration, UnicodeDecodeError):
                rep.divergences.append((dc[:2000], got[:300], text[:300].decode("utf-8", "replace"), "the model's JSON reader does not read the document the CLI printed; " + desc[:300]))
                continue
            if not holds(value, expected_value):
                rep.oracle_failures.append(("cli-json-unfaithful:model-reader", "the values the model's reader finds in the document differ from the library's response", desc, ""))
            rid = f"r{len(reprint)}"
            reprint.append((f"{rid} json-print {style} {got}", text, desc))
        elif kind == "bson-values":
            expected_value, json_doc = want
            try:
                value = clibson.untok(got.split(" "))
            except (ValueError, StopIteration, UnicodeDecodeError, IndexError):
                rep.divergences.append((dc[:2000], got[:300], "a document", "the model's BSON reader does not read the document the CLI printed; " + desc[:300]))
                continue
            if not holds(value, expected_value):
                rep.oracle_failures.append(("cli-bson-unfaithful:model-reader", "the values the model's BSON reader finds in the document differ from the library's response", desc, ""))
            if json_doc is not None and not same_values(value, json.loads(json_doc)):
                rep.oracle_failures.append(("cli-bson-differs-from-json", "the BSON document (read by the model) and the JSON document of the same invocation hold different values", desc, ""))
        else:
            good = got == ((want.hex() or "-") if kind == "eq" else ("OK " + (want.hex() or "-")) if kind == "dec" else (want.decode("latin-1") or "-"))
            if not good:
                rep.divergences.append((dc[:2000], got[:600], (want.decode("latin-1") if kind == "text" else want.hex())[:600], "document of the real binary differs from the model's; " + desc[:300]))
    rmodel = vlib.run_model([r[0] for r in reprint])
    for line, text, desc in reprint:
        got = rmodel.get(line.split(" ", 1)[0], "<no output>")
        rep.count("model-reprinted")
        if got != (text.hex() or "-"):
            rep.divergences.append((line[:2000], got[:600], text.hex()[:600], "the model's JSON printer does not reproduce the CLI's document from its value; " + desc[:300]))
    model = vlib.run_model(xml_cases)
    for xc in xml_cases:
        xid = xc.split(" ", 1)[0]
        got, desc = xml_meta[xid]
        want = model.get(xid, "")
        rep.count("xml-compared")
        want_b = bytes.fromhex(want) if re.fullmatch(r"(?:[0-9a-f]{2})*", want) else None
        if want_b is None or canon_xml(want_b) != canon_xml(got):
            rep.divergences.append((xc[:2000], bytes.fromhex(want).decode("utf-8", "replace")[:600] if re.fullmatch(r"[0-9a-f]*", want) else want,
                                    got.decode("utf-8", "replace")[:600], "CLI XML differs from the model's rendering of the same JSON value; " + desc[:300]))
        # second opinion where XML 1.0 and 1.1 agree: parse with expat
        if b"&#x" not in got:
            import xml.parsers.expat
            try:
                xml.parsers.expat.ParserCreate().Parse(got.replace(b'version="1.1"', b'version="1.0"'), True)
            except xml.parsers.expat.ExpatError as e:
                rep.oracle_failures.append(("cli-xml-not-wellformed", f"expat: {e}; {got[:200]!r}", desc, ""))
    # invalid invocations of each kind
    silent = Server([])
    silent.start()
    bad = [
        ("unknown-game", ["query", "-g", "nosuchgame", "-i", "127.0.0.1"]),
        ("unresolvable-host", ["query", "-g", "teamfortress2", "-i", "no-such-host.invalid"]),
        ("silent-server", ["query", "-g", "teamfortress2", "-i", "127.0.0.1", "-p", str(silent.port), "--read-timeout", "1"]),
        ("zero-timeout", ["query", "-g", "teamfortress2", "-i", "127.0.0.1", "--read-timeout", "0"]),
        ("bad-port", ["query", "-g", "teamfortress2", "-i", "127.0.0.1", "-p", "99999"]),
        ("nan-timeout", ["query", "-g", "teamfortress2", "-i", "127.0.0.1", "--read-timeout", "nan"]),
        ("inf-timeout", ["query", "-g", "teamfortress2", "-i", "127.0.0.1", "--connect-timeout", "inf"]),
        ("huge-timeout", ["query", "-g", "teamfortress2", "-i", "127.0.0.1", "--write-timeout", "1e30"]),
        ("overflow-timeout", ["query", "-g", "teamfortress2", "-i", "127.0.0.1", "--read-timeout", "18446744073709551616"]),
        ("negative-timeout", ["query", "-g", "teamfortress2", "-i", "127.0.0.1", "--read-timeout", "-1"]),
        ("empty-timeout", ["query", "-g", "teamfortress2", "-i", "127.0.0.1", "--read-timeout", ""]),
        ("bad-format", ["query", "-g", "teamfortress2", "-i", "127.0.0.1", "-f", "yaml"]),
        ("bad-retries", ["query", "-g", "teamfortress2", "-i", "127.0.0.1", "--retries", "-1"]),
        ("missing-game", ["query", "-i", "127.0.0.1"]),
    ]
    # unknown game names of every shape (text a user can type: empty, blank, case variants, near misses of real names,
    # multi-byte characters at every byte offset, very long): a clean "unknown game" error for each
    known = set(re.findall(r'"([a-z0-9]+)"\s*=>\s*game!\(', open(os.path.join(vlib.REPO, "crates/lib/src/games/definitions.rs")).read()))
    rnd_u = random.Random(seed + 1919)
    alphabet = ["a", "q", "3", "Z", "-", "_", " ", "é", "ä", "ñ", "Ö", "€", "日", "😀", "\u0301", "ß", "İ"]
    unknown = ["", " ", "  x  ", "NOSUCHGAME", "teamfortress", "teamfortress22", "csg", "q3", "a" * 5000, "😀" * 700]
    for head in ["", "a", "ab", "abc", "abcd", "é", "aé", "abé", "日", "a日", "q3ä", "cs€", "a😀", "ab😀", "abc😀", "ñé", "CSÖ", "İİ"]:
        unknown.append(head + "".join(rnd_u.choice(alphabet) for _ in range(rnd_u.randrange(0, 6))))
    for _ in range(20 if tier == "quick" else 300):
        unknown.append("".join(rnd_u.choice(alphabet) for _ in range(rnd_u.randrange(1, 9))))
    for i, g in enumerate(unknown):
        if g in known or g.strip().lower() in known:
            continue
        bad.append((f"unknown-game-{i}", ["query", "-g", g, "-i", "127.0.0.1"]))
    for name, args in bad:
        try:
            rc, out, err = run_cli(args, timeout=60)
        except subprocess.TimeoutExpired:
            rep.oracle_failures.append(("cli-hang:" + name, "did not return within 60 s", "gamedig_cli " + " ".join(args), ""))
            continue
        rep.seen("invalid:" + name, f"exit {rc}")
        rep.count("invalid:" + name)
        if b"panicked at" in err or rc in (0, 101) or not err.strip():
            rep.oracle_failures.append(("cli-bad-exit:" + name, f"exit {rc}, stderr {err[-200:]!r}", "gamedig_cli " + " ".join(args), ""))
    silent.close()
    rep.extra_cov["explanation"] = ("main from the flag values to the process outcome, the JSON documents with their reader, hex / base64 and the XML converter are Lean "
                                    "models with theorems (plan, every way out, no panic, the document decodes to the value, generic = common view); serde's derive "
                                    "output, the serialiser crates' success, the resolver and the process itself are exercised by running the real binary; BSON's layout is a "
                                    "Lean model with theorems (reader inverts serialiser, failure cases, length fields) tied to the crate")
