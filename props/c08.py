"""C08 — multi-datagram responses do not depend on arrival order."""
import random
import vlib, netcases
from props import netprops

LEVEL = "proof"
RULE = ("valid SPEC-generated multi-datagram replies (Valve Source and GoldSrc split packets, 2-6 fragments): every "
        "permutation of each fragment group (exhaustive up to 5 fragments, sampled at 6) must give the same result as "
        "in-order arrival; every single-fragment duplication inserted at every position, of the in-order arrival and of permuted arrivals, must give an error or the same "
        "response. Non-trivial = a delivery received; distinct = distinct implementation outputs.")
ASSUMPTIONS = ["fragments of one reply are consecutive deliveries of one socket (no interleaving with other replies)"]
TRUSTED = ["hand-written Lean model of the reassembly code, checked against the code on every run"]


def run(rep, tier, seed, replay=None):
    if replay is not None:
        vlib.correspond(rep, replay, oracle=netprops.crash_oracle, trivial=netprops.trivial, tag="c08")
        return
    rnd = random.Random(seed)
    import importlib
    valids = []
    cases, meta = [], {}
    base_lines = []
    fams = []
    for fam in netprops.FAMILIES:
        fmod = importlib.import_module("props.families." + fam)
        if not hasattr(fmod, "fragment_groups"):
            continue
        fams.append(fam)
        budget = (2500 if tier == "quick" else 60000)
        produced = 0
        fv = [v for v in netprops.valid_cases(fam, seed + 8, 500 if tier == "quick" else 6000) if not v.notwf]
        # the family's own variants of valid exchanges come first (Valve: the same replies as bzip2-COMPRESSED Source splits —
        # only fragment 0 carries the announced size and checksum, whichever fragment arrives first)
        if fam == "valve" and hasattr(fmod, "decode_variants"):
            extra = [x for v in fv[: (120 if tier == "quick" else 1500)] for x in fmod.decode_variants(v, rnd)]
            rep.count("variants:" + fam, len(extra))
            fv = extra[: (40 if tier == "quick" else 600)] + fv
        for v in fv:
            c = v.case()
            if hasattr(fmod, "c08_prepare"):
                c = fmod.c08_prepare(c)
                v.line = c.line()
            gs = fmod.fragment_groups(c)
            if not gs:
                continue
            valids.append(v)
            base_lines.append(v.line)
            for (ci, st, n) in gs:
                rep.count(f"fragments:{fam}:{n}")
                variants = (netcases.permutations_of_group(c, ci, st, n, rnd) + netcases.duplications_of_group(c, ci, st, n)
                            + netcases.permuted_duplications_of_group(c, ci, st, n, rnd))
                if tier == "quick" and len(variants) > 40:
                    variants = rnd.sample(variants, 40)
                for k, (vc, what) in enumerate(variants):
                    cid = f"{v.id}g{st}x{k}"
                    cases.append(vc.line(cid))
                    meta[cid] = (v, what)
                    produced += 1
            if produced > budget:
                break
    rep.extra_cov["families"] = fams
    by_id = {v.id: v for v in valids}

    def oracle(case, impl, model, panic):
        out = netprops.crash_oracle(case, impl, model, panic)
        cid = case.split(" ", 1)[0]
        if out:
            return out
        got = vlib.result_of(impl)
        if cid in by_id:
            if got != by_id[cid].want:
                out.append(("inorder-mismatch:" + by_id[cid].fam, f"in-order arrival differs from the expected response: {got[:200]}"))
            return out
        if cid not in meta:
            return out
        v, what = meta[cid]
        rep.count("variant:" + what.split(":")[0])
        if what.startswith("perm"):
            if got != v.want:
                out.append(("order-dependence:" + v.fam, f"arrival order {what} gives {got[:160]} instead of the in-order response"))
        else:
            if not got.startswith("ERR ") and got != v.want:
                out.append(("duplicate-accepted:" + v.fam, f"duplication {what} gives a different successful response {got[:160]}"))
        return out

    # corpus lines may carry ` ## MUSTERR`: a past duplicate/foreign-fragment witness that has to end in an error
    corpus, musterr = [], set()
    for l in netprops.corpus("C08"):
        line, _, tag = l.partition(" ## ")
        corpus.append(line)
        if tag.strip() == "MUSTERR":
            musterr.add(line.split(" ", 1)[0])
    inner = oracle

    def oracle2(case, impl, model, panic):
        out = inner(case, impl, model, panic)
        cid = case.split(" ", 1)[0]
        if cid in musterr and not vlib.result_of(impl).startswith("ERR "):
            out.append(("duplicate-accepted:corpus", f"{cid}: a recorded duplicate / foreign fragment witness is accepted again: {vlib.result_of(impl)[:160]}"))
        return out

    vlib.correspond(rep, corpus + base_lines + cases, oracle=oracle2, trivial=netprops.trivial, tag="c08")
