"""C04 — GameSpy 1/2/3 replies are decoded completely."""
from props import decode_generic

LEVEL = "proof"
RULE = decode_generic.rule_text("C04")
ASSUMPTIONS = ["external crates are parameters of the model"]
TRUSTED = ["hand-written Lean models, checked against the code on every run", "SPEC encoders written from the protocol documentation / reference implementation (node-gamedig)"]


def run(rep, tier, seed, replay=None):
    decode_generic.run("C04", rep, tier, seed, replay)
