"""C14 — definition-driven, per-game and protocol-level queries agree."""
import json, os, random
import vlib, netcases
from props import netprops

LEVEL = "proof"
RULE = ("every Valve-protocol entry of the definitions table (translated from the source on this run) x port given / omitted x server "
        "behaviours generated for that game's engine and gathering settings (valid replies with the main, dedicated and foreign app ids, "
        "0-3 challenge rounds, split replies; one structured mutation; silence): the generic entry point, the dedicated module and the "
        "protocol-level query with the definition's parameters run under the same scripted server; destination port, request bytes in order "
        "and result (through game::Response::new_from_valve_response) must be equal, and equal to the model's. Non-trivial = a delivery received.")
ASSUMPTIONS = ["modules use the default timeout settings, so the three paths are compared at retry count 0",
               "non-Valve games of the table are covered by the table theorems and are added to the differential as their families land"]
TRUSTED = ["translator tools/xlate.py (definitions.rs, game_query_mod! invocations, hand-written modules' default ports), validated by this differential"]


def run(rep, tier, seed, replay=None):
    if replay is not None:
        vlib.correspond(rep, replay, oracle=netprops.crash_oracle, trivial=netprops.trivial, tag="c14")
        return
    rnd = random.Random(seed)
    tables = json.load(open(os.path.join(vlib.WORK, "games.json")))
    mods = {m["id"]: m for m in tables["mods"]}
    byname = {m["name"]: m for m in tables["mods"]}
    cases, groups = [], []
    per = 3 if tier == "quick" else 25
    for d in tables["defs"]:
        if d["proto"] != "valve":
            rep.count("skipped-protocol:" + d["proto"].split(":")[0])
            continue
        m = mods.get(d["id"]) or byname.get(d["name"])
        lines = vlib.model_gen("valvefor", seed + 14, per, extra=[d["engine"], d["gather"]])
        k = 0
        for raw in lines:
            base = netprops.Valid(raw, "valve").case()
            variants = [("valid", base)]
            if d["id"] == "battalion1944":
                # a Battalion 1944 server reports its real name / counts in bat_* rules: replace the rules reply
                v = netprops.Valid(raw, "valve")
                seg = v.seg()
                if seg[2] > 0:
                    b2 = base.clone()
                    rules = [(b"bat_name_s", b"Real Name"), (b"bat_player_count_s", b"7"), (b"bat_max_players_i", b"16"),
                             (b"bat_has_password_s", b"Y"), (b"bat_gamemode_s", b"DOM"), (b"bat_map_s", b"x"), (b"other", b"1")]
                    body = len(rules).to_bytes(2, "little") + b"".join(k + b"\0" + val + b"\0" for k, val in rules)
                    b2.script[0] = b2.script[0][:seg[0] + seg[1]] + [b"\xff\xff\xff\xff\x45" + body]
                    variants.append(("bat-rules", b2))
            mc, what = netcases.mutate(base, rnd)
            variants.append((what, mc))
            if k == 0:
                silent = base.clone()
                silent.script = [[None]]
                variants.append(("silence", silent))
            for what, c in variants:
                for port in ("-", str(rnd.choice([27015, 1, 65535, d["port"]]))):
                    k += 1
                    script_opts = " ".join([c.fmt_script()] + c.opts)
                    gid = f"{d['id']}_{k}"
                    g = f"{gid}g game-generic {d['id']} {port} 0 {script_opts}"
                    p = f"{gid}p game-protocol {d['port'] if port == '-' else port} {d['engine']} {d['gather']} 0 {script_opts}"
                    grp = {"id": d["id"], "generic": g, "protocol": p, "module": None, "what": what}
                    cases += [g, p]
                    if m is not None:
                        grp["module"] = f"{gid}m game-module {m['id']} {port} {script_opts}"
                        # battalion1944's module applies rule overrides the generic path does not have (known finding):
                        # its module line is run on the implementation only
                        if d["id"] != "battalion1944":
                            cases.append(grp["module"])
                    groups.append(grp)
        rep.count("game:" + ("with-module" if m else "definition-only"))
    model, impl, panics = vlib.correspond(rep, netprops.corpus("C14") + cases, oracle=netprops.crash_oracle, trivial=netprops.trivial, tag="c14")
    # battalion module lines: implementation only
    extra = [g["module"] for g in groups if g["module"] and g["id"] == "battalion1944"]
    eimpl, _ = vlib.run_impl(extra, tag="c14b") if extra else ({}, {})
    impl.update(eimpl)

    def obs(line):
        out = impl.get(line.split(" ", 1)[0], "")
        return vlib.result_of(out), [(p, d) for (_, p, d, _) in vlib.sends_of(out)]

    for g in groups:
        go = obs(g["generic"])
        po = obs(g["protocol"])
        if go != po:
            rep.oracle_failures.append((f"paths-differ:generic-vs-protocol:{g['id']}", f"{g['what']}: generic {str(go)[:200]} protocol {str(po)[:200]}", g["generic"], str(go)[:300]))
        if g["module"]:
            mo = obs(g["module"])
            if mo != go:
                rep.oracle_failures.append((f"paths-differ:generic-vs-module:{g['id']}", f"{g['what']}: generic {str(go)[:200]} module {str(mo)[:200]}", g["module"], str(mo)[:300]))
    rep.extra_cov["games_compared"] = len({g["id"] for g in groups})
    rep.extra_cov["programs"] = len({g["id"] for g in groups})
    rep.extra_cov["disagreements_checked"] = len(groups)
