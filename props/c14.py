"""C14 — definition-driven, per-game and protocol-level queries agree."""
import json, os, random
import vlib, netcases
from props import netprops, cliplan

LEVEL = "proof"
RULE = ("every Valve-protocol entry of the definitions table (translated from the source on this run) x port given / omitted x server "
        "behaviours generated for that game's engine and gathering settings (valid replies with the main, dedicated and foreign app ids, "
        "0-3 challenge rounds, split replies; one structured mutation; silence): the generic entry point, the dedicated module and the "
        "protocol-level query with the definition's parameters run under the same scripted server; destination port, request bytes in order "
        "and result (through game::Response::new_from_valve_response) must be equal, and equal to the model's. The command-line tool as a fourth "
        "caller: for every game x port given / omitted x timeout / extra settings the plan the real binary prints (hook) = the model of main's; "
        "oracle: the definition of that id, the caller's values unchanged. Non-trivial = a delivery received / a plan printed.")
ASSUMPTIONS = ["modules use the default timeout settings, so the three paths are compared at retry count 0",
               "non-Valve games of the table are covered by the table theorems and are added to the differential as their families land"]
TRUSTED = ["translator tools/xlate.py (definitions.rs, game_query_mod! invocations, hand-written modules' default ports), validated by this differential",
           "translator tools/xlate_arms.py (the arms of games/query.rs, the conversion impls, the game_query_fn! bodies -> Gen/Arms.lean) and the evaluator "
           "Proto/ArmsSem.lean: tied to the model by the theorems C14_arms_* (every arm, every argument value) and to the code by the entries "
           "arms-conv / arms-dispatch (whole product of settings shapes)"]


# definitions-table protocol tag -> (family whose generator scripts the server, (argument index, value) selecting the variant)
PROTO_FAMILY = {
    "unreal2": ("unreal2", None), "quake1": ("quake", (1, "1")), "quake2": ("quake", (1, "2")), "quake3": ("quake", (1, "3")),
    "gs1": ("gs1", None), "gs2": ("gs2", None), "gs3": ("gs3", None),
    "prop:FFOW": ("ffow", None), "prop:Savage2": ("savage2", None), "prop:TheShip": ("theship", None), "prop:JC2M": ("jc2m", None),
    "prop:Mindustry": ("mindustry", None), "prop:Minecraft(None)": ("mcauto", None),
    "prop:Minecraft(Some(Server::Java))": ("mcjava", None), "prop:Minecraft(Some(Server::Bedrock))": ("mcbedrock", None),
    "prop:Minecraft(Some(Server::Legacy(LegacyGroup::V1_6)))": ("mclegacy", (1, "16")),
    "prop:Minecraft(Some(Server::Legacy(LegacyGroup::V1_4)))": ("mclegacy", (1, "14")),
    "prop:Minecraft(Some(Server::Legacy(LegacyGroup::VB1_8)))": ("mclegacy", (1, "18")),
}


# (retries | - = no timeout settings, extra settings) applied to the first valid exchange of every game through `dispatch`:
# E<host name hex>:<protocol version>:<players>:<rules>:<check app id>, `-` = field absent
DISPATCH_SETTINGS = [("0", "E-:-:-:-:-"), ("2", "-"), ("1", "E-:-:s:e:F"), ("-", "E6d632e782e79:47:e:s:T"), ("3", "E-:-1:t:-:-"),
                     ("0", "E676d:-:-:t:F")]


def random_extra(rnd):
    """extra request settings with every field independently absent / present, values of every shape"""
    host = rnd.choice(["-", "-", "676d", "", "6d632e6578616d706c652e636f6d2e", "2e", "4d43", "c3a9" * rnd.choice([1, 128]), "61" * rnd.choice([255, 256])])
    pv = rnd.choice(["-", "-", "-1", "0", "47", "760", "2147483647", "-2147483648", "128", "16384"])
    gp = rnd.choice(["-", "-", "s", "t", "e"])
    gr = rnd.choice(["-", "-", "s", "t", "e"])
    ck = rnd.choice(["-", "-", "T", "F"])
    return f"E{host}:{pv}:{gp}:{gr}:{ck}"


def arms_sweep(rep, tables, first_base, tier):
    """Tie of the TRANSLATOR (tools/xlate_arms.py -> Gen/Arms.lean) and of the evaluator (Proto/ArmsSem.lean) to the code: the
    model side of `arms-conv` / `arms-dispatch` evaluates the translated conversion impls / the translated arm of the game, the
    harness side runs the real conversions / the real generic query.
      * `arms-conv`: the WHOLE product of field shapes (host name absent / empty / ASCII / trailing dot / non-ASCII x protocol
        version absent / -1 / 0 / 47 / i32::MAX / i32::MIN x players, rules absent / skip / try / enforce x app-id check absent /
        true / false);
      * `arms-dispatch`: for one game of every arm (pattern of the generated table) — Valve twice: a definition with its own
        gathering settings and one with the default — the first valid exchange under every combination the arm's settings can
        depend on (Valve / Unreal2: every toggle combination; Minecraft Java / auto: every host name x version) x port given /
        omitted x timeout settings absent / 2 retries.
    The arm texts go into the evidence."""
    import json as _json
    info = _json.load(open(os.path.join(vlib.WORK, "arms.json")))
    rep.extra_cov["arms_translated"] = len(info["arms"])
    rep.extra_cov["arms_not_in_this_build"] = [a["cfg"] for a in info["skipped"]]
    rep.extra_cov["arms"] = [a["text"] for a in info["arms"]]
    rep.extra_cov["arms_conversions"] = [f"{c['name']}: {c['text']}" for c in info["convs"] + info["defaults"] + info["into_extras"]]
    rep.extra_cov["arms_module_macros"] = [a["text"] for a in info["mod_arms"]] + [h["text"] for h in info.get("hand_wrappers", [])]
    rep.extra_cov["arms_macro_defaults"] = {"game!": info.get("game_default"), "valve::game_query_mod!": info.get("valve_mod_default")}
    if not info["translated"]:
        rep.tie_failures.append("translator (arms): " + "; ".join(info["errors"]))
    lines = []
    hosts = ["-", "", "676d", "6d632e6578616d706c652e636f6d2e", "c3a9c3a9c3a9"]
    pvs = ["-", "-1", "0", "47", "2147483647", "-2147483648"]
    n = 0
    for h in hosts:
        for pv in pvs:
            for gp in "-ste":
                for gr in "-ste":
                    for ck in "-TF":
                        n += 1
                        lines.append(f"armc{n} arms-conv E{h}:{pv}:{gp}:{gr}:{ck}")
    lines.append("armc0 arms-conv -")
    rep.count("arms-conv", len(lines))
    # one game per arm
    chosen, seen = [], set()
    for d in tables["defs"]:
        key = d["proto"] if d["proto"] != "valve" else ("valve", d["gather"] != "ttT")
        if key in seen or d["id"] not in first_base:
            continue
        seen.add(key)
        chosen.append(d)
    for d in chosen:
        base = first_base[d["id"]]
        tail = " ".join([base.fmt_script()] + base.opts)
        if d["proto"] in ("valve", "unreal2"):
            extras = ["-"] + [f"E-:-:{gp}:{gr}:{ck}" for gp in "-ste" for gr in "-ste" for ck in "-TF"]
        elif d["proto"] in ("prop:Minecraft(None)", "prop:Minecraft(Some(Server::Java))"):
            extras = ["-"] + [f"E{h}:{pv}:-:-:-" for h in hosts for pv in pvs]
        else:
            extras = ["-", "E-:-:-:-:-", "E676d:47:e:s:F", "E:0:s:e:T"]
        if tier == "quick" and len(extras) > 25:
            extras = extras[:1] + extras[1::2]
        k = 0
        for extra in extras:
            for port in ("-", str(d["port"] + 1)):
                for r in ("-", "2"):
                    k += 1
                    lines.append(f"arm_{d['id']}_{k} arms-dispatch {d['id']} {port} {r} {extra} {tail}")
        rep.count("arms-dispatch-sweep:" + d["proto"].split("(")[0])
    return lines


def run(rep, tier, seed, replay=None):
    if replay is not None:
        cliplan.run(rep, [l for l in replay if cliplan.is_plan(l)], count="cli-query")
        replay = [l for l in replay if not cliplan.is_plan(l)]
        if replay:
            vlib.correspond(rep, replay, oracle=netprops.crash_oracle, trivial=netprops.trivial, tag="c14")
        return
    rnd = random.Random(seed)
    tables = json.load(open(os.path.join(vlib.WORK, "games.json")))
    mods = {m["id"]: m for m in tables["mods"]}
    byname = {m["name"]: m for m in tables["mods"]}
    cases, groups = [], []
    first_base = {}
    per = 3 if tier == "quick" else 25
    for d in tables["defs"]:
        if d["proto"] != "valve":
            rep.count("skipped-protocol:" + d["proto"].split(":")[0])
            continue
        m = mods.get(d["id"]) or byname.get(d["name"])
        lines = vlib.model_gen("valvefor", seed + 14, per, extra=[d["engine"], d["gather"]])
        k = 0
        for raw in lines:
            base = netprops.Valid(raw, "valve").case()
            variants = [("valid", base)]
            if d["id"] == "battalion1944":
                # a Battalion 1944 server reports its real name / counts in bat_* rules: replace the rules reply
                v = netprops.Valid(raw, "valve")
                seg = v.seg()
                if seg[2] > 0:
                    b2 = base.clone()
                    rules = [(b"bat_name_s", b"Real Name"), (b"bat_player_count_s", b"7"), (b"bat_max_players_i", b"16"),
                             (b"bat_has_password_s", b"Y"), (b"bat_gamemode_s", b"DOM"), (b"bat_map_s", b"x"), (b"other", b"1")]
                    body = len(rules).to_bytes(2, "little") + b"".join(k + b"\0" + val + b"\0" for k, val in rules)
                    b2.script[0] = b2.script[0][:seg[0] + seg[1]] + [b"\xff\xff\xff\xff\x45" + body]
                    variants.append(("bat-rules", b2))
            # a players reply that lists players WITHOUT a name (connecting players) next to named ones: every path returns
            # every listed player
            v_ = netprops.Valid(raw, "valve")
            seg_ = v_.seg()
            if seg_[1] > 0 and d["id"] not in ("theship",):
                pl = base.script[0][seg_[0] + seg_[1] - 1]
                if pl is not None and pl[:5] == b"\xff\xff\xff\xffD":
                    names = [b"alice", b"", b"carol", b"", b" "]
                    body = bytes([len(names)]) + b"".join(bytes([i]) + nm + b"\0" + (7 * i).to_bytes(4, "little") + b"\x00\x00\x80\x3f" for i, nm in enumerate(names))
                    b3 = base.clone()
                    b3.script[0][seg_[0] + seg_[1] - 1] = b"\xff\xff\xff\xffD" + body
                    variants.append(("nameless-players", b3))
            mc, what = netcases.mutate(base, rnd)
            variants.append((what, mc))
            if k == 0:
                silent = base.clone()
                silent.script = [[None]]
                variants.append(("silence", silent))
            for what, c in variants:
                for port in ("-", str(rnd.choice([27015, 1, 65535, d["port"]]))):
                    k += 1
                    # (every other group over IPv6: the paths must agree on the destination whatever the address family)
                    script_opts = " ".join([c.fmt_script()] + c.opts + (["ip=6"] if (k // 2) % 2 else []))
                    gid = f"{d['id']}_{k}"
                    g = f"{gid}g game-generic {d['id']} {port} 0 {script_opts}"
                    p = f"{gid}p game-protocol {d['port'] if port == '-' else port} {d['engine']} {d['gather']} 0 {script_opts}"
                    grp = {"id": d["id"], "generic": g, "protocol": p, "module": None, "what": what}
                    cases += [g, p]
                    # the same exchange through the dispatch model (Proto/Dispatch.lean): generic path and module path
                    cases.append(f"{gid}dg dispatch {d['id']} {port} - - {script_opts}")
                    if m is not None:
                        grp["module"] = f"{gid}m game-module {m['id']} {port} {script_opts}"
                        # battalion1944's module applies rule overrides the generic path does not have (known finding): its
                        # game-module line is run on the implementation only; its dispatch-module line goes through the model of the
                        # module with the overrides (Proto/Battalion.lean, Module.battalion1944)
                        if d["id"] != "battalion1944":
                            cases.append(grp["module"])
                        cases.append(f"{gid}dm dispatch-module {m['id']} {port} {script_opts}")
                    groups.append(grp)
            # the settings rules of the Valve arm (extra settings replace the definition's; timeout settings give the retry count)
            if raw is lines[0]:
                more = [(rnd.choice(["-", "0", "1", "3"]), random_extra(rnd)) for _ in range(4 if tier == "quick" else 40)]
                first_base[d["id"]] = base
                for j, (r, extra) in enumerate(DISPATCH_SETTINGS + more):
                    k += 1
                    rest = f"{d['id']} {'-' if j % 2 else d['port'] + j} {r} {extra} " + " ".join([base.fmt_script()] + base.opts)
                    cases.append(f"{d['id']}_{k}dx dispatch {rest}")
                    cases.append(f"{d['id']}_{k}ax arms-dispatch {rest}")
        rep.count("game:" + ("with-module" if m else "definition-only"))
    # ---- every other protocol of the table: the same three paths on the real code, compared through the sorted JSON of
    # as_original() (the paths themselves are glue: games/query.rs, the game_query_mod! modules, the protocol entry points)
    any_groups, any_lines = [], []
    for d in tables["defs"]:
        if d["proto"] == "valve":
            continue
        fam, filt = PROTO_FAMILY.get(d["proto"], (None, None))
        if fam is None or fam not in netprops.FAMILIES:
            rep.count("no-family-for:" + d["proto"].split("(")[0])
            continue
        m = mods.get(d["id"]) or byname.get(d["name"])
        has_module = m is not None or d["id"].startswith("minecraft")
        valid = netprops.valid_cases(fam, seed + 14, 40 if tier == "quick" else 200)
        if filt:
            sel = [v for v in valid if v.case().args[filt[0]] == filt[1]]
            valid = sel or valid
        valid = valid[:per * 2]
        k = 0
        for v in valid:
            base = v.case()
            variants = [("valid", base)]
            # the exchange cut after j deliveries: a request that is never answered
            n0 = len(base.script[0]) if base.script and base.script[0] != "X" else 0
            for j in sorted({1, n0 - 1, rnd.randint(0, max(n0 - 1, 0))}):
                if 0 <= j < n0:
                    c2 = base.clone()
                    c2.script[0] = c2.script[0][:j]
                    variants.append((f"cut-after-{min(j, 3)}", c2))
            mc, what = netcases.mutate(base, rnd)
            variants.append((what, mc))
            if fam in ("mcauto", "mcjava") and base.script and base.script[0] not in ("X", []) and base.script[0][0]:
                # the Java status exchange completes, but what it carries is not a JSON document (framing intact): whatever
                # the paths make of it — an error, or the next variant's answer — they must make the same of it
                d0 = base.script[0][0]
                j = d0.rfind(b"}")
                if j > 0:
                    c3 = base.clone()
                    c3.script[0][0] = d0[:j] + b"]" + d0[j + 1:]
                    variants.append(("java-not-json", c3))
            for what, c in variants:
                for port in ("-", str(rnd.choice([27015, 1, 65535, d["port"]]))):
                    k += 1
                    # (every other group over IPv6: the paths must agree on the destination whatever the address family)
                    script_opts = " ".join([c.fmt_script()] + c.opts + (["ip=6"] if (k // 2) % 2 else []))
                    gid = f"{d['id']}_{k}"
                    grp = {"id": d["id"], "what": what,
                           "generic": f"{gid}g any-generic {d['id']} {port} {script_opts}",
                           "protocol": f"{gid}p any-protocol {d['proto']} {d['port'] if port == '-' else port} {script_opts}",
                           "module": f"{gid}m any-module {(m or d)['id']} {port} {script_opts}" if has_module else None}
                    any_groups.append(grp)
                    any_lines += [x for x in (grp["generic"], grp["protocol"], grp["module"]) if x]
                    # the same exchange through the dispatch model: generic path and module path, model against code
                    grp["dgeneric"] = f"{gid}dg dispatch {d['id']} {port} - - {script_opts}"
                    grp["dmodule"] = f"{gid}dm dispatch-module {(m or d)['id']} {port} {script_opts}" if has_module else None
                    cases += [x for x in (grp["dgeneric"], grp["dmodule"]) if x]
            if v is valid[0]:
                more = [(rnd.choice(["-", "0", "1", "3"]), random_extra(rnd)) for _ in range(4 if tier == "quick" else 40)]
                first_base[d["id"]] = base
                for j, (r, extra) in enumerate(DISPATCH_SETTINGS + more):
                    k += 1
                    rest = f"{d['id']} {'-' if j % 2 else d['port'] + j} {r} {extra} " + " ".join([base.fmt_script()] + base.opts)
                    cases.append(f"{d['id']}_{k}dx dispatch {rest}")
                    cases.append(f"{d['id']}_{k}ax arms-dispatch {rest}")
        rep.count("game:" + ("with-module" if has_module else "definition-only"))
    # ---- the caller's retry count must reach the protocol on the generic path as it does on the protocol's own entry:
    # an exchange whose first attempt is lost (the family's own fault builder, vector "SV" / "SSV") through `dispatch`
    # with retries 1 / 2, compared with the protocol's entry on the same script
    import importlib
    from props import dispatch_cases
    retry_pairs = []
    for fam in dispatch_cases.ARMS:
        if fam not in netprops.FAMILIES:
            continue
        fmod = importlib.import_module("props.families." + fam)
        if not hasattr(fmod, "c10_build"):
            continue
        el = [v for v in netprops.valid_cases(fam, seed + 14, 60 if tier == "quick" else 300) if fmod.c10_eligible(v)]
        for bi, v in enumerate(el[: (3 if tier == "quick" else 20)]):
            for vec, r in (("SV", 1), ("SSV", 2), ("FV", 1)):
                unit = fmod.c10_units(v)[0]
                pid_ = f"{v.id}r{r}{vec}"
                pline = fmod.c10_build(v, unit, vec, r, pid_ + "p")
                c = netcases.Case(pline, netprops.FAMILIES[fam]["nargs"])
                dline = dispatch_cases.retarget(fam, c, pid_ + "d", k=1)
                if dline is None:
                    continue
                cases += [pline, dline]
                retry_pairs.append((fam, pline, dline))
                rep.count("retry-through-dispatch:" + fam)
    # ---- the caller's REQUEST settings (Minecraft: host name and protocol version of the handshake) must reach the protocol
    # on the generic path exactly as given to the protocol's own entry: host names of every shape (fully qualified with a
    # trailing dot, only dots, empty, upper case, with spaces, non-ASCII, long), versions at the VarInt boundaries
    settings_pairs = []
    HOSTS = ["mc.example.com.", "mc.example.com..", ".", "...", "", "MC.Example.COM", " mc.example.com ", "mc.example.com:25565", "münchen.example",
             "a" * 255, "a" * 256 + ".", "gamedig", "GameDig", "localhost.", "-", "[::1]", "日本.example."]
    for fam in ("mcjava", "mcauto"):
        if fam not in netprops.FAMILIES:
            continue
        vs = [v for v in netprops.valid_cases(fam, seed + 14, 80 if tier == "quick" else 600) if not v.notwf and v.want.startswith("OK")]
        for bi, v in enumerate(vs[: (len(HOSTS) if tier == "quick" else 8 * len(HOSTS))]):
            host = HOSTS[bi % len(HOSTS)]
            c = v.case()
            c.args[2] = host.encode().hex() or "-"      # family line: `-` = the empty host name
            pid_ = f"{v.id}hs{bi}"
            pline = c.line(pid_ + "p")
            game, default, _ = dispatch_cases.ARMS[fam](c.args)
            pv = c.args[1]
            dline = " ".join([pid_ + "d", "dispatch", game, c.args[0], c.args[3], f"E{host.encode().hex()}:{pv}:-:-:-", c.fmt_script()] + c.opts)
            cases += [pline, dline]
            settings_pairs.append((fam, host, pline, dline))
            rep.count("settings-through-dispatch:" + fam)
    cases += arms_sweep(rep, tables, first_base, tier)
    if tier == "thorough":
        # self-test of the arms translation: mutated copies of games/query.rs must break the proof stage (tools/arms_selftest.py)
        import arms_selftest
        res, restored = arms_selftest.run()
        rep.extra_cov["arms_selftest"] = [f"{r['mutation']}: {'caught' if r['caught'] else 'skipped' if r['caught'] is None else 'MISSED'} — {r['how']}: {r['detail'][:160]}" for r in res]
        for r in res:
            if r["caught"] is False:
                rep.tie_failures.append(f"arms self-test: mutation {r['mutation']} of games/query.rs is not caught by Props/C14_arms.lean")
        if not restored:
            rep.tie_failures.append("arms self-test: the tree does not build after Gen/Arms.lean was restored")
    model, impl, panics = vlib.correspond(rep, netprops.corpus("C14") + cases, oracle=netprops.crash_oracle, trivial=netprops.trivial, tag="c14")
    for fam, host, pline, dline in settings_pairs:
        po, do = impl.get(pline.split(" ", 1)[0], ""), impl.get(dline.split(" ", 1)[0], "")
        ps, dsn = [(p, d) for (_, p, d, _) in vlib.sends_of(po)], [(p, d) for (_, p, d, _) in vlib.sends_of(do)]
        # (the first request of the protocol entry is the handshake carrying the host name; later traffic depends on replies
        # that were generated for the original name, so only what both paths send FIRST and whether they agree is compared)
        if ps[:1] != dsn[:1] or (vlib.result_of(po).split(" ")[0] != vlib.result_of(do).split(" ")[0]):
            rep.oracle_failures.append((f"paths-differ:generic-vs-protocol:{dline.split(' ')[2]}:request-settings",
                                        f"host name {host!r}: protocol entry sends {ps[:1]} ({vlib.result_of(po)[:60]}), generic path {dsn[:1]} ({vlib.result_of(do)[:60]})",
                                        dline, do[:300]))
    for fam, pline, dline in retry_pairs:
        po, do = impl.get(pline.split(" ", 1)[0], ""), impl.get(dline.split(" ", 1)[0], "")
        pr, dr = vlib.result_of(po), vlib.result_of(do)
        ps, dsn = [(p, d) for (_, p, d, _) in vlib.sends_of(po)], [(p, d) for (_, p, d, _) in vlib.sends_of(do)]
        if pr.split(" ")[0] != dr.split(" ")[0] or ps != dsn:
            rep.oracle_failures.append((f"paths-differ:generic-vs-protocol:{dline.split(' ')[2]}:retries",
                                        f"first attempt lost, retries given: protocol entry {pr[:120]} with {len(ps)} requests, generic path {dr[:120]} with {len(dsn)} requests",
                                        dline, do[:300]))
    # battalion module lines: implementation only
    extra = [g["module"] for g in groups if g["module"] and g["id"] == "battalion1944"]
    eimpl, _ = vlib.run_impl(extra, tag="c14b") if extra else ({}, {})
    impl.update(eimpl)

    def obs(line):
        out = impl.get(line.split(" ", 1)[0], "")
        return vlib.result_of(out), [(p, d) for (_, p, d, _) in vlib.sends_of(out)]

    aimpl, apanics = vlib.run_impl(any_lines, tag="c14a") if any_lines else ({}, {})
    impl.update(aimpl)
    for line in any_lines:
        cid = line.split(" ", 1)[0]
        out = aimpl.get(cid, "")
        rep.seen(line, out, netprops.trivial(line, out))
        if out.startswith(("CRASH", "ABORT", "HANG")) or cid in apanics or out.startswith(("no-such", "bad-case")) or not out:
            rep.oracle_failures.append((f"path-broken:{line.split(' ')[1]}:{line.split(' ')[2]}", f"{out[:160]} {apanics.get(cid, '')}"[:300], line, out[:300]))
    def differ(a, b):
        """what differs between two observations: destination ports, request bytes, or only the result"""
        if [d for _, d in a[1]] != [d for _, d in b[1]]:
            return "bytes"
        if a[1] != b[1]:
            return "port"   # the same requests, sent elsewhere
        return "result"

    for g in groups + any_groups:
        go = obs(g["generic"])
        po = obs(g["protocol"])
        if go != po:
            rep.oracle_failures.append((f"paths-differ:generic-vs-protocol:{g['id']}:{differ(go, po)}", f"{g['what']}: generic {str(go)[:200]} protocol {str(po)[:200]}", g["generic"], str(go)[:300]))
        if g["module"]:
            mo = obs(g["module"])
            if mo != go:
                rep.oracle_failures.append((f"paths-differ:generic-vs-module:{g['id']}:{differ(go, mo)}", f"{g['what']}: generic {str(go)[:200]} module {str(mo)[:200]}", g["module"], str(mo)[:300]))
    for g in any_groups:
        if g.get("dmodule"):
            go, mo = obs(g["dgeneric"]), obs(g["dmodule"])
            if go != mo:
                rep.oracle_failures.append((f"paths-differ:generic-vs-module:{g['id']}:{differ(go, mo)}", f"{g['what']}: dispatch {str(go)[:200]} dispatch-module {str(mo)[:200]}", g["dmodule"], str(mo)[:300]))
    rep.extra_cov["games_compared"] = len({g["id"] for g in groups + any_groups})
    rep.extra_cov["programs"] = len({g["id"] for g in groups + any_groups})
    rep.extra_cov["disagreements_checked"] = len(groups) + len(any_groups)
    # the command-line tool as a fourth caller: for every game of the table the query it issues (plan hook of the real binary
    # against the model of main: Proto/CliPlan.lean) is the generic query of the looked-up definition with the caller's port,
    # timeouts, retries and extra settings
    res = cliplan.run(rep, cliplan.gen_c14(seed + 14, tier), count="cli-query")
    rep.extra_cov["cli_invocations"] = len(res)
