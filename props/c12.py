"""C12 — timeouts bound every blocking step on real sockets (partial: the logical core is proved, the OS is measured)."""
import random
import vlib
from props import netprops, httpplan, sockplan

LEVEL = "other"
RULE = ("real sockets, no scripted transport: Valve queries against an in-process loopback UDP server (IPv4 and IPv6) that answers the "
        "first k requests of a SPEC-generated exchange and then falls silent, for every k (before the first reply, after each reply), "
        "timeouts {60, 150 ms}, retries 0..2; the same for GameSpy 2 queries (silent / answering server), and Minecraft Java queries against "
        "a loopback TCP peer that accepts the connection and never writes; elapsed time must stay below (blocking steps that time out, as counted by the model on the "
        "same history) x timeout + slack, the error must be the receive class, the requests the server saw must equal the model's; "
        "byte-exact send/receive round trips for payload sizes 0..65507 over UDP and up to 100 000 over TCP, both families, with and "
        "without truncation by the receive buffer; refused TCP connections; a TCP peer that writes nothing / 1 / 40 / 1500 bytes and then "
        "closes (everything written is delivered) or stalls with the connection open (the read fails within the read timeout, however "
        "much of a reply had arrived); the Eco query through the HTTP client against a peer that is mute / stalls in the head / in the body, "
        "read timeout 150 ms with write and connect timeouts of 2 s (one read timeout must bound the wait); every UDP family (Quake, GameSpy 1/2/3, "
        "Unreal 2, Bedrock, Valve) on real sockets against a server replaying a valid exchange up to a cut point (result, requests seen, wall "
        "clock vs the model of the cut exchange; read timeout 60 ms, write / connect timeouts of seconds); the HTTP client inside the model "
        "(`http-plan`, generator `httperr`): every failure class of the transport — refused, connection attempt not answered (full accept "
        "queue), mute, closing, stalling / closing after the status line, garbage, error statuses, body stalling / closing at three "
        "depths of a real Eco document, no / bad Content-Length, bodies that are not the document, redirects ending in a mute or "
        "stalling peer — x eco / get_json / get x both families, read 150 ms / write 1.3 s / connect 0.7 s: result, connections and request "
        "heads = the model's; independently: the error class per behaviour, elapsed <= the ONE timeout the behaviour can run into + slack "
        "and >= 0.6 of it (which duration bounds which wait), no wait at all for behaviours that do not block. socket.rs inside the model "
        "(`sock`, Proto/Socket.lean): UdpSocketImpl / TcpSocketImpl themselves against loopback peers addressed as 127.0.0.1 / ::1 / "
        "::ffff:127.0.0.1 — datagrams of 0..65507 bytes and the buffer size effect, a reply from another socket, a closed port, silent "
        "peers, a TCP peer that writes in pieces / closes / stalls / resets / never reads, refused and unanswered connection attempts, "
        "read != write != connect durations in two orders of magnitude, no settings (4 s defaults): results, what the peer received and from "
        "which family, nothing at decoy addresses = the model's; every step's wall clock against the duration the MODEL's own "
        "set_read_timeout / set_write_timeout / connect_timeout calls put in force (too long and too short both fail). Non-trivial = every case.")
ASSUMPTIONS = ["scheduling slack of 250 ms + 60 ms per timed-out step is allowed on top of the bound",
               "that SO_RCVTIMEO / connect_timeout are honoured by the OS is measured here, not proved"]
TRUSTED = ["Lean theorems C12_valve_blocking_bound, C12_gs2_blocking_bound, C12_minecraft_java_blocking_bound / _silent_server give the number of "
           "blocking steps that can time out; the harness measures wall time"]
HAS_PROOF = True

TIMED = ("realudp", "realgs2", "realjava", "realtcp", "realhttp")  # entries whose case line carries the timeout in its 4th word
SLACK_MS = 250
LONG = 500   # ms: one extra wait of this length exceeds SLACK_MS + PER_STEP_MS per step for up to four steps
PER_STEP_MS = 60


def single_datagram_cases(seed, n):
    """valid Valve exchanges where every reply is one datagram (so that a UDP server can answer request n with delivery n)"""
    out = []
    for v in netprops.valid_cases("valve", seed, n):
        if v.notwf or not v.want.startswith("OK"):
            continue
        c = v.case()
        if any(d is not None and d[:4] == b"\xfe\xff\xff\xff" for d in c.script[0]):
            continue
        out.append((v, c))
    return out


def run(rep, tier, seed, replay=None):
    rnd = random.Random(seed)
    cases, meta = [], {}
    http_lines = []
    sock_lines = []
    if replay is not None:
        http_lines = [l for l in replay if httpplan.is_http(l)]
        sock_lines = [l for l in replay if sockplan.is_sock(l)]
        cases = [l for l in replay if not httpplan.is_http(l) and not sockplan.is_sock(l)]
    else:
        # socket.rs inside the model (Proto/Socket.lean): every decision of UdpSocketImpl / TcpSocketImpl observed from outside
        sock_lines = sockplan.gen_c12(tier) + [l for l in netprops.corpus("C12") if sockplan.is_sock(l)]
        # the HTTP client inside the model: every failure class, three calls, both families (long waits side by side)
        http_lines = httpplan.gen("httperr", seed + 12, 87 if tier == "quick" else 435) + [l for l in netprops.corpus("C12") if httpplan.is_http(l)]
        bases = single_datagram_cases(seed + 12, 200)[: (4 if tier == "quick" else 30)]
        k = 0
        for v, c in bases:
            eng, g = c.args[1], c.args[2]
            ds = c.script[0]
            for cut in range(len(ds) + 1):
                # (v4m: the IPv4 peer named by its IPv4-mapped IPv6 address ::ffff:127.0.0.1)
                for fam in ("v4", "v6", "v4m"):
                    # (LONG: a timeout long enough for ONE extra wait to stand out from the slack; those cases run in parallel lanes)
                    for ms in ((60, LONG) if tier == "quick" else (60, 150, LONG)):
                        if ms == LONG and (cut % 2 == 0) != (fam == "v4"):
                            continue
                        if fam == "v4m" and (ms != 60 or cut not in (0, len(ds))):
                            continue
                        for r in ((0, 2) if tier == "quick" else (0, 1, 2)):
                            k += 1
                            script = ",".join(d.hex() for d in ds[:cut]) or "."
                            cid = f"u{k}"
                            cases.append(f"{cid} realudp {fam} {ms} {eng} {g} {r} {script}")
                            meta[cid] = ("udp", ms, cut, len(ds))
        # one more UDP family (GameSpy 2: one request, one datagram back) and one TCP family (Minecraft Java, silent peer)
        for v in [x for x in netprops.valid_cases("gs2", seed + 12, 40) if not x.notwf and x.want.startswith("OK")][: (2 if tier == "quick" else 10)]:
            ds = v.case().script[0]
            for cut in range(len(ds) + 1):
                for fam in ("v4", "v6", "v4m"):
                    for ms in ((60, LONG) if tier == "quick" else (60, 150, LONG)):
                        if ms == LONG and (cut % 2 == 0) != (fam == "v4"):
                            continue
                        if fam == "v4m" and (ms != 60 or cut not in (0, len(ds))):
                            continue
                        for r in ((0, 2) if tier == "quick" else (0, 1, 2)):
                            k += 1
                            script = ",".join(d.hex() for d in ds[:cut]) or "."
                            cid = f"g{k}"
                            cases.append(f"{cid} realgs2 {fam} {ms} {r} {script}")
                            meta[cid] = ("udp", ms, cut, len(ds))
        for fam in ("v4", "v6"):
            for ms in ((60, LONG) if tier == "quick" else (60, 150, LONG)):
                for r in ((0, 1, 2) if tier == "quick" else (0, 1, 2, 3)):
                    k += 1
                    cid = f"j{k}"
                    cases.append(f"{cid} realjava {fam} {ms} {r}")
                    meta[cid] = ("tcp", ms, 0, 0)
        sizes = [0, 1, 1023, 1024, 1025, 1400, 6144, 65507]
        for fam in ("v4", "v6", "v4m"):
            for size in sizes:
                for rs in (1024, 6144, 70000):
                    k += 1
                    cases.append(f"e{k} realecho udp {fam} {size} {rs}")
            for size in (0, 1, 5000, 100000):
                k += 1
                cases.append(f"e{k} realecho tcp {fam} {size} 1024")
            for ms in (50, 200):
                k += 1
                cid = f"x{k}"
                cases.append(f"{cid} realrefused {fam} {ms}")
                meta[cid] = ("refused", ms, 0, 0)
            # the HTTP client (Eco): read timeout much shorter than the write / connect timeouts; a peer that accepts and
            # stays mute, stalls in the response head or in the body must cost one READ timeout, not more
            for mode in ("mute", "head", "body", "ok", "refused"):
                k += 1
                cid = f"h{k}"
                cases.append(f"{cid} realhttp {fam} 150 2000 {mode}")
                meta[cid] = ("http", 150, 0, 0)
            # a TCP peer that answers nothing / part of a reply / a whole reply and then closes, or stalls with the
            # connection open: the read must end at the close or within the read timeout
            for ms in ((80,) if tier == "quick" else (80, 200)):
                for prefix in (".", "00", "0a" * 40, "ff" * 1500):
                    for mode in ("c", "h"):
                        k += 1
                        cid = f"t{k}"
                        cases.append(f"{cid} realtcp {fam} {ms} {mode} {prefix}")
                        meta[cid] = ("tcp", ms, 0, 0)
    # ---- several receives on ONE socket with different requested sizes (a socket serves a whole query: 16 bytes for a handshake,
    # 2048 for the data, 16 again after a retry …): each returns the datagram that was sent, cut at the size asked for THIS time
    seq_cases = {}
    if replay is None:
        SIZES = [16, 2048, 16, None, 1400, 0, 65535, 1, 6144, 1024, 1025]
        for fam in ("v4", "v6", "v4m"):
            for j in range(3 if tier == "quick" else 20):
                steps = []
                for _ in range(rnd.choice([3, 5, 8])):
                    size = rnd.choice(SIZES)
                    ln = rnd.choice([0, 1, 15, 16, 17, 100, 1023, 1024, 1025, 1400, 2048, 2049, 6145, 9000])
                    steps.append((ln, size))
                cid = f"sq{fam}{j}"
                cases.append(f"{cid} realseq {fam} 500000000 " + ",".join(f"{ln}:{'-' if sz is None else sz}:m" for ln, sz in steps))
                seq_cases[cid] = steps
    # ---- every UDP family on real sockets: a loopback server replays the scripted exchange (answering the n-th request
    # with the deliveries the model consumed after its n-th send) up to a cut point and then falls silent; result,
    # requests seen by the server and wall clock against the model of the same (cut) exchange
    famreal = {}
    slow_budget = {}
    if replay is None:
        for fam in ("quake", "gs1", "gs2", "gs3", "unreal2", "mcbedrock", "valve"):
            d = netprops.FAMILIES.get(fam)
            if d is None:
                continue
            vs = [v for v in netprops.valid_cases(fam, seed + 12, 60) if not v.notwf and v.want.startswith("OK")]
            vs = [v for v in vs if len(v.case().script) == 1 and v.case().script[0] != "X" and not v.case().opts
                  and all(x is None or len(x) <= 1400 for x in v.case().script[0])]
            inner = []
            # the exchanges with the most deliveries first (split / multi-part replies: a server that stops between two
            # fragments must cost one read timeout per attempt, like one that stops anywhere else), then an ordinary one
            vs.sort(key=lambda v: -len(v.case().script[0]))
            picked = vs[: (2 if tier == "quick" else 8)] + vs[-1:]
            for bi, v in enumerate(picked):
                n = len(v.case().script[0])
                cuts = set(range(n + 1)) if n <= 7 else {0, 1, n // 3, n // 2, 2 * n // 3, n - 2, n - 1, n}
                for cut in sorted(cuts):
                    for r in (0, 1):
                        c = v.case()
                        c.script[0] = c.script[0][:cut]
                        c.args[d["retries"]] = str(r)
                        inner.append((f"{v.id}c{cut}r{r}", c, fam))
            im = vlib.run_model([c.line(i + "i") for i, c, _ in inner])
            for k2, (i, c, fam_) in enumerate(inner):
                mo = im.get(i + "i", "")
                tr = vlib.trace_of(mo)
                ds = c.script[0]
                bursts, used = [], 0
                for e in tr:
                    if e.startswith("S"):
                        bursts.append(0)
                    elif e.startswith("R") and used < len(ds) and bursts:
                        used += 1
                        bursts[-1] += 1
                famv = ("v4", "v6", "v4", "v6", "v4m")[k2 % 5]
                blocked = sum(1 for e in tr if (e.startswith("R") and e.endswith(":T")) or (e.startswith("S") and e.endswith("!")))
                # a server that stops in the MIDDLE of a reply (it answered the last request with some datagrams, not all):
                # measured with a timeout long enough for one extra wait per attempt to stand out from scheduling noise
                mid = bool(bursts) and bursts[-1] > 0 and blocked > 0
                ms = 400 if mid and slow_budget.get(fam_, 0) < (6 if tier == "quick" else 24) else 60
                if ms == 400:
                    slow_budget[fam_] = slow_budget.get(fam_, 0) + 1
                dl = ",".join("~" if x is None else x.hex() for x in ds) or "."
                line = f"{i} realfam {famv} {ms} {'.'.join(map(str, bursts)) or '-'} {dl} " + c.line("x").split(" ", 1)[1]
                cases.append(line)
                sent = [dd for (_, _, dd, failed) in vlib.sends_of(mo) if not failed]
                famreal[i] = (vlib.result_of(mo), sent, blocked, ms, fam_)
    # (what the HTTP cases report is collected apart: a case that fails is measured again on its own, up to twice — see below)
    class _Collect:
        def __init__(self, feed):
            self.oracle_failures, self.divergences, self.tie_failures, self.feed = [], [], [], feed
        def count(self, *a, **k):
            if self.feed:
                rep.count(*a, **k)
        def seen(self, *a, **k):
            if self.feed:
                rep.seen(*a, **k)

    sockplan.run(rep, sock_lines, "c12sk", lanes=3, oracles=(sockplan.c12_failures,))
    first = _Collect(True)
    for o in httpplan.run(first, http_lines, "c12hp", lanes=3 if tier == "quick" else 5, count="kind:http-plan"):
        httpplan.c12_oracle(first, o)
    failing = {}
    for f in first.oracle_failures:
        failing.setdefault(f[2].split(" ", 1)[0], ([], []))[0].append(f)
    for dv in first.divergences:
        failing.setdefault(dv[0].split(" ", 1)[0], ([], []))[1].append(dv)
    raw_of = {httpplan.split_tags(r)[0].split(" ", 1)[0]: r for r in http_lines}
    budget = [10]   # cases measured again (a change that breaks many cases is not noise: the rest is reported as measured)
    for cid, (fs, dvs) in failing.items():
        if cid in raw_of and replay is None and budget[0] > 0:
            budget[0] -= 1
            for attempt in range(2):
                again = _Collect(False)
                for o in httpplan.run(again, [raw_of[cid]], "c12hpagain"):
                    httpplan.c12_oracle(again, o)
                rep.count("measured-again")
                if not again.oracle_failures and not again.divergences:
                    fs, dvs = [], []
                    rep.count("measured-again:clean")
                    break
        rep.oracle_failures += fs
        rep.divergences += dvs
    model = vlib.run_model([c for c in cases if c.split(" ")[1] not in ("realfam", "realseq")])
    # the long-timeout cases side by side (they sleep most of the time), the rest one after the other
    slow = [c for c in cases if c.split(" ")[1] in ("realfam", "realudp", "realgs2", "realjava") and c.split(" ")[3] in ("400", str(LONG))]
    # (a time budget for the batch: on the unchanged tree it takes under a minute in the quick tier; a change that lengthens every
    # wait would otherwise make the check as slow as the queries it measures)
    BUDGET = 360 if tier == "quick" else 3600
    impl, panics = vlib.run_impl([c for c in cases if c not in slow], tag="c12", budget_s=BUDGET)
    if "<budget>" in panics:
        rep.oracle_failures.append(("timeout-not-bounding:batch", f"the real-socket cases did not end within {BUDGET} s (normally under a minute): waits have become longer than the timeouts allow; first case not reached: " + next((c.split(' ', 1)[0] for c in cases if impl.get(c.split(' ', 1)[0], '').startswith('NOT-RUN')), '?'), "batch", panics["<budget>"]))
    if slow:
        from concurrent.futures import ThreadPoolExecutor
        lanes = [slow[k::12] for k in range(12)]
        with ThreadPoolExecutor(12) as ex:
            for io, pa in ex.map(lambda kl: vlib.run_impl(kl[1], tag=f"c12s{kl[0]}", budget_s=BUDGET), [(k, l) for k, l in enumerate(lanes) if l]):
                impl.update(io)
                panics.update(pa)
    def judge(c, m, i, panic, counting):
        """(divergences, oracle failures) of one case; `counting`: whether the histogram is fed (first measurement only)"""
        divs, fails = [], []
        cid = c.split(" ", 1)[0]
        count = rep.count if counting else (lambda *a, **k: None)
        if counting:
            rep.seen(c, i)
        count("kind:" + c.split(" ")[1])
        fails += [(s, d, c, i) for s, d in netprops.crash_oracle(c, i, m, panic)]
        if cid in seq_cases:
            want = ",".join(f"{min(ln, 1024 if sz is None else sz)}/T" for ln, sz in seq_cases[cid])
            if i != "OK " + want:
                fails.append(("transport-size:sequence", f"receives on one socket with sizes {[sz for _, sz in seq_cases[cid]]} of datagrams {[ln for ln, _ in seq_cases[cid]]}: got {i[:200]}, each must be the datagram cut at the size asked for: {want}", c, i))
            return divs, fails
        if cid in famreal:
            want_res, want_sent, blocked, ms, fam_ = famreal[cid]
            ipf = i.split(" ;; ")
            count("realfam:" + fam_)
            got_sent = [x for x in (ipf[1].split(",") if len(ipf) > 1 and ipf[1] else [])]
            if ipf[0] != want_res or got_sent != want_sent:
                divs.append((c, f"{want_res} ;; {','.join(want_sent)}", i, "real sockets vs the model of the same exchange"))
            if len(ipf) > 2 and ipf[2].startswith("T"):
                elapsed = int(ipf[2][1:])
                bound = blocked * ms + SLACK_MS + PER_STEP_MS * blocked
                count("timed-out-steps:" + str(blocked))
                if elapsed > bound:
                    fails.append(("timeout-not-bounding:realfam:" + fam_, f"took {elapsed} ms; {blocked} blocking step(s) may time out at {ms} ms each: bound {bound} ms", c, i))
            return divs, fails
        mp, ip = m.split(" ;; "), i.split(" ;; ")
        if mp[0] != ip[0] or (len(mp) > 1 and len(ip) > 1 and mp[1] != ip[1]):
            divs.append((c, m, i, panic))
            # the wall-clock bound is still evaluated below: a step that outlives its timeout is a failing input
            # whatever it finally returned
        if len(mp) > 2 and len(ip) > 2 and mp[2].startswith("B") and ip[2].startswith("T"):
            blocked, elapsed = int(mp[2][1:]), int(ip[2][1:])
            ms = meta.get(cid, ("", int(c.split(" ")[3]) if c.split(" ")[1] in TIMED else 0))[1]
            bound = blocked * ms + SLACK_MS + PER_STEP_MS * blocked
            count("timed-out-steps:" + str(blocked))
            if elapsed > bound:
                fails.append(("timeout-not-bounding:" + c.split(" ")[1], f"took {elapsed} ms; {blocked} blocking step(s) may time out at {ms} ms each: bound {bound} ms", c, i))
            if blocked > 0 and elapsed < (blocked * ms) * 0.5 and c.split(" ")[1] in TIMED:
                count("returned-early")
            if c.split(" ")[1] == "realhttp":
                # the class of the error: no answer at all = the request/response exchange failed (send/receive class, the
                # client library cannot tell which half); a body that stops = receive class; nothing listening = connect class
                mode, got = c.split(" ")[5], (ip[3] if len(ip) > 3 else "")
                want = {"mute": ("ERR PacketSend", "ERR PacketReceive"), "head": ("ERR PacketSend", "ERR PacketReceive"),
                        "body": ("ERR PacketReceive",), "refused": ("ERR SocketConnect",), "ok": ("OK", "ERR ProtocolFormat")}[mode]  # the stub document is not a full Eco front page
                if got not in want:
                    fails.append((f"http-error-class:{mode}", f"{mode}: got {got}, expected one of {want}", c, i))
            elif c.split(" ")[1] in TIMED and blocked > 0 and not ip[0].startswith("ERR PacketReceive") and not ip[0].startswith("OK"):
                fails.append(("silence-wrong-error", f"silent server gave {ip[0][:80]}", c, i))
        if c.split(" ")[1] == "realecho" and not i.endswith(",T"):
            fails.append(("transport-modified-bytes", f"payload not delivered unmodified: {i}", c, i))
        return divs, fails

    # every case is judged; a real-socket case that fails is MEASURED AGAIN on its own, up to twice: a wait that is too long or
    # a reply that came after the timeout because this machine was busy does not repeat, a query that waits longer than it may does
    budget2 = [12]
    for c in cases:
        cid = c.split(" ", 1)[0]
        m, i = model.get(cid, "<none>"), impl.get(cid, "<none>")
        divs, fails = judge(c, m, i, panics.get(cid, ""), True)
        if (divs or fails) and c.split(" ")[1].startswith("real") and replay is None and budget2[0] > 0:
            budget2[0] -= 1
            for attempt in range(2):
                io, pa = vlib.run_impl([c], tag="c12again")
                d2, f2 = judge(c, m, io.get(cid, "<none>"), pa.get(cid, ""), False)
                rep.count("measured-again")
                if not d2 and not f2:
                    divs, fails = [], []
                    rep.count("measured-again:clean")
                    break
        rep.divergences += divs
        rep.oracle_failures += fails
    rep.extra_cov["explanation"] = ("partial: number of blocking steps that can time out, transport fidelity and default timeouts are Lean theorems on the model; "
                                    "that the OS honours the timeouts is measured on loopback sockets (IPv4/IPv6), wall clock vs model bound")
