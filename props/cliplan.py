"""The command-line tool inside the model (`cli-plan` case lines and the codec / JSON entries of lean/GdVerif/Run/CliPlan.lean).

`cli-plan`: the REAL binary, built with `--cfg gamedig_verif` and run with GAMEDIG_VERIF_PLAN=1, prints the plan of an invocation
(game looked up, literal or resolved host, port, timeout and extra settings, output mode and format) instead of querying; the
model driver gets the same flag values (and, for host names, what the system resolver answers) and must print the same plan or
the same way out (usage error / unknown game / unresolvable host).  On top of that comparison, oracles that do not go through
the model: the C19 exit rules, the hand-over of the flags (C14: which query is issued, C18: which timeout values are accepted).

Codec entries (`ip-parse`, `hex-*`, `b64-*`, `json-print`, `json-read`): model against the crates / std in the harness."""
import ipaddress, json, os, random, re, socket, subprocess
import vlib

ENTRY = "cli-plan"
HOOK_TARGET = os.path.join(vlib.WORK, "cli-target-hook")
HOOK_CLI = os.path.join(HOOK_TARGET, "debug", "gamedig_cli")
KEYS = [("g", "--game"), ("i", "--ip"), ("p", "--port"), ("f", "--format"), ("o", "--output-mode"),
        ("ct", "--connect-timeout"), ("rt", "--read-timeout"), ("wt", "--write-timeout"), ("rn", "--retries"),
        ("hn", "--hostname"), ("pv", "--protocol-version"), ("gp", "--gather-players"), ("gr", "--gather-rules"),
        ("ca", "--check-app-id")]
FLAG = dict(KEYS)
FORMATS = ["debug", "json-pretty", "json", "xml", "bson-hex", "bson-base64"]
MODES = ["generic", "protocol-specific"]
U64 = 2 ** 64


def is_plan(line):
    t = line.split(" ")
    return len(t) > 1 and t[1] == ENTRY


_built = {}


def build_hook_cli():
    """the CLI with the verification hook compiled in (own target directory; the shipped binary is built by props/c19.py)"""
    if "ok" in _built:
        return _built["ok"], _built["log"]
    with vlib.Lock("cargo-cli-hook"):
        env = dict(vlib.ENV, RUSTFLAGS="--cfg gamedig_verif")
        p = subprocess.run(["cargo", "build", "--offline", "-p", "gamedig_cli", "--target-dir", HOOK_TARGET], cwd=vlib.REPO, env=env,
                           stdout=subprocess.PIPE, stderr=subprocess.STDOUT, text=True, timeout=1800)
    _built["ok"], _built["log"] = p.returncode == 0, p.stdout
    return _built["ok"], _built["log"]


# ------------------------------------------------------------------ case lines

def line_of(cid, inv, res=None):
    """inv: dict key -> bytes (absent key = flag not given)"""
    toks = [cid, ENTRY] + [f"{k}:{inv[k].hex()}" for k, _ in KEYS if k in inv]
    if res is not None:
        toks.append("res:" + res)
    return " ".join(toks)


def inv_of(line):
    inv = {}
    for t in line.split(" ")[2:]:
        k, _, v = t.partition(":")
        if k in FLAG:
            inv[k] = bytes.fromhex(v)
    return inv


def argv_of(inv):
    # `--flag=value`: the value is the value whatever it starts with (clap's tokenisation is not modelled)
    return [b"query"] + [FLAG[k].encode() + b"=" + inv[k] for k, _ in KEYS if k in inv]


def resolve(host):
    """what `format!("{}:0", host).to_socket_addrs()?.next()` answers: a bracketed IPv6 literal is parsed by std, anything else
    goes to getaddrinfo (same libc as the binary's); None = error / no address"""
    try:
        text = host.decode("utf-8")
    except UnicodeDecodeError:
        return None
    if not text or "\0" in text:
        return None
    m = re.fullmatch(r"\[([0-9A-Fa-f:.]+)\]", text)
    if m:
        try:
            return str(ipaddress.IPv6Address(m.group(1)))
        except ValueError:
            pass
    try:
        r = socket.getaddrinfo(host, None, type=socket.SOCK_STREAM)
    except (OSError, UnicodeError):
        return None
    return r[0][4][0] if r else None


def with_res(line):
    """the case line with the resolver's CURRENT answer for its host"""
    toks = [t for t in line.split(" ") if not t.startswith("res:")]
    inv = inv_of(line)
    if "i" in inv:
        ans = resolve(inv["i"])
        toks.append("res:" + (ans.encode().hex() if ans else "fail"))
    return " ".join(toks)


# ------------------------------------------------------------------ the real binary

def run_real(inv, timeout=60):
    p = subprocess.run([HOOK_CLI.encode()] + argv_of(inv), stdout=subprocess.PIPE, stderr=subprocess.PIPE, timeout=timeout,
                       env=dict(os.environ, GAMEDIG_VERIF_PLAN="1"))
    return p.returncode, p.stdout, p.stderr


def proto_of_debug(dbg):
    """`{:?}` of `Protocol` in the syntax of the generated table's `proto` / `engine` columns"""
    m = re.fullmatch(r"Valve\(Source\(Some\(\((\d+), (None|Some\((\d+)\))\)\)\)\)", dbg)
    if m:
        return "valve", "S:" + m.group(1) + (":" + m.group(3) if m.group(3) else "")
    m = re.fullmatch(r"Valve\(GoldSrc\((true|false)\)\)", dbg)
    if m:
        return "valve", "G:" + ("1" if m.group(1) == "true" else "0")
    m = re.fullmatch(r"Gamespy\((One|Two|Three)\)", dbg)
    if m:
        return "gs" + {"One": "1", "Two": "2", "Three": "3"}[m.group(1)], "-"
    m = re.fullmatch(r"Quake\((One|Two|Three)\)", dbg)
    if m:
        return "quake" + {"One": "1", "Two": "2", "Three": "3"}[m.group(1)], "-"
    if dbg == "Unreal2":
        return "unreal2", "-"
    m = re.fullmatch(r"PROPRIETARY\((.*)\)", dbg)
    if m:
        inner = m.group(1)
        inner = re.sub(r"Legacy\((\w+)\)", r"Server::Legacy(LegacyGroup::\1)", inner)
        inner = re.sub(r"Some\((Java|Bedrock)\)", r"Some(Server::\1)", inner)
        return "prop:" + inner, "-"
    return "?" + dbg, "-"


MODE_NAME = {"Generic": "generic", "ProtocolSpecific": "protocol-specific"}
FORMAT_NAME = {"Debug": "debug", "JsonPretty": "json-pretty", "Json": "json", "Xml": "xml", "BsonHex": "bson-hex", "BsonBase64": "bson-base64"}


def parse_plan(text):
    """`PLAN k=v k=v …` -> dict"""
    if not text.startswith("PLAN "):
        return None
    return dict(t.split("=", 1) for t in text[5:].split(" ") if "=" in t)


def canon_real(inv, rc, out, err):
    """the real binary's outcome in the text the model driver prints"""
    if b"panicked at" in err or rc == 101:
        return "CRASH"
    text = out.decode("utf-8", "replace").strip()
    if rc == 0:
        d = parse_plan(text)
        if d is None or "\n" in text:
            return "exit 0 without a plan: " + text[:200]
        try:
            proto, engine = proto_of_debug(bytes.fromhex(d["proto"]).decode())
            return (f"PLAN game={d['game']} defport={d['defport']} proto={proto} engine={engine} reqset={d['reqset']} host={d['host']} "
                    f"ip={d['ip']} port={d['port']} timeout={d['timeout']} extra={d['extra']} mode={MODE_NAME[d['mode']]} format={FORMAT_NAME[d['format']]}")
        except (KeyError, ValueError) as e:
            return f"unreadable plan ({e}): " + text[:200]
    if rc == 2:
        return "EXIT 2"
    if rc == 1:
        m = re.match(rb"Error: (UnknownGame|InvalidHostname)\(", err)
        if m:
            which = m.group(1).decode()
            value = inv.get("g" if which == "UnknownGame" else "i", b"")
            return f"EXIT 1 {which} x{value.hex()}"
        return "EXIT 1 other"
    return f"EXIT {rc}"


# ------------------------------------------------------------------ what the property says (not through the model)

def p_unsigned(v, bits):
    m = re.fullmatch(rb"\+?([0-9]+)", v)
    if not m:
        return None
    n = int(m.group(1))
    return n if n < 2 ** bits else None


def p_signed(v, bits):
    m = re.fullmatch(rb"([+-]?)([0-9]+)", v)
    if not m:
        return None
    n = int(m.group(2)) * (-1 if m.group(1) == b"-" else 1)
    return n if -(2 ** (bits - 1)) <= n < 2 ** (bits - 1) else None


def p_port(v):
    """clap reads a `u16` flag as an i64 and then checks the range"""
    n = p_signed(v, 64)
    return n if n is not None and 0 <= n <= 65535 else None


def is_utf8(v):
    try:
        v.decode("utf-8")
        return True
    except UnicodeDecodeError:
        return False


def host_class(host):
    """'literal' / 'name' where the text leaves no doubt, None otherwise"""
    try:
        text = host.decode("utf-8")
    except UnicodeDecodeError:
        return None
    if re.fullmatch(r"[0-9.]*", text):
        parts = text.split(".")
        if len(parts) == 4 and all(re.fullmatch(r"0|[1-9][0-9]{0,2}", p) and int(p) <= 255 for p in parts):
            return "literal"
        return "name"
    if re.search(r"[^0-9A-Fa-f:.]", text):
        return "name"
    if re.fullmatch(r"(?:[0-9A-Fa-f]{1,4}:){7}[0-9A-Fa-f]{1,4}", text) or (text.count("::") == 1 and re.fullmatch(r"[0-9A-Fa-f:]*", text)):
        try:
            ipaddress.IPv6Address(text)
            return "literal"
        except ValueError:
            return None
    return None


TOGGLE = {b"skip": "s", b"try": "t", b"enforce": "e"}
BOOL = {b"true": "T", b"false": "F"}


def flags_valid(inv):
    """does every given value satisfy its flag's documented type? (None where a required flag is missing)"""
    if "g" not in inv or "i" not in inv:
        return False
    ok = is_utf8(inv["g"]) and is_utf8(inv["i"])
    ok = ok and ("p" not in inv or p_port(inv["p"]) is not None)
    ok = ok and ("f" not in inv or inv["f"].decode("latin-1") in FORMATS)
    ok = ok and ("o" not in inv or inv["o"].decode("latin-1") in MODES)
    for k in ("ct", "rt", "wt"):
        ok = ok and (k not in inv or (p_unsigned(inv[k], 64) or 0) != 0)
    ok = ok and ("rn" not in inv or p_unsigned(inv["rn"], 64) is not None)
    ok = ok and ("hn" not in inv or is_utf8(inv["hn"]))
    ok = ok and ("pv" not in inv or p_signed(inv["pv"], 32) is not None)
    ok = ok and ("gp" not in inv or inv["gp"] in TOGGLE) and ("gr" not in inv or inv["gr"] in TOGGLE)
    ok = ok and ("ca" not in inv or inv["ca"] in BOOL)
    return ok


def games_table():
    d = json.load(open(os.path.join(vlib.WORK, "games.json")))
    return {g["id"]: g for g in d["defs"]}


def oracle(rep, line, inv, rc, out, err, games):
    """C19 / C14 / C18 on the implementation alone"""
    desc = "gamedig_cli " + " ".join(a.decode("utf-8", "backslashreplace") for a in argv_of(inv))

    def fail(sig, what):
        rep.oracle_failures.append((sig, what, line, f"exit {rc}, stdout {out[:120]!r}, stderr {err[-160:]!r}; {desc[:300]}"))

    if b"panicked at" in err or rc == 101:
        fail("cli-plan-panic", "the tool panicked")
        return
    if rc != 0 and (out.strip() or not err.strip()):
        fail("cli-plan-failure-output", "a failing invocation must print a message and nothing on stdout")
    valid = flags_valid(inv)
    if not valid:
        if rc == 0:
            fail("cli-plan-bad-flag-accepted", "an invalid flag value (or a missing required flag) was accepted")
        return
    if rc == 2:
        fail("cli-plan-good-flags-rejected", "every flag value is valid but the tool reports a usage error")
        return
    gid = inv["g"].decode()
    if gid not in games:
        if rc == 0:
            fail("cli-plan-unknown-game-accepted", "an unknown game id must end with an error")
        return
    cls = host_class(inv["i"])
    ans = resolve(inv["i"])
    if cls == "name" and ans is None:
        if rc == 0:
            fail("cli-plan-unresolvable-accepted", "a host that does not resolve must end with an error")
        return
    if cls is None:
        return
    if rc != 0:
        fail("cli-plan-valid-rejected", "a known game and a reachable host must not end with an error before the query")
        return
    d = parse_plan(out.decode("utf-8", "replace").strip())
    if d is None:
        fail("cli-plan-unreadable", "no plan printed")
        return
    g = games[gid]
    proto, engine = proto_of_debug(bytes.fromhex(d["proto"]).decode())
    # C14: the query issued is the generic query of the looked-up game …
    if (bytes.fromhex(d["game"]).decode(), int(d["defport"]), proto, engine) != (g["name"], g["port"], g["proto"], g["engine"]):
        fail("cli-plan-call:game", f"the game handed to the library is not the definition of '{gid}'")
    # … at the literal / the resolved address, with the caller's port …
    want_ip = inv["i"].decode() if cls == "literal" else ans
    try:
        same_ip = ipaddress.ip_address(d["ip"]) == ipaddress.ip_address(want_ip)
    except ValueError:
        same_ip = False
    if not same_ip:
        fail("cli-plan-call:address", f"address {d['ip']} but the host is {want_ip}")
    want_port = str(p_port(inv["p"])) if "p" in inv else "-"
    if d["port"] != want_port:
        fail("cli-plan-call:port", f"port {d['port']} handed over, the caller gave {want_port}")
    # … the caller's timeouts and retries (C18: exactly the accepted values; defaults only for omitted flags of a group in use) …
    if any(k in inv for k in ("ct", "rt", "wt", "rn")):
        dur = lambda k: f"+{p_unsigned(inv[k], 64)}:0" if k in inv else "+4:0"
        want_t = f"c{dur('ct')},r{dur('rt')},w{dur('wt')},n{p_unsigned(inv['rn'], 64) if 'rn' in inv else 0}"
    else:
        want_t = "-"
    if d["timeout"] != want_t:
        fail("cli-plan-call:timeout", f"timeout settings {d['timeout']} handed over, the flags say {want_t}")
    # … and the caller's extra settings, the host name added iff the host was a name and none was given
    hn = inv.get("hn")
    if hn is None and cls == "name":
        hn = inv["i"]
    fields = ["=" + hn.hex() if hn is not None else "-",
              str(p_signed(inv["pv"], 32)) if "pv" in inv else "-",
              TOGGLE[inv["gp"]] if "gp" in inv else "-", TOGGLE[inv["gr"]] if "gr" in inv else "-",
              BOOL[inv["ca"]] if "ca" in inv else "-"]
    want_e = "-" if all(f == "-" for f in fields) else "E" + ":".join(fields)
    if d["extra"] != want_e:
        fail("cli-plan-call:extra", f"extra settings {d['extra']} handed over, expected {want_e}")
    if MODE_NAME.get(d["mode"]) != (inv["o"].decode() if "o" in inv else "generic") or FORMAT_NAME.get(d["format"]) != (inv["f"].decode() if "f" in inv else "debug"):
        fail("cli-plan-call:output", f"mode {d['mode']} / format {d['format']} differ from the flags")
    if d["host"] != cls:
        fail("cli-plan-call:host-class", f"the host was treated as a {d['host']}")


def run(rep, lines, count="cli-plan"):
    """run the plan cases on the real binary and on the model; returns [(line, real canonical, model)]"""
    if not lines:
        return []
    ok, log = build_hook_cli()
    if not ok:
        rep.tie_failures.append("the CLI does not build with the verification hook: " + log[-800:])
        return []
    games = games_table()
    lines = [with_res(l) for l in lines]
    model = vlib.run_model(lines)
    res = []
    for l in lines:
        cid = l.split(" ", 1)[0]
        inv = inv_of(l)
        try:
            rc, out, err = run_real(inv)
        except subprocess.TimeoutExpired:
            rep.oracle_failures.append(("cli-plan-hang", "did not return within 60 s", l, ""))
            continue
        except ValueError:  # a NUL byte cannot be passed as an argument
            continue
        real = canon_real(inv, rc, out, err)
        m = model.get(cid, "<no output>")
        rep.seen(l, real, trivial=False)
        rep.count(f"{count}:" + real.split(" ")[0] + (real.split(" ")[1] if real.startswith("EXIT") else ""))
        if m != real:
            rep.divergences.append((l, m, real, err[-200:].decode("utf-8", "replace") if real == "CRASH" else ""))
        oracle(rep, l, inv, rc, out, err, games)
        res.append((l, real, m))
    return res


# ------------------------------------------------------------------ generators

V4 = ["127.0.0.1", "0.0.0.0", "255.255.255.255", "1.2.3.4", "10.0.0.255", "192.168.100.200", "9.99.199.249"]
V4_NEAR = ["256.1.1.1", "1.2.3.04", "01.2.3.4", "1.2.3", "1.2.3.4.5", "127.1", "0x7f.1", "2130706433", "1.2.3.4 ", " 1.2.3.4", "1.2.3.-4",
           "1..3.4", "1.2.3.", ".1.2.3.4", "1.2.3.4.", "1000.1.1.1", "1.2.3.a", "١.٢.٣.٤", "1.2.3.4/8", "000.0.0.0", "0.0.0.00"]
V6 = ["::1", "::", "1::", "::ffff:1.2.3.4", "1:2:3:4:5:6:7:8", "1:2:3:4:5:6:7::", "::2:3:4:5:6:7:8", "1::8", "1:2::7:8", "fe80::1", "FE80::ABCD",
      "2001:db8:0:0:1:0:0:1", "2001:0db8:0000:0000:0000:0000:0000:0001", "1:2:3:4:5:6:7.8.9.10", "::7.8.9.10", "1::7.8.9.10", "64:ff9b::192.0.2.33",
      "0:0:0:0:0:ffff:102:304", "0:0:0:0:0:0:0:1", "a:b:c:d:e:f:0:1", "ffff:ffff:ffff:ffff:ffff:ffff:ffff:ffff", "::ffff:255.255.255.255", "0::0", "1:0:0:2::3"]
V6_NEAR = ["::1%lo", "fe80::1%1", "[::1]", "[1::2]", "[::ffff:1.2.3.4]", "1:2:3:4:5:6:7", "1:2:3:4:5:6:7:8:9", "1:2:3:4:5:6:7::8", "1::2::3", ":::", ":1", "1:", "::1:",
           ":1::", "12345::", "00001::", "g::1", "1:2:3:4:5:6:1.2.3.4.5", "1.2.3.4::", "::1.2.3", "::1.2.3.256", "::01.2.3.4", "1:2:3:4:5:6:7:1.2.3.4", "::ffff:1.2.3.4:5",
           "1:2:3:4:5:6:7.8.9.10:1", "::-1", "::+1", " ::1", "::1 ", "0x1::", "::1/128", "1::2:3:4:5:6:7:8"]
NAMES = ["localhost", "LOCALHOST", "localhost.", "no-such-host.invalid", "a.b.c.invalid", "exämple.invalid", "a b", "", "-", "x", "example.invalid:80",
         "日本語.invalid", "xn--nxasmq6b.invalid", "host_with_underscore.invalid", "a" * 63 + ".invalid", "a" * 300]
UNKNOWN_GAMES = ["nosuchgame", "", " ", "TEAMFORTRESS2", "teamfortress", "teamfortress22", "teamfortress2 ", " teamfortress2", "tf2", "csgo\t", "é", "日本語", "😀", "a" * 4000,
                 "minecraft́", "ｍｉｎｅｃｒａｆｔ", "q3a/", "../q3a", "q3a\n", "--", "-g", "=", "q3a=q3a"]
NUMS = ["0", "00", "+0", "1", "+1", "01", "4", "65535", "65536", "2147483647", "2147483648", "4294967295", "4294967296", str(U64 - 1), str(U64), str(U64 * 10),
        "-1", "-0", "1.5", "1e3", "abc", "", " 1", "1 ", "+", "-", "++1", "0x10", "１", "1_000", "nan", "inf"]
INTS = ["0", "-0", "+0", "1", "-1", "+5", "47", "2147483647", "2147483648", "-2147483648", "-2147483649", "abc", "", "1.0", " 1", "--1", "+-1", "００"]
TOGGLES = ["skip", "try", "enforce", "Skip", "TRY", "", "tr", "tryy", "enforce ", "s", "true"]
BOOLS = ["true", "false", "True", "FALSE", "1", "0", "yes", "", "t", "true "]
FORMAT_BAD = ["JSON", "Json", "json_pretty", "jsonpretty", "json-", "", "yaml", "bson", "bson-hex ", "debug\n", "xml1.1", "j"]
MODE_BAD = ["Generic", "protocol_specific", "protocolspecific", "ProtocolSpecific", "", "protocol", "generic "]
HOSTNAMES = ["x", "", "mc.example.org", "é日😀", "a" * 255, "a" * 256, "with space", "-leading-dash", "=", "a=b"]


def gen(seed, tier, games=None):
    """invocations: every game id, every kind of host text, every flag alone and in combination with the others of its group,
    boundary values of every typed flag, every mode x format"""
    rnd = random.Random(seed)
    games = games or games_table()
    ids = sorted(games)
    invs = []
    e = lambda s: s.encode("utf-8") if isinstance(s, str) else s
    base = lambda **kw: dict({"g": b"teamfortress2", "i": b"127.0.0.1"}, **{k: e(v) for k, v in kw.items()})
    # every game of the table: port omitted and given, a literal and a name
    for k, gid in enumerate(ids):
        invs.append(base(g=gid))
        invs.append(base(g=gid, i=rnd.choice(V6), p=str(rnd.choice([0, 1, 80, 27015, 65535]))))
        invs.append(base(g=gid, i="localhost", **({"hn": rnd.choice(HOSTNAMES)} if k % 3 == 0 else {})))
    for g in UNKNOWN_GAMES + [b"\xff", b"q3a\xc3", b"\xed\xa0\x80"]:
        invs.append(base(g=g))
        invs.append(base(g=g, i="no-such-host.invalid"))
    # hosts
    for h in V4 + V4_NEAR + V6 + V6_NEAR + NAMES + [b"\xff\xfe", b"localhost\xc3"]:
        invs.append(base(g=rnd.choice(ids), i=h))
        invs.append(base(g=rnd.choice(ids), i=h, hn="given.example"))
        invs.append(base(g=rnd.choice(ids), i=h, gp="try"))
    # random address texts: literals rebuilt from random values in every notation, and single-character damage to them
    n_rand = 150 if tier == "quick" else 4000
    for _ in range(n_rand):
        t = random_address_text(rnd)
        invs.append(base(g=rnd.choice(ids), i=t))
    # required flags missing
    invs += [{"i": b"127.0.0.1"}, {"g": b"q3a"}, {}]
    # typed flags: every boundary value of each
    for v in NUMS:
        invs.append(base(p=v))
        for k in ("ct", "rt", "wt", "rn"):
            invs.append(base(**{k: v}))
    for v in INTS:
        invs.append(base(g="minecraft", pv=v))
    for v in TOGGLES:
        invs.append(base(gp=v))
        invs.append(base(gr=v))
    for v in BOOLS:
        invs.append(base(ca=v))
    for v in HOSTNAMES:
        invs.append(base(g="minecraftjava", hn=v))
        invs.append(base(g="eco", i="localhost", hn=v))
    for v in FORMATS + FORMAT_BAD:
        invs.append(base(f=v))
    for v in MODES + MODE_BAD:
        invs.append(base(o=v))
    for f in FORMATS:
        for o in MODES:
            invs.append(base(g=rnd.choice(ids), f=f, o=o))
    # every presence pattern of the two flattened groups (the group is `Some` iff one of its flags occurs)
    tkeys, ekeys = ("ct", "rt", "wt", "rn"), ("hn", "pv", "gp", "gr", "ca")
    tval = {"ct": ["1", "7", str(U64 - 1)], "rt": ["2", "4", "+9"], "wt": ["3", "18446744073709551615", "05"], "rn": ["0", "1", str(U64 - 1)]}
    evals = {"hn": ["h.example", ""], "pv": ["-1", "765"], "gp": ["skip", "try", "enforce"], "gr": ["skip", "try", "enforce"], "ca": ["true", "false"]}
    for mask in range(16):
        for emask in (range(32) if tier != "quick" or mask in (0, 5, 15) else (0, 1, 31, rnd.randrange(32))):
            kw = {k: rnd.choice(tval[k]) for j, k in enumerate(tkeys) if mask >> j & 1}
            kw.update({k: rnd.choice(evals[k]) for j, k in enumerate(ekeys) if emask >> j & 1})
            invs.append(base(g=rnd.choice(ids), i=rnd.choice(["127.0.0.1", "::1", "localhost"]), **kw))
    # one invalid value among valid ones, in every position
    good = {"p": "80", "f": "json", "o": "generic", "ct": "1", "rt": "2", "wt": "3", "rn": "4", "hn": "h", "pv": "5", "gp": "try", "gr": "skip", "ca": "true"}
    bad = {"p": "65536", "f": "Json", "o": "Generic", "ct": "0", "rt": "00", "wt": "+0", "rn": "-1", "pv": "2147483648", "gp": "Try", "gr": "", "ca": "1"}
    for k in bad:
        invs.append(base(**dict(good, **{k: bad[k]})))
    invs.append(base(**good))
    # random mixtures
    for _ in range(100 if tier == "quick" else 3000):
        kw = {}
        pools = {"p": NUMS, "ct": NUMS, "rt": NUMS, "wt": NUMS, "rn": NUMS, "pv": INTS, "gp": TOGGLES, "gr": TOGGLES, "ca": BOOLS, "hn": HOSTNAMES,
                 "f": FORMATS + FORMAT_BAD[:3], "o": MODES + MODE_BAD[:2]}
        for k, pool in pools.items():
            if rnd.random() < 0.25:
                # mostly acceptable values, so that the other flags are looked at
                kw[k] = rnd.choice(pool[:6] if rnd.random() < 0.7 else pool)
        invs.append(base(g=rnd.choice(ids + UNKNOWN_GAMES[:3]), i=rnd.choice(V4 + V6 + NAMES[:4] + V4_NEAR[:6] + V6_NEAR[:6]), **kw))
    return [line_of(f"p{k}", inv) for k, inv in enumerate(invs) if all(b"\0" not in v for v in inv.values())]


def random_address_text(rnd):
    kind = rnd.randrange(6)
    if kind == 0:
        t = ".".join(str(rnd.choice([0, 1, 9, 10, 99, 100, 199, 200, 249, 250, 255, 256, rnd.randrange(256)])) for _ in range(4))
    else:
        groups = [rnd.choice([0, 0, 0, 1, 0xFFFF, 0xABCD, 0x10, rnd.randrange(65536)]) for _ in range(8)]
        fmt = rnd.choice(["%x", "%X", "%04x", "%x", "%x"])
        parts = [fmt % g for g in groups]
        if kind in (2, 3):  # compress a run (of zeros or not: the text decides, not the values)
            a = rnd.randrange(0, 8)
            b = rnd.randrange(a, 9)
            parts = parts[:a] + [""] + parts[b:] if 0 < a and b < 8 else ([""] * 2 + parts[b:] if a == 0 and b < 8 else (parts[:a] + [""] * 2 if b == 8 and a > 0 else ["", "", ""]))
        if kind in (3, 4) and len(parts) >= 2 and parts[-1] and parts[-2]:
            parts = parts[:-2] + [".".join(str(rnd.randrange(256)) for _ in range(4))]
        t = ":".join(parts)
    if rnd.random() < 0.35 and t:
        i = rnd.randrange(len(t) + 1)
        op = rnd.randrange(3)
        c = rnd.choice(":.0123456789abcdefFg% -+[]x")
        t = t[:i] + c + t[i:] if op == 0 else (t[:i] + t[i + 1:] if op == 1 else t[:i] + c + t[i + 1:])
    return t


# ------------------------------------------------------------------ codec / JSON entries (model against the crates in the harness)

TEXT_ALPHABET = ["a", "Z", "0", " ", "\"", "\\", "/", "\b", "\f", "\n", "\r", "\t", "\0", "\x01", "\x1f", "\x7f", "\x80", "\x85", "\xa0", "\u00e9", "\u00df", "\u20ac",
                 "\u2028", "\u2029", "\ud7ff", "\ue000", "\ufffd", "\uffff", "\U00010000", "\U0001f600", "\U0010ffff", "<", ">", "&", "'", "\u65e5", "\u0301", "u", "n",
                 "{", "}", "[", "]", ":", ","]
NUM_TEXTS = ["0", "-1", "1", "7", "255", "65536", "4294967296", "9223372036854775807", "9223372036854775808", "18446744073709551615", "-9223372036854775808",
             "1.5", "-0.25", "0.1", "123456.789", "1e-7", "1e+21", "-2.5e-10", "1.7976931348623157e+308", "5e-324", "0.0", "-0.0", "100.0"]


def rand_text(rnd, maxlen=8):
    return "".join(rnd.choice(TEXT_ALPHABET) for _ in range(rnd.randrange(0, maxlen)))


def rand_tree(rnd, depth=0):
    """a JSON value as tokens (see lean/GdVerif/Run/Cli.lean)"""
    k = rnd.randrange(9 if depth < 4 else 5)
    if k == 0:
        return ["N"]
    if k == 1:
        return [rnd.choice(["T", "F"])]
    if k == 2:
        return ["#" + rnd.choice(NUM_TEXTS).encode().hex()]
    if k in (3, 4):
        return ["S" + rand_text(rnd).encode("utf-8", "surrogatepass").hex()]
    if k in (5, 6):
        n = rnd.choice([0, 1, 1, 2, 3, 5])
        out = [f"A{n}"]
        for _ in range(n):
            out += rand_tree(rnd, depth + 1)
        return out
    n = rnd.choice([0, 1, 1, 2, 3, 4])
    out = [f"O{n}"]
    for _ in range(n):
        out += [rand_text(rnd, 5).encode("utf-8").hex() or "-"] + rand_tree(rnd, depth + 1)
    return out


def py_tree(rnd, depth=0):
    k = rnd.randrange(9 if depth < 4 else 5)
    if k == 0:
        return None
    if k == 1:
        return rnd.choice([True, False])
    if k == 2:
        return rnd.choice([0, -1, 1, 255, 2 ** 53, 2 ** 64 - 1, -2 ** 63, 0.5, -2.25, 1234.5])
    if k in (3, 4):
        return rand_text(rnd)
    if k in (5, 6):
        return [py_tree(rnd, depth + 1) for _ in range(rnd.choice([0, 1, 2, 3]))]
    return {rand_text(rnd, 5): py_tree(rnd, depth + 1) for _ in range(rnd.choice([0, 1, 2, 3]))}


BAD_JSON = ['', ' ', '{', '}', '[', ']', '[1,]', '[,1]', '{"a":1,}', '{"a"}', '{"a":}', '{a:1}', "{'a':1}", '[1 2]', '01', '1.', '.5', '+1', '-', '1e', '1e+', '--1', 'NaN', 'nul', 'nulll',
            'tru', 'True', '"abc', '"\\x"', '"\\u12"', '"\\ud800"', '"\\udc00"', '"\\ud800\\u0041"', '"\\ud800\\ud800"', '"\x01"', '"\n"', '"\t"', '1 2', '[] []', '{} x', '\ufeff1',
            '"\\ud83d\\ude00"', '"\\u0000"', '"\\/"', '[[[[[[[[[[]]]]]]]]]]', '{"a":{"a":{"a":[]}}}', '{"a":1,"a":2}', ' \t\r\n[ \t\r\n1 \t\r\n, \t\r\n2 \t\r\n] \t\r\n',
            '"\x7f"', '"\u0080"', '[1,\x0b2]', '[1,\xa02]']


def codec_cases(seed, tier):
    rnd = random.Random(seed)
    cases = []
    n = 0

    def add(entry, *args):
        nonlocal n
        n += 1
        cases.append(" ".join([f"k{n}", entry] + list(args)))
    hx = lambda b: b.hex() or "-"
    # address texts
    for t in V4 + V4_NEAR + V6 + V6_NEAR + NAMES[:8]:
        add("ip-parse", hx(t.encode()))
    for _ in range(1500 if tier == "quick" else 60000):
        add("ip-parse", hx(random_address_text(rnd).encode()))
    # byte strings of every length 0..70, around block sizes, random content
    blobs = [bytes(rnd.randrange(256) for _ in range(l)) for l in list(range(0, 71)) + [255, 256, 257, 1023, 1024, 1025, 65535, 65536, 65537]]
    blobs += [bytes([b]) for b in range(256)] + [bytes([0] * l) for l in (1, 2, 3, 4)] + [bytes([255] * l) for l in (1, 2, 3, 4)]
    blobs += [bytes([a, b]) for a in (0, 3, 252, 255) for b in (0, 15, 16, 240, 255)]
    for b in blobs:
        add("hex-enc", hx(b))
        add("b64-enc", hx(b))
        add("hex-dec", hx(b.hex().encode()))
        add("b64-dec", hx(__import__("base64").b64encode(b)))
    # damaged encodings
    import base64 as b64
    for b in blobs[:40] + blobs[71:74]:
        for text, entry in ((b.hex(), "hex-dec"), (b64.b64encode(b).decode(), "b64-dec")):
            for _ in range(4):
                t = text
                i = rnd.randrange(len(t) + 1)
                op = rnd.randrange(5)
                c = rnd.choice("=Ag0/+-_ \nzZ9fFG")
                if op == 0:
                    t = t[:i] + c + t[i:]
                elif op == 1:
                    t = t[:i] + t[i + 1:]
                elif op == 2:
                    t = t[:i] + c + t[i + 1:]
                elif op == 3:
                    t = t.rstrip("=")
                else:
                    t = t.upper() if rnd.random() < 0.5 else t + "="
                add(entry, hx(t.encode()))
    # JSON: printer (both styles) on random values; reader on documents written by Python (escapes of every kind, surrogate pairs,
    # white space of every kind) and on damaged ones
    for _ in range(400 if tier == "quick" else 12000):
        toks = rand_tree(rnd)
        add("json-print", "c", *toks)
        add("json-print", "p", *toks)
    for _ in range(400 if tier == "quick" else 12000):
        v = py_tree(rnd)
        style = rnd.randrange(4)
        doc = json.dumps(v, ensure_ascii=rnd.random() < 0.5, indent=[None, 2, 1, "\t"][style],
                         separators=[(",", ":"), None, (" , ", " : "), None][style])
        add("json-read", hx(doc.encode()))
        if rnd.random() < 0.3 and doc:
            i = rnd.randrange(len(doc))
            add("json-read", hx((doc[:i] + rnd.choice(['"', "\\", ",", "]", "}", " ", "x", "0", ""]) + doc[i + 1:]).encode("utf-8", "replace")))
    for d in BAD_JSON:
        add("json-read", hx(d.encode("utf-8", "surrogatepass") if isinstance(d, str) else d))
    return cases


CODEC_ENTRIES = ("ip-parse", "hex-enc", "hex-dec", "b64-enc", "b64-dec", "json-print", "json-read", "bson-enc", "bson-dec")


def is_codec(line):
    t = line.split(" ")
    return len(t) > 1 and t[1] in CODEC_ENTRIES


def same_tokens(a, b):
    """two token lists of `json-read`; number texts are compared as numbers (serde_json prints the number it read, the model
    hands back the text it read)"""
    ta, tb = a.split(" "), b.split(" ")
    if len(ta) != len(tb):
        return False
    for x, y in zip(ta, tb):
        if x == y:
            continue
        if not (x.startswith("#") and y.startswith("#")):
            return False
        try:
            nx, ny = json.loads(bytes.fromhex(x[1:])), json.loads(bytes.fromhex(y[1:]))
        except ValueError:
            return False
        if nx != ny or (isinstance(nx, float) and isinstance(ny, float) and str(nx)[0] != str(ny)[0]):
            return False
    return True


def run_codec(rep, cases, tag="clicodec"):
    """model against the crates / std (harness entries of harness/src/cli.rs)"""
    if not cases:
        return
    model = vlib.run_model(cases)
    impl, panics = vlib.run_impl(cases, tag=tag)
    for c in cases:
        cid, entry = c.split(" ", 2)[:2]
        m, i = model.get(cid, "<no output>"), impl.get(cid, "<no output>")
        rep.seen(c[:300], i[:300])
        rep.count("codec:" + entry)
        if i in ("CRASH", "ABORT", "HANG"):
            rep.oracle_failures.append(("codec-crash:" + entry, panics.get(cid, ""), c[:2000], i))
        elif entry == "bson-dec" and m == "bad" and i == "unsupported":
            # a document the crate reads but that holds an element type its serialiser never writes for a response (the model's
            # reader covers the types the serialiser writes)
            rep.count("codec:bson-dec:other-element-type")
        elif m != i and not (entry == "json-read" and same_tokens(m, i)):
            rep.divergences.append((c[:2000], m[:600], i[:600], panics.get(cid, "")))


def gen_c14(seed, tier, games=None):
    """C14 through the command line: for EVERY game of the table the query the tool issues — port omitted / given, no settings /
    timeout settings / extra settings of every shape, an address literal / a name"""
    rnd = random.Random(seed)
    games = games or games_table()
    invs = []
    e = lambda s: s.encode("utf-8") if isinstance(s, str) else s
    for gid in sorted(games):
        for k in range(4 if tier == "quick" else 24):
            inv = {"g": e(gid), "i": e(rnd.choice(["127.0.0.1", "::1", "10.1.2.3", "2001:db8::7", "localhost", "LOCALHOST"]))}
            if k % 2:
                inv["p"] = e(str(rnd.choice([0, 1, 80, games[gid]["port"], 65535, rnd.randrange(65536)])))
            if k % 4 >= 2 or rnd.random() < 0.3:
                for key, pool in (("ct", ["1", "9"]), ("rt", ["2", "30"]), ("wt", ["3", str(U64 - 1)]), ("rn", ["0", "1", "5", str(U64 - 1)])):
                    if rnd.random() < 0.5:
                        inv[key] = e(rnd.choice(pool))
            if k >= 1:
                for key, pool in (("hn", ["mc.example.org", "", "gm", "é.example"]), ("pv", ["-1", "0", "47", "2147483647", "-2147483648"]),
                                  ("gp", ["skip", "try", "enforce"]), ("gr", ["skip", "try", "enforce"]), ("ca", ["true", "false"])):
                    if rnd.random() < 0.4:
                        inv[key] = e(rnd.choice(pool))
            invs.append(inv)
    return [line_of(f"q{k}", inv) for k, inv in enumerate(invs)]


def gen_c18(seed, tier):
    """C18 through the command line: the timeout flags of the real tool (an `Option` of the flattened group) over the spellings of
    zero, the extremes and the malformed values; every presence pattern of the four flags"""
    rnd = random.Random(seed)
    vals = ["0", "00", "+0", "1", "4", str(U64 - 1), str(U64), "-1", "1.5", "abc", "", "nan", "inf", "1e30", "1e-10", "0.0", "-0", "+", " 1", "0x1"]
    retries = ["0", "1", "2", str(U64 - 2), str(U64 - 1), str(U64), "-1", "x", "", "+7", "-0"]
    invs = []
    e = lambda s: s.encode("utf-8")
    base = lambda **kw: dict({"g": b"teamfortress2", "i": b"127.0.0.1"}, **{k: e(v) for k, v in kw.items()})
    for k in ("ct", "rt", "wt"):
        for v in vals:
            invs.append(base(**{k: v}))
            invs.append(base(**{k: v, "rn": rnd.choice(retries[:5])}))
    for v in retries:
        invs.append(base(rn=v))
        invs.append(base(rn=v, rt="3"))
    triples = [(a, b, c) for a in vals[:7] + [None] for b in vals[:7] + [None] for c in vals[:7] + [None]]
    if tier == "quick":
        triples = rnd.sample(triples, 120)
    for a, b, c in triples:
        kw = {k: v for k, v in (("ct", a), ("rt", b), ("wt", c)) if v is not None}
        if rnd.random() < 0.5:
            kw["rn"] = rnd.choice(retries[:6])
        invs.append(base(**kw))
    return [line_of(f"t{k}", inv) for k, inv in enumerate(invs)]
