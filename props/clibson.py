"""C19: case lines for the BSON model (`bson-enc` / `bson-dec`, lean/GdVerif/Proto/CliBson.lean against the bson crate in
harness/src/cli.rs), an independent BSON writer to make documents for the readers, and the translation of the model's tokens
to Python values."""
import random, struct

KINDS = {"i8": (-2 ** 7, 2 ** 7 - 1), "i16": (-2 ** 15, 2 ** 15 - 1), "i32": (-2 ** 31, 2 ** 31 - 1), "i64": (-2 ** 63, 2 ** 63 - 1),
         "u8": (0, 2 ** 8 - 1), "u16": (0, 2 ** 16 - 1), "u32": (0, 2 ** 32 - 1), "u64": (0, 2 ** 64 - 1)}
WIDE = {"i64", "u32", "u64"}
F64_BITS = [0, 1 << 63, 0x3FF8000000000000, 0x7FF0000000000000, 0xFFF0000000000000, 0x7FF8000000000000, 0x7FF0000000000001, 0xFFFFFFFFFFFFFFFF,
            1, 0x000FFFFFFFFFFFFF, 0x7FEFFFFFFFFFFFFF, 0x3FB999999999999A, 0xC004000000000000]
ALPHABET = ["a", "Z", "0", " ", "\"", "\\", "/", "\n", "\t", "\x01", "\x7f", "\x80", "\u00e9", "\u20ac", "\ud7ff", "\ue000", "\uffff", "\U00010000",
            "\U0001f600", "\U0010ffff", "$", ".", "<", "&", "\u65e5", "\u0301", "{", ":", ","]
ODD_KEYS = ["", " ", "$numberLong", "$oid", "$symbol", "$date", "$", "a.b", ".", "0", "1", "00", "-1", "\u00e9\u20ac", "\U0001f600", "k" * 300, "\x01", "\x7f",
            "a b", "a\tb", "\"", "\\", "_id", "\ufeff"]


def text(rnd, maxlen=8, nul=False):
    return "".join(rnd.choice(ALPHABET + (["\0"] if nul else [])) for _ in range(rnd.randrange(0, maxlen)))


def number(rnd):
    if rnd.random() < 0.25:
        return ("D", rnd.choice(F64_BITS + [rnd.getrandbits(64)]))
    kind = rnd.choice(list(KINDS))
    lo, hi = KINDS[kind]
    pool = [lo, hi, 0, 1, lo + 1, hi - 1, hi // 2, rnd.randint(lo, hi)]
    pool += [x for x in (-1, 127, 128, 255, 256, 2 ** 31 - 1, 2 ** 31, -2 ** 31, -2 ** 31 - 1, 2 ** 32, 2 ** 63 - 1, 2 ** 63, 2 ** 63 + 1) if lo <= x <= hi]
    return ("I", kind, rnd.choice(pool))


def tree(rnd, depth=0, nul_keys=False):
    k = rnd.randrange(10 if depth < 5 else 6)
    if k == 0:
        return ("N",)
    if k == 1:
        return ("B", rnd.random() < 0.5)
    if k in (2, 3):
        return number(rnd)
    if k in (4, 5):
        return ("S", text(rnd, 8, nul=True))
    if k in (6, 7):
        return ("A", [tree(rnd, depth + 1, nul_keys) for _ in range(rnd.choice([0, 1, 2, 3, 11]))])
    return doc(rnd, depth + 1, nul_keys)


def key(rnd, nul_keys):
    r = rnd.random()
    if r < 0.2:
        return rnd.choice(ODD_KEYS)
    if nul_keys and r < 0.3:
        i = rnd.randrange(3)
        return ("\0", "a\0", "a\0b")[i]
    return text(rnd, 6)


def doc(rnd, depth=0, nul_keys=False, n=None):
    n = rnd.choice([0, 1, 2, 3, 4]) if n is None else n
    return ("O", [(key(rnd, nul_keys), tree(rnd, depth, nul_keys)) for _ in range(n)])


def tokens(v):
    t = v[0]
    if t == "N":
        return ["N"]
    if t == "B":
        return ["T" if v[1] else "F"]
    if t == "I":
        return [f"I{v[1]}:{v[2]}"]
    if t == "D":
        return [f"D{v[1]:016x}"]
    if t == "S":
        return ["S" + v[1].encode("utf-8").hex()]
    if t == "A":
        out = [f"A{len(v[1])}"]
        for x in v[1]:
            out += tokens(x)
        return out
    out = [f"O{len(v[1])}"]
    for k, x in v[1]:
        out += [k.encode("utf-8").hex() or "-"] + tokens(x)
    return out


class Unrepresentable(Exception):
    pass


def write(v):
    """independent BSON writer (from bsonspec.org): (type byte, payload)"""
    t = v[0]
    if t == "N":
        return 0x0A, b""
    if t == "B":
        return 0x08, b"\x01" if v[1] else b"\x00"
    if t == "I":
        if v[1] in WIDE:
            if v[2] > 2 ** 63 - 1:
                raise Unrepresentable()
            return 0x12, struct.pack("<q", v[2])
        return 0x10, struct.pack("<i", v[2])
    if t == "D":
        return 0x01, struct.pack("<Q", v[1])
    if t == "S":
        b = v[1].encode("utf-8")
        return 0x02, struct.pack("<i", len(b) + 1) + b + b"\0"
    members = [(str(i), x) for i, x in enumerate(v[1])] if t == "A" else v[1]
    body = b""
    for k, x in members:
        if "\0" in k:
            raise Unrepresentable()
        tt, p = write(x)
        body += bytes([tt]) + k.encode("utf-8") + b"\0" + p
    return (0x04 if t == "A" else 0x03), struct.pack("<i", len(body) + 5) + body + b"\0"


def nest(depth, leaf, arrays):
    v = leaf
    for d in range(depth):
        v = ("A", [v]) if arrays and d % 2 else ("O", [("d", v)])
    return v if v[0] == "O" else ("O", [("top", v)])


def damage(rnd, b):
    op = rnd.randrange(7)
    i = rnd.randrange(len(b))
    if op == 0:
        return b[:i] + bytes([rnd.randrange(256)]) + b[i + 1:]
    if op == 1:
        return b[:i] + b[i + 1:]
    if op == 2:
        return b[:i] + bytes([rnd.choice([0, 1, 2, 3, 4, 8, 10, 16, 18, 255])]) + b[i:]
    if op == 3:
        return b[:rnd.randrange(len(b))]
    if op == 4:
        return b + bytes([rnd.choice([0, 5])])
    if op == 5:
        n = max(0, min(2 ** 32 - 1, struct.unpack_from("<I", b, 0)[0] + rnd.choice([-1, 1, 4, -4])))
        return struct.pack("<I", n) + b[4:]
    return b[:i] + bytes([b[i] ^ (1 << rnd.randrange(8))]) + b[i + 1:]


def cases(seed, tier):
    rnd = random.Random(seed + 77)
    out = []
    n = 0

    def add(entry, *args):
        nonlocal n
        n += 1
        out.append(" ".join([f"b{n}", entry] + list(args)))

    values = [("O", []), ("A", []), ("N",), ("S", "x"), ("I", "u64", 2 ** 63), ("I", "u64", 5), ("B", True), ("D", 0)]
    # every integer type at its limits, next to the limits of the BSON types, and the u64 values BSON has no type for
    for kind, (lo, hi) in KINDS.items():
        for x in {lo, hi, 0, 1, lo + 1, hi - 1} | {x for x in (-1, 2 ** 31 - 1, 2 ** 31, -2 ** 31, -2 ** 31 - 1, 2 ** 63 - 1, 2 ** 63, 2 ** 64 - 1) if lo <= x <= hi}:
            values.append(("O", [("n", ("I", kind, x))]))
    values += [("O", [("f", ("D", b))]) for b in F64_BITS]
    # strings: empty, with NUL inside, non-ASCII, long
    for s in ["", "\0", "a\0b", "\u00e9\u20ac\U0001f600", "x" * 127, "x" * 128, "y" * 255, "z" * 256, "\u65e5" * 5000, "w" * 70000]:
        values.append(("O", [("s", ("S", s))]))
    # keys with odd characters, a key twice, keys with NUL (first error in walking order: NUL key before / after a refused u64)
    values += [("O", [(k, ("I", "u8", 1))]) for k in ODD_KEYS]
    values += [("O", [("a", ("N",)), ("a", ("B", False))]), ("O", [("a\0", ("N",))]), ("O", [("\0", ("N",))]),
               ("O", [("k\0", ("I", "u64", 2 ** 64 - 1))]), ("O", [("k", ("I", "u64", 2 ** 64 - 1)), ("z\0", ("N",))]),
               ("O", [("z\0", ("N",)), ("k", ("I", "u64", 2 ** 64 - 1))]), ("O", [("o", ("O", [("i\0", ("N",))])), ("k", ("I", "u64", 2 ** 63))]),
               ("A", [("I", "u64", 2 ** 63)]), ("O", [("a", ("A", [("N",), ("I", "u64", 2 ** 63)]))])]
    # arrays of 0 \u2026 2500 items (index keys of 1 \u2026 4 digits), deep nesting
    for ln in [0, 1, 2, 9, 10, 11, 99, 100, 101, 999, 1000, 1001, 2500] + ([rnd.randrange(2500) for _ in range(3)] if tier == "quick" else list(range(0, 2500, 37))):
        values.append(("O", [("a", ("A", [number(rnd) if i % 3 else ("S", text(rnd, 4)) for i in range(ln)]))]))
    for depth in [1, 2, 3, 10, 40, 120]:
        values += [nest(depth, ("I", "i32", depth), False), nest(depth, ("S", "leaf"), True)]
    for _ in range(400 if tier == "quick" else 20000):
        values.append(doc(rnd, 0, nul_keys=rnd.random() < 0.15, n=rnd.choice([1, 2, 3, 5])))
    for _ in range(60 if tier == "quick" else 2000):
        values.append(tree(rnd))
    docs = []
    for v in values:
        add("bson-enc", *tokens(v))
        if v[0] == "O":
            try:
                docs.append(write(v)[1])
            except Unrepresentable:
                pass
    # the readers: documents written by the independent writer, whole and damaged; a few hand-made ones
    hand = ["", "00", "0500000000", "0500000001", "0400000000", "0600000000", "060000000000", "05000000", "0c0000001061000100000000", "0b0000001061000100000000",
            "0c000000106100010000", "080000000a610000", "080000000a6100", "09000000086100" + "0200", "0900000008610001" + "00", "0900000008610000" + "00",
            "0d000000026100" + "00000000" + "0000", "0e000000026100" + "01000000" + "0000", "0e000000026100" + "02000000" + "0000", "0e000000026100" + "01000000" + "6100",
            "0f000000026100" + "02000000" + "ff00" + "00", "0f000000026100" + "02000000" + "c300" + "00", "0a00000010ff00" + "0100", "0c00000010c3a900" + "01000000" + "00",
            "0d000000036100" + "0500000000" + "00", "0d000000046100" + "0500000000" + "00", "0d000000036100" + "0600000000" + "00", "0d000000036100" + "0400000000" + "00",
            "14000000046100" + "0c00000010350007000000" + "00" + "00", "0d00000003610005000000" + "0100", "10000000096100" + "0000000000000000" + "00",
            "0c000000ff6100" + "00000000" + "00", "0c0000007f6100" + "00" * 5, "ffffffff00", "0500008000"]
    for h in hand:
        add("bson-dec", h or "-")
    for b in docs:
        if len(b) > 40000 and rnd.random() < 0.5:
            continue
        add("bson-dec", b.hex())
        for _ in range(2 if len(b) < 2000 else 1):
            add("bson-dec", damage(rnd, b).hex() or "-")
    return out


def untok(toks):
    """tokens of `bson-dec` -> python value (int32 / int64 as int, doubles as float, documents as dicts in document order)"""
    it = iter(toks)

    def val():
        t = next(it)
        if t == "N":
            return None
        if t in ("T", "F"):
            return t == "T"
        if t.startswith("I"):
            return int(t.split(":")[1])
        if t.startswith("D"):
            return struct.unpack(">d", bytes.fromhex(t[1:]))[0]
        if t.startswith("S"):
            return bytes.fromhex(t[1:]).decode("utf-8")
        n = int(t[1:])
        if t.startswith("A"):
            return [val() for _ in range(n)]
        out = {}
        for _ in range(n):
            k = next(it)
            out["" if k == "-" else bytes.fromhex(k).decode("utf-8")] = val()
        return out
    v = val()
    if next(it, None) is not None:
        raise ValueError("trailing tokens")
    return v
