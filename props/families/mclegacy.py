"""Minecraft legacy Java (1.6 / 1.4 / beta 1.8 kick packets over TCP; `any` = query_legacy, the three in order)."""

FAMILY = dict(send_units=3, 
    name="mclegacy", nargs=3, gen="mclegacy", retries=2, port=0, decode_property="C03", entry="mclegacy",
    describe=("kick packets of the three formats with BMP / astral text, i32 / u32 boundary numbers, 1.6-format answers to "
              "the 1.4 ping, and query_legacy over all 8 subsets of legacy variants a server speaks"),
)

# ---- C10: ping + read is one retried unit (single-version cases only; `any` spans three sockets)
from props import mc_c10

c10_eligible = lambda valid: mc_c10.eligible(valid) and valid.case().args[1] != "any"
c10_units = lambda valid: [0]
c10_build = mc_c10.build(FAMILY, 1)
c10_attempts = mc_c10.attempts


def c10_plan_request(valid, unit, v, r):
    """model-driver request for the SPEC's plan script of this (base, vector, r) — see props/families/valve.py; theorems
    C10_mclegacy_query_* (Props/C10_mclegacy_whole.lean)"""
    import re
    m = re.fullmatch(r"ml(\d+)_(\d+)", valid.id)
    if not m:
        return None
    return f"mclegacyplan {m.group(1)} {m.group(2)} {r} {v}"
