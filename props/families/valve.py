"""Valve A2S family: how the generic property runners drive it."""
from props import malformed

FAMILY = dict(send_units=3, 
    name="valve", nargs=4, gen="valve", retries=3, port=0, gather=2, decode_property="C02", entry="valve",
    describe=("all 32 EDF flag subsets, both info layouts, The Ship, ROR2, 0-3 challenge rounds, single / Source split / "
              "GoldSrc split at random cut points"),
)

KIND = {0: "54", 1: "55", 2: "56"}


def decode_variants(valid, rnd):
    """C02: the same exchange with one reply that came in a single datagram re-sent as a bzip2-compressed Source split
    (SPEC: Transport.sourceSplitBz — bit 31 of the id set, size and CRC-32 in fragment 0, 1-4 fragments at random cut
    points).  The stream is compressed here with Python's bz2 (the real bzip2-rs decodes it in the harness); the model
    gets the pair as its oracle table entry (`bz=<compressed>:<reply>`).  Expected response and requests unchanged."""
    import bz2, zlib, copy
    c = valid.case()
    if valid.notwf or not c.args[1].startswith("S:") or c.args[1] == "S:240" or not c.script or c.script[0] == "X":
        return []
    seg = valid.seg()
    ch = [int(x) for x in valid.tags["CH"].split(",")]
    ds = c.script[0]
    starts = [0, seg[0], seg[0] + seg[1]]
    singles = [k for k in range(3) if seg[k] - ch[k] == 1 and seg[k] > 0
               and ds[starts[k] + ch[k]] is not None and ds[starts[k] + ch[k]][:4] == b"\xff\xff\xff\xff"]
    if not singles:
        return []
    k = rnd.choice(singles)
    at = starts[k] + ch[k]
    packet = ds[at]
    z = bz2.compress(packet, rnd.choice([1, 9]))
    n = rnd.choice([1, 2, 2, 3, 4])
    cuts = sorted(rnd.randrange(0, len(z) + 1) for _ in range(n - 1))
    chunks = [z[a:b] for a, b in zip([0] + cuts, cuts + [len(z)])]
    sid = rnd.getrandbits(31) | 0x80000000
    frags = []
    # the size field: the largest payload a packet of this response carries (what a server that fills its packets
    # announces), or the customary 1248
    announced = max(len(x) for x in chunks) if rnd.random() < 0.5 and max(len(x) for x in chunks) > 0 else 1248
    for i, chunk in enumerate(chunks):
        head = b"\xfe\xff\xff\xff" + sid.to_bytes(4, "little") + bytes([n, i]) + announced.to_bytes(2, "little")
        if i == 0:
            head += len(packet).to_bytes(4, "little") + (zlib.crc32(packet) & 0xFFFFFFFF).to_bytes(4, "little")
        frags.append(head + chunk)
    # the fragments arrive in any order (size and CRC travel in fragment 0 only, wherever it arrives)
    if n > 1 and rnd.random() < 0.6:
        rnd.shuffle(frags)
    c.script[0] = ds[:at] + frags + ds[at + 1:]
    c.opts = c.opts + [f"bz={z.hex()}:{packet.hex()}"]
    v = copy.copy(valid)
    v.tags = dict(valid.tags)
    seg2 = list(seg)
    seg2[k] += n - 1
    v.tags["SEG"] = ",".join(str(x) for x in seg2)
    v.id = valid.id + "z"
    v.line = c.line(v.id)
    return [v]


_BOMB = {}


def c13_extra(valid, rnd):
    """C13: one single-datagram reply re-sent as a bzip2-compressed Source split whose stream is tiny but decompresses to
    80 MiB of zeros (built with Python's bz2), announced size {true, 5 MiB, 2^31-1, 2^32-1}, two fragments in both arrival
    orders: whatever the announced size and the order, the client may read at most its fixed decompression limit."""
    import bz2, copy
    c0 = valid.case()
    if valid.notwf or not c0.args[1].startswith("S:") or c0.args[1] == "S:240" or not c0.script or c0.script[0] == "X":
        return []
    seg = valid.seg()
    ch = [int(x) for x in valid.tags["CH"].split(",")]
    ds = c0.script[0]
    starts = [0, seg[0], seg[0] + seg[1]]
    singles = [k for k in range(3) if seg[k] - ch[k] == 1 and seg[k] > 0
               and ds[starts[k] + ch[k]] is not None and ds[starts[k] + ch[k]][:4] == b"\xff\xff\xff\xff"]
    if not singles:
        return []
    if "z" not in _BOMB:
        _BOMB["n"] = 80 << 20
        _BOMB["z"] = bz2.compress(b"\0" * _BOMB["n"], 9)
    z, out = _BOMB["z"], []
    k = rnd.choice(singles)
    at = starts[k] + ch[k]
    cut = rnd.randrange(1, len(z))
    chunks = [z[:cut], z[cut:]]
    for size in (_BOMB["n"], 5 << 20, 0x7FFFFFFF, 0xFFFFFFFF):
        for order in ((0, 1), (1, 0)):
            c = valid.case()
            sid = rnd.getrandbits(31) | 0x80000000
            frags = []
            for i, chunk in enumerate(chunks):
                head = b"\xfe\xff\xff\xff" + sid.to_bytes(4, "little") + bytes([2, i]) + (1248).to_bytes(2, "little")
                if i == 0:
                    head += size.to_bytes(4, "little") + b"\x00\x00\x00\x00"
                frags.append(head + chunk)
            c.script[0] = ds[:at] + [frags[i] for i in order] + ds[at + 1:]
            out.append((c, f"bz-bomb-{'in' if order == (0, 1) else 'out-of'}-order"))
    return out


def transport_pairs(valids, rnd, tier):
    """C02: a LARGE rules reply (2500 rules, > 150 kB: more than one block of a bzip2 stream written with 100 kB blocks)
    once as an uncompressed Source split and once as a bzip2-compressed one (levels 1 and 9), the rest of the exchange
    unchanged: the response must not depend on the transport."""
    import bz2, zlib
    out = []
    for v in valids:
        c = v.case()
        if v.notwf or not v.want.startswith("OK") or not c.args[1].startswith("S:") or c.args[1] == "S:240" or not c.script or c.script[0] == "X":
            continue
        seg = v.seg()
        ch = [int(x) for x in v.tags["CH"].split(",")]
        if seg[2] == 0 or c.args[2][1] == "s":
            continue
        ds = c.script[0]
        start = seg[0] + seg[1]
        n = 2500
        payload = b"\xff\xff\xff\xffE" + n.to_bytes(2, "little") + b"".join(
            f"sv_rule_{k:05d}".encode() + b"\0" + f"value {k * 7919 % 10007} of rule {k} ".encode() + bytes(48 + (k * j * 31 + j) % 75 for j in range(40)) + b"\0" for k in range(n))
        assert len(payload) > 150_000

        def split(body, sid, compressed):
            chunks = [body[i:i + 1200] for i in range(0, len(body), 1200)]
            frags = []
            for i, chunk in enumerate(chunks):
                head = b"\xfe\xff\xff\xff" + sid.to_bytes(4, "little") + bytes([len(chunks), i]) + (1248).to_bytes(2, "little")
                if compressed and i == 0:
                    head += len(payload).to_bytes(4, "little") + (zlib.crc32(payload) & 0xFFFFFFFF).to_bytes(4, "little")
                frags.append(head + chunk)
            return frags if len(chunks) <= 255 else None

        plain = split(payload, 91, False)
        if plain is None:
            continue
        a = v.case()
        a.script[0] = ds[:start + ch[2]] + plain + ds[start + seg[2]:]
        for level in ((1, 9) if tier == "thorough" else (1,)):
            z = bz2.compress(payload, level)
            comp = split(z, 0x80000000 | 92, True)
            if comp is None:
                continue
            b = v.case()
            b.script[0] = ds[:start + ch[2]] + comp + ds[start + seg[2]:]
            b.opts = b.opts + [f"bz={z.hex()}:{payload.hex()}"]
            out.append((a.line(f"{v.id}tpP{level}"), b.line(f"{v.id}tpZ{level}"), f"2500 rules, bzip2 level {level} ({len(z)} bytes compressed)"))
        if len(out) >= (2 if tier == "quick" else 8):
            break
    return out


def fragment_groups(case):
    """C08: [(conn, start, count)] of the split datagrams of one reply: consecutive datagrams with the split header
    and the same split id whose packet numbers keep rising (a new reply may reuse the id)"""
    groups = []
    for ci, ds in enumerate(case.script):
        if ds == "X":
            continue
        i = 0
        while i < len(ds):
            d = ds[i]
            if d is not None and d[:4] == b"\xfe\xff\xff\xff" and len(d) >= 10:
                j = i + 1
                # Source: byte 9 = number; GoldSrc: high nibble of byte 8 = number.  Numbers were generated 0, 1, 2, …
                def number(x):
                    return (x[9], x[8] >> 4)
                while j < len(ds) and ds[j] is not None and ds[j][:8] == d[:8] and len(ds[j]) >= 10 \
                        and (number(ds[j])[0] == number(ds[j - 1])[0] + 1 or number(ds[j])[1] == number(ds[j - 1])[1] + 1):
                    j += 1
                if j - i >= 2:
                    groups.append((ci, i, j - i))
                i = j
            else:
                i += 1
    return groups


def c08_prepare(case):
    """C08: a failed section must surface as the query's error (Try would turn it into an absent section, which is
    C11's subject): sections that are gathered are gathered with Enforce"""
    gi = FAMILY["gather"]
    case.args[gi] = case.args[gi][:2].replace("t", "e") + case.args[gi][2]
    return case


# ---- C10: retried units

def c10_eligible(valid):
    """bases: fault-free run succeeds with every unit present"""
    return valid.want.startswith("OK") and " P+" in valid.want and " R+" in valid.want and not valid.notwf


def c10_units(valid):
    """0-2: the fault hits the initial request of info / players / rules; 3-5: it hits the LAST exchange of an attempt of
    that section, after the server answered every earlier one with a challenge (needs >= 1 challenge round): the retried
    unit is the whole handshake-plus-request, so such an attempt counts like any other; 6-8 (the section's reply travels
    as two or more fragments): the reply STOPS HALF WAY — after the challenge rounds a silent attempt still receives some
    of the fragments (see _got) and then nothing, a malformed datagram arrives after such a selection, a send fault hits
    the last request of the attempt (Spec/ValveFaults.lean: Attempt.got; Run/ValveFaults.lean: valveGot)"""
    ch = [int(x) for x in valid.tags["CH"].split(",")]
    seg = valid.seg()
    # (replies of 2-4 fragments, and at most C10_BASE_CAP bases per unit: every silent attempt repeats the fragments, the
    # scripts of the thorough tier's hundreds of thousands of vectors would not fit in memory otherwise)
    return [0, 1, 2] + [3 + k for k in range(3) if ch[k] >= 1] + [6 + k for k in range(3) if 2 <= seg[k] - ch[k] <= 4]


C10_BASE_CAP = {6: 10, 7: 10, 8: 10}


def _got(unit, i, frags):
    """the fragments the attempt at position i of the vector still receives: all but the last / only the first / all but
    the first in reverse order of arrival"""
    if unit < 6:
        return []
    return [frags[:-1], frags[:1], frags[1:][::-1]][i % 3]


def c10_build(valid, unit, v, r, new_id):
    """script with the outcome vector v (S silent, F send fault, M malformed, V valid) injected at `unit`"""
    return c10_build_multi(valid, {unit: v}, r, new_id)


def c10_build_multi(valid, vecs, r, new_id):
    """the same with a vector for several units of one query at once (vecs: unit -> vector, at most one unit per
    section); sections without a vector are answered at once"""
    c = valid.case()
    seg = valid.seg()
    ch = [int(x) for x in valid.tags["CH"].split(",")]
    ds = c.script[0] if c.script else []
    starts = [0, seg[0], seg[0] + seg[1]]
    groups = [ds[starts[k]:starts[k] + seg[k]] for k in range(3)]
    newds, faults = [], []
    by_section = {u % 3: (u, v) for u, v in vecs.items()}
    for k in range(3):
        if k not in by_section:
            newds += groups[k]
            faults += [False] * (1 + ch[k])
            continue
        unit, v = by_section[k]
        # the challenge replies of one attempt (one datagram each), delivered before a late fault
        pre = groups[k][:ch[k]] if unit >= 3 else []
        for i, e in enumerate(v):
            if e == "S":
                newds += pre + _got(unit, i, groups[k][ch[k]:]) + [None]
                faults += [False] * (len(pre) + 1)
            elif e == "F":
                newds += pre
                faults += [False] * len(pre) + [True]
            elif e == "M":
                newds += pre + _got(unit, i, groups[k][ch[k]:]) + [malformed.CURRENT]
                faults += [False] * (len(pre) + 1)
            else:
                newds += groups[k]
                faults += [False] * (1 + ch[k])
    c.script = [newds]
    c.args[FAMILY["retries"]] = str(r)
    g = list(c.args[FAMILY["gather"]])
    g[0] = g[1] = "e"
    c.args[FAMILY["gather"]] = "".join(g)
    c.opts = [o for o in c.opts if not o.startswith("f=")] + ["f=" + "".join("1" if f else "0" for f in faults)]
    return c.line(new_id)


def c10_plan_request(valid, unit, v, r):
    """model-driver request for the SPEC's faulty script of this (base, unit, vector, r): entry `valveplan` rebuilds the
    base from its seed (`v<seed>_<k>`), reads the vector as a plan of Spec/ValveFaults.lean and prints the case line built
    by Spec.faultyScript / faultyFaults with WANT = faultyExpected, SENT = faultySends, THM = the hypotheses of
    C10_valve_query_faulty.  Only for cases straight from `gen valve` (not the compressed variants)."""
    import re
    m = re.fullmatch(r"v(\d+)_(\d+)", valid.id)
    if not m:
        return None
    return f"valveplan {m.group(1)} {m.group(2)} {r} {unit} {v}"


def c10_attempts(valid, unit, sends, clean):
    """attempts of `unit` seen on the wire; sends = [(conn, port, hex, failed)]; a valid attempt also answers each
    challenge once; with a late fault every attempt, failed or not, sends 1 + (challenge rounds) datagrams"""
    ch = [int(x) for x in valid.tags["CH"].split(",")]
    kind_sends = sum(1 for (_, _, data, _) in sends if data[8:10] == KIND[unit % 3])
    if unit >= 3:
        q, rem = divmod(kind_sends, 1 + ch[unit % 3])
        return q if rem == 0 else -kind_sends  # not a whole number of attempts: reported as a mismatch
    return kind_sends - (ch[unit] if clean else 0)
