FAMILY = dict(name="valve", nargs=4, gen="valve", retries=3, port=0, gather=2,
              decode_property="C02", entry="valve")
