"""Unreal 2 family: how the generic property runners drive it.

Entry `unreal2 <port> <gather> <retries> <script>`; `<gather>` = two letters (s skip / t try / e enforce): the
mutators-and-rules toggle, then the players toggle (server info is always required)."""
from props import malformed

FAMILY = dict(send_units=3, 
    name="unreal2", nargs=3, gen="unreal2", retries=2, port=0, gather=1, decode_property="C06", entry="unreal2",
    describe=("info + 0-40 key/value pairs (repeated keys, Mutator in any case, GamePassword) + 0-64 players (ping 0 = bot) "
              "over 1-6 datagrams per list incl. an empty last one, strings of 0-127 units in Latin-1 and UCS-2 (stray 0x01, "
              "colour escapes incl. components of 27, control characters, BOM-like prefixes), all 9 toggle pairs x section "
              "outcome {valid, silent, malformed}"),
)

KIND = {0: "00", 1: "01", 2: "02"}


def all_sections_answered(case):
    """the script is one where every gathered section is answered validly: no malformed datagram, and a silence only
    where the client's listening for further rules datagrams ends (right after a rules datagram)"""
    for ds in case.script:
        if ds == "X":
            return False
        for i, d in enumerate(ds):
            if d is not None and len(d) < 5:
                return False
            if d is None and (i == 0 or ds[i - 1] is None or len(ds[i - 1]) < 5 or ds[i - 1][4] != 1):
                return False
    return True


def fragment_groups(case):
    """C08: [(conn, start, count)] of consecutive datagrams of one list reply (same kind byte 1 = rules, 2 = players);
    only for scripts in which every gathered section is answered (C08 is about answered requests)"""
    groups = []
    if not all_sections_answered(case):
        return groups
    for ci, ds in enumerate(case.script):
        if ds == "X":
            continue
        i = 0
        while i < len(ds):
            d = ds[i]
            if d is not None and len(d) >= 5 and d[4] in (1, 2):
                j = i
                while j < len(ds) and ds[j] is not None and len(ds[j]) >= 5 and ds[j][4] == d[4]:
                    j += 1
                if j - i >= 2:
                    groups.append((ci, i, j - i))
                i = j
            else:
                i += 1
    return groups


def c08_prepare(case):
    """C08: a failed section must surface as the query's error: gathered sections are gathered with Enforce"""
    gi = FAMILY["gather"]
    case.args[gi] = case.args[gi].replace("t", "e")
    return case


# ---- C10: retried units (each request + its first reply is one `retry_on_timeout` unit)

def _sections(valid):
    c = valid.case()
    seg = valid.seg()
    ds = c.script[0] if c.script else []
    starts = [0, seg[0], seg[0] + seg[1]]
    return c, [ds[starts[k]:starts[k] + seg[k]] for k in range(3)]


def c10_eligible(valid):
    """bases: fault-free run succeeds and every unit is present (no skipped, silent or malformed section)"""
    if not valid.want.startswith("OK") or valid.notwf:
        return False
    if "s" in valid.line.split(" ")[2 + FAMILY["gather"]]:
        return False
    return valid.sent() == ["7900000000", "7900000001", "7900000002"] and all_sections_answered(valid.case())


def c10_units(valid):
    return [0, 1, 2]  # info, mutators and rules, players


def c10_build(valid, unit, v, r, new_id):
    """script with the outcome vector v (S silent, F send fault, M malformed, V valid) injected at `unit`"""
    return c10_build_multi(valid, {unit: v}, r, new_id)


def c10_build_multi(valid, vecs, r, new_id):
    """the same with a vector for several units of one query at once (vecs: unit -> vector); units without a vector
    are answered at once"""
    c, groups = _sections(valid)
    newds, faults = [], []
    for k in range(3):
        if k not in vecs:
            newds += groups[k]
            faults.append(False)
            continue
        for e in vecs[k]:
            if e == "S":
                newds.append(None)
                faults.append(False)
            elif e == "F":
                faults.append(True)
            elif e == "M":
                newds.append(malformed.CURRENT)
                faults.append(False)
            else:
                newds += groups[k]
                faults.append(False)
    c.script = [newds]
    c.args[FAMILY["retries"]] = str(r)
    c.args[FAMILY["gather"]] = "ee"
    c.opts = [o for o in c.opts if not o.startswith("f=")] + ["f=" + "".join("1" if f else "0" for f in faults)]
    return c.line(new_id)


def c10_plan_request(valid, unit, v, r):
    """model-driver request for the SPEC's plan script of this (base, unit, vector, r) — see props/families/valve.py;
    theorems C10_unreal2_query_* (Props/C10_unreal2_whole.lean)"""
    import re
    m = re.fullmatch(r"u(\d+)_(\d+)", valid.id)
    if not m:
        return None
    return f"unreal2plan {m.group(1)} {m.group(2)} {r} {unit} {v}"


def c10_attempts(valid, unit, sends, clean):
    """attempts of `unit` seen on the wire; sends = [(conn, port, hex, failed)]"""
    return sum(1 for (_, _, data, _) in sends if data[8:10] == KIND[unit])
