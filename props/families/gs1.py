"""GameSpy 1 family (`gs1 <port> <retries> <script>` = one::query, `gs1vars …` = one::query_vars)."""
from props import malformed

FAMILY = dict(
    send_units=1, name="gs1", nargs=2, gen="gs1", retries=1, port=0, decode_property="C04", entry="gs1",
    describe=("0-64 players with every subset of the optional per-player fields, player/playername, AdminName/admin, "
              "password as 0/1 / true/false / True/False, tournament present or not, padded numbers, extra variables incl. "
              "look-alikes of player fields, 1-65 parts cut at pair boundaries, final before/after queryid; every fourth "
              "case is query_vars"),
)

REQUEST = "5c7374617475735c787365727665727175657279"  # \status\xserverquery


def fragment_groups(case):
    """C08: the parts of the one reply are all the deliveries of the socket"""
    groups = []
    for ci, ds in enumerate(case.script):
        if ds == "X":
            continue
        if len(ds) >= 2 and len(ds) <= 7 and all(d is not None for d in ds):
            groups.append((ci, 0, len(ds)))
    return groups


# ---- C10: the whole status exchange is the one retried unit
# unit 0: a silent attempt receives nothing; unit 1 (replies of two or more parts): a silent attempt receives an
# incomplete selection of the parts before the silence — all but the first part at even positions of the vector, only
# the first part at odd ones — and a malformed datagram arrives after such a selection (Spec/Gs1Faults.lean:
# Attempt.lost / Ending.malformed; Run/Gs1Faults.lean: gs1Got)

def c10_eligible(valid):
    return valid.want.startswith("OK") and not valid.notwf and valid.seg()[0] <= 4


def c10_units(valid):
    return [0, 1] if valid.seg()[0] >= 2 else [0]


def _got(unit, i, ds):
    if unit == 0:
        return []
    return ds[1:] if i % 2 == 0 else ds[:1]


def c10_build(valid, unit, v, r, new_id):
    """outcome vector v (S silent, F send fault, M malformed, V valid): a silent attempt is (some parts and) one
    silence, a malformed one (some parts and) a datagram that is not UTF-8, a valid one all the parts"""
    c = valid.case()
    ds = c.script[0] if c.script else []
    newds, faults = [], []
    for i, e in enumerate(v):
        if e == "S":
            newds += _got(unit, i, ds)
            newds.append(None)
            faults.append(False)
        elif e == "F":
            faults.append(True)
        elif e == "M":
            newds += _got(unit, i, ds)
            newds.append(malformed.CURRENT)
            faults.append(False)
        else:
            newds += ds
            faults.append(False)
    c.script = [newds]
    c.args[FAMILY["retries"]] = str(r)
    c.opts = [o for o in c.opts if not o.startswith("f=")] + ["f=" + "".join("1" if f else "0" for f in faults)]
    return c.line(new_id)


def c10_plan_request(valid, unit, v, r):
    """model-driver request for the SPEC's plan script of this (base, unit, vector, r) — see props/families/valve.py;
    theorems C10_gs1_query_* (Props/C10_gs1_whole.lean)"""
    import re
    m = re.fullmatch(r"ga(\d+)_(\d+)", valid.id)
    if not m:
        return None
    return f"gs1plan {m.group(1)} {m.group(2)} {r} {unit} {v}"


def c10_attempts(valid, unit, sends, clean):
    return sum(1 for (_, _, data, _) in sends if data == REQUEST)
