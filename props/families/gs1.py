"""GameSpy 1 family (`gs1 <port> <retries> <script>` = one::query, `gs1vars …` = one::query_vars)."""
from props import malformed

FAMILY = dict(
    send_units=1, name="gs1", nargs=2, gen="gs1", retries=1, port=0, decode_property="C04", entry="gs1",
    describe=("0-64 players with every subset of the optional per-player fields, player/playername, AdminName/admin, "
              "password as 0/1 / true/false / True/False, tournament present or not, padded numbers, extra variables incl. "
              "look-alikes of player fields, 1-65 parts cut at pair boundaries, final before/after queryid; every fourth "
              "case is query_vars"),
)

REQUEST = "5c7374617475735c787365727665727175657279"  # \status\xserverquery


def fragment_groups(case):
    """C08: the parts of the one reply are all the deliveries of the socket"""
    groups = []
    for ci, ds in enumerate(case.script):
        if ds == "X":
            continue
        if len(ds) >= 2 and len(ds) <= 7 and all(d is not None for d in ds):
            groups.append((ci, 0, len(ds)))
    return groups


# ---- C10: the whole status exchange is the one retried unit
# unit 0: a silent attempt receives nothing; unit 1 (replies of two or more parts): a silent attempt receives an
# incomplete selection of the parts before the silence — all but the first part at even positions of the vector, only
# the first part at odd ones — and a malformed datagram arrives after such a selection (Spec/Gs1Faults.lean:
# Attempt.lost / Ending.malformed; Run/Gs1Faults.lean: gs1Got)

def c10_eligible(valid):
    return valid.want.startswith("OK") and not valid.notwf and valid.seg()[0] <= 4


def c10_units(valid):
    return [0, 1] if valid.seg()[0] >= 2 else [0]


def _got(unit, i, ds):
    if unit == 0:
        return []
    return ds[1:] if i % 2 == 0 else ds[:1]


def c10_build(valid, unit, v, r, new_id):
    """outcome vector v (S silent, F send fault, M malformed, V valid): a silent attempt is (some parts and) one
    silence, a malformed one (some parts and) a datagram that is not UTF-8, a valid one all the parts"""
    c = valid.case()
    ds = c.script[0] if c.script else []
    newds, faults = [], []
    for i, e in enumerate(v):
        if e == "S":
            newds += _got(unit, i, ds)
            newds.append(None)
            faults.append(False)
        elif e == "F":
            faults.append(True)
        elif e == "M":
            newds += _got(unit, i, ds)
            newds.append(malformed.CURRENT)
            faults.append(False)
        else:
            newds += ds
            faults.append(False)
    c.script = [newds]
    c.args[FAMILY["retries"]] = str(r)
    c.opts = [o for o in c.opts if not o.startswith("f=")] + ["f=" + "".join("1" if f else "0" for f in faults)]
    return c.line(new_id)


def _order_variants(valid, rnd):
    """C04: the parts of a multi-part reply in another arrival order (the part flagged `final` first, reversed, rotated,
    shuffled): every part carries its number, so what is decoded is the same state"""
    import copy
    if valid.notwf or not valid.want.startswith("OK"):
        return []
    c = valid.case()
    if not c.script or c.script[0] == "X" or len(c.script[0]) < 2 or any(d is None for d in c.script[0]):
        return []
    parts = c.script[0]
    out = []
    orders = {"final-first": parts[-1:] + parts[:-1], "reversed": parts[::-1], "rotated": parts[1:] + parts[:1]}
    sh = parts[:]
    rnd.shuffle(sh)
    orders["shuffled"] = sh
    for k, (how, new) in enumerate(orders.items()):
        if new == parts:
            continue
        c2 = valid.case()
        c2.script[0] = new
        v = copy.copy(valid)
        v.tags = dict(valid.tags)
        v.tags["THM"] = "0"
        v.id = f"{valid.id}o{k}"
        v.line = c2.line(v.id)
        out.append(v)
    return out


def decode_variants(valid, rnd):
    return _order_variants(valid, rnd) + _spelling_variants(valid, rnd)


def _spelling_variants(valid, rnd):
    """C04: a server that sends BOTH spellings of a typed variable (`AdminName` and `admin`): the long one is the
    admin's name, the short one is a variable like any other and belongs in the unused entries.  The generated state uses
    one spelling; the variant adds `\\admin\\root` behind an `AdminName` pair and expects one more unused entry."""
    import copy, re
    if valid.notwf or not valid.want.startswith("OK") or " gs1vars " in valid.line or rnd.random() < 0.3:
        return []
    c = valid.case()
    if not c.script or c.script[0] == "X":
        return []
    key = b"\\AdminName\\"
    for i, d in enumerate(c.script[0]):
        if d is None or key not in d or b"\\admin\\" in b"".join(x for x in c.script[0] if x):
            continue
        at = d.index(key) + len(key)
        end = d.find(b"\\", at)
        if end < 0:
            continue
        c.script[0][i] = d[:end] + b"\\admin\\root" + d[end:]
        m = re.search(r" U\[([^\]]*)\]", valid.want)
        if m is None:
            return []
        entries = [e for e in m.group(1).split(",") if e]
        entries.append("x" + b"admin".hex() + "=x" + b"root".hex())
        entries.sort(key=lambda e: bytes.fromhex(e.split("=")[0][1:]))
        v = copy.copy(valid)
        v.tags = dict(valid.tags)
        v.tags["THM"] = "0"
        v.want = valid.want[:m.start()] + " U[" + ",".join(entries) + "]" + valid.want[m.end():]
        v.id = valid.id + "b"
        v.line = c.line(v.id)
        return [v]
    return []


def c10_plan_request(valid, unit, v, r):
    """model-driver request for the SPEC's plan script of this (base, unit, vector, r) — see props/families/valve.py;
    theorems C10_gs1_query_* (Props/C10_gs1_whole.lean)"""
    import re
    m = re.fullmatch(r"ga(\d+)_(\d+)", valid.id)
    if not m:
        return None
    return f"gs1plan {m.group(1)} {m.group(2)} {r} {unit} {v}"


def c10_attempts(valid, unit, sends, clean):
    return sum(1 for (_, _, data, _) in sends if data == REQUEST)


def hostile_variants(valids, rnd, tier):
    """C01: replies whose part bookkeeping is arbitrary — 2-6 datagrams, each numbered with any small number (0 too,
    duplicates too, gaps too), `final` on any subset of them and in any position of the arrival order, one or two
    query ids: whatever the numbers say, the query returns a value."""
    out = []
    picks = [v for v in valids if v.case().script and v.case().script[0] != "X"][: (40 if tier == "quick" else 600)]
    for bi, v in enumerate(picks):
        c = v.case()
        n = rnd.randrange(2, 7)
        qids = [rnd.choice(["7", "7", "7", "12"]) for _ in range(n)]
        if rnd.random() < 0.6:
            nums = rnd.sample(range(1, 8), n) if rnd.random() < 0.7 else [rnd.randrange(0, 5) for _ in range(n)]
        else:
            nums = list(range(1, n + 1))
            rnd.shuffle(nums)
        finals = [rnd.random() < 0.35 for _ in range(n)]
        if not any(finals):
            finals[rnd.randrange(n)] = True
        ds = []
        for k in range(n):
            body = b"\\hostname\\h" if k == 0 else f"\\var{k}\\{k}".encode()
            d = body + f"\\queryid\\{qids[k]}.{nums[k]}".encode()
            if finals[k]:
                d = d + b"\\final\\" if rnd.random() < 0.7 else body + b"\\final\\" + f"\\queryid\\{qids[k]}.{nums[k]}".encode()
            ds.append(d)
        c.script = [ds + [None]]
        out.append(c.line(f"{v.id}parts{bi}"))
    return out
