"""GameSpy 3 family (`gamespy::three::query` = entry gs3, `query_vars` = entry gs3vars): how the generic property
runners drive it."""
from props import malformed

FAMILY = dict(send_units=1,  # C13_gs3_send_bound: the data request is paid for by the challenge reply
    name="gs3", nargs=2, gen="gs3", retries=1, port=0, decode_property="C04", entry="gs3",
    describe=("GameSpy 3: variables in random order with optional minplayers/numplayers/tournament and extra variables, "
              "0-64 players, 0-8 teams, optional pid column, columns sliced into field sections with offsets (1-28 rows "
              "per section), section marker bytes, 1-30 splitnum packets, challenge 0 / negative / boundary values; two cases "
              "in three carry 1-6 field sections the client has no place for (Spec.Extra: kills_, time_on_, clan_, honor_t, "
              "_ ... at random positions of the layout, row offsets 0-255, 0-28 values incl. typed field names and values "
              "with underscores); one case in two is a reply whose packets END INSIDE VALUE LISTS (Spec.ConfigC built by "
              "Spec.cutLayout: player, team and extra sections cut after the first value / in the middle / before the last / "
              "several times, the next packet continuing the field under its id and the offset of its first value; up to 12 cut "
              "points per reply; tags NCUT, CUTK = open player,team,extra sections, CONT) - tag THM = inside the domain of "
              "C04_gs3_query_cut (Spec.wfC); damaged cases incl. "
              "sections that are not allowed extra sections (score_total_, an empty value in the middle); every fourth "
              "case is query_vars"),
)

DATA_HEAD = bytes.fromhex("0000000001") + b"splitnum\x00"
HANDSHAKE = "fefd09"


def fragment_groups(case):
    """C08: [(conn, start, count)] of the consecutive splitnum packets of one response"""
    groups = []
    for ci, ds in enumerate(case.script):
        if ds == "X":
            continue
        i = 0
        while i < len(ds):
            if ds[i] is not None and ds[i].startswith(DATA_HEAD):
                j = i
                while j < len(ds) and ds[j] is not None and ds[j].startswith(DATA_HEAD):
                    j += 1
                if j - i >= 2:
                    groups.append((ci, i, j - i))
                i = j
            else:
                i += 1
    return groups


# ---- C10: the retried unit is the whole exchange (handshake + data request + all packets)

def c10_eligible(valid):
    return valid.want.startswith("OK") and not valid.notwf


def c10_units(valid):
    """0: fault at the handshake stage of an attempt; 1: at the data stage, nothing of the reply arrives; 2 (replies of two
    or more data packets): at the data stage the reply STOPS HALF WAY — a silent attempt still receives some of the data
    packets (see _got) and then nothing, a malformed datagram arrives after such a selection (Spec/Gs3Faults.lean:
    Attempt.got; Run/Gs3Faults.lean: gs3Got)"""
    c = valid.case()
    n = len(c.script[0]) - 1 if c.script and c.script[0] != "X" else 0
    # (replies of 2-4 data packets, at most C10_BASE_CAP bases: see props/families/valve.py)
    return [0, 1, 2] if 2 <= n <= 4 else [0, 1]


C10_BASE_CAP = {2: 10}


def _got(unit, i, packets):
    """the data packets the attempt at position i of the vector still receives: all but the last / only the first / all
    but the first in reverse order of arrival"""
    if unit < 2:
        return []
    return [packets[:-1], packets[:1], packets[1:][::-1]][i % 3]


def c10_build(valid, unit, v, r, new_id):
    """script with the outcome vector v (S silent, F send fault, M malformed, V valid), one entry per attempt"""
    c = valid.case()
    ds = c.script[0] if c.script else []
    hs, packets = ds[0], ds[1:]
    newds, faults = [], []
    for i, e in enumerate(v):
        if e == "V":
            newds += [hs] + packets
            faults += [False, False]
        elif unit == 0:
            if e == "S":
                newds.append(None)
                faults.append(False)
            elif e == "F":
                faults.append(True)
            else:
                newds.append(malformed.CURRENT)
                faults.append(False)
        else:
            if e == "S":
                newds += [hs] + _got(unit, i, packets) + [None]
                faults += [False, False]
            elif e == "F":
                newds += [hs]
                faults += [False, True]
            else:
                newds += [hs] + _got(unit, i, packets) + [malformed.CURRENT]
                faults += [False, False]
    c.script = [newds]
    c.args[FAMILY["retries"]] = str(r)
    c.opts = [o for o in c.opts if not o.startswith("f=")] + ["f=" + "".join("1" if f else "0" for f in faults)]
    return c.line(new_id)


def c10_plan_request(valid, unit, v, r):
    """model-driver request for the SPEC's plan script of this (base, stage, vector, r) — see props/families/valve.py;
    theorems C10_gs3_query_*_cut (Props/C10_gs3_whole.lean), stated over ConfigC / wfC: replies with any allowed extra
    field sections whose packets may end inside value lists, which is what `gen gs3` draws — every well-formed base is in the theorems' domain.  Only for cases straight
    from `gen gs3`."""
    import re
    m = re.fullmatch(r"g(\d+)_(\d+)", valid.id)
    if not m:
        return None
    return f"gs3plan {m.group(1)} {m.group(2)} {r} {unit} {v}"


def c10_attempts(valid, unit, sends, clean):
    """attempts seen on the wire = handshake requests sent (every attempt starts with one)"""
    return sum(1 for (_, _, data, _) in sends if data.startswith(HANDSHAKE))


def decode_variants(valid, rnd):
    """C04: the packets of a multi-packet response in another arrival order (reversed, rotated, shuffled): the response
    carries its own packet numbers, so what is decoded is the same state"""
    import copy
    if valid.notwf or not valid.want.startswith("OK"):
        return []
    c = valid.case()
    groups = fragment_groups(c)
    if not groups:
        return []
    out = []
    for k, how in enumerate(("reversed", "rotated", "shuffled")):
        c2 = valid.case()
        same = True
        for ci, start, count in groups:
            part = c2.script[ci][start:start + count]
            if how == "reversed":
                new = part[::-1]
            elif how == "rotated":
                new = part[1:] + part[:1]
            else:
                new = part[:]
                rnd.shuffle(new)
            same = same and new == part
            c2.script[ci][start:start + count] = new
        if same:
            continue
        v = copy.copy(valid)
        v.tags = dict(valid.tags)
        v.tags["THM"] = "0"
        v.id = f"{valid.id}o{k}"
        v.line = c2.line(v.id)
        out.append(v)
    return out
