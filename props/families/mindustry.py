"""Mindustry (C07): how the generic property runners drive it."""
from props import malformed

FAMILY = dict(
    send_units=1, name="mindustry", nargs=2, gen="mindustry", retries=1, port=0, decode_property="C07", entry="mindustry",
    describe=("Mindustry discovery reply: 5 length-prefixed strings (0-255 bytes, 1-4 byte UTF-8), 4 big-endian i32 over the "
              "full range, all 5 game modes, optional trailing mode name present/absent, port given / defaulted (mindustry_dp)"),
)

# ---- C10: the whole query (new socket + ping + one datagram) is the retried unit; attempt k uses socket k

def c10_eligible(valid):
    return valid.want.startswith("OK") and not valid.notwf


def c10_units(valid):
    return [0]


def c10_build(valid, unit, v, r, new_id):
    c = valid.case()
    reply = c.script[0][0]
    conns, faults = [], []
    for e in v:
        if e == "S":
            conns.append([None]); faults.append(False)
        elif e == "F":
            conns.append([]); faults.append(True)
        elif e == "M":
            conns.append([malformed.CURRENT]); faults.append(False)
        else:
            conns.append([reply]); faults.append(False)
    c.script = conns
    c.args[FAMILY["retries"]] = str(r)
    c.opts = [o for o in c.opts if not o.startswith("f=")] + ["f=" + "".join("1" if f else "0" for f in faults)]
    return c.line(new_id)


def c10_plan_request(valid, unit, v, r):
    """model-driver request for the SPEC's plan script of this (base, vector, r) — see props/families/valve.py; theorems
    C10_mindustry_query_* (Props/C10_mindustry_whole.lean)"""
    import re
    m = re.fullmatch(r"md(\d+)_(\d+)", valid.id)
    if not m:
        return None
    return f"mindustryplan {m.group(1)} {m.group(2)} {r} {v}"


def c10_attempts(valid, unit, sends, clean):
    return sum(1 for (_, _, data, _) in sends if data == "fe01")

