"""Mindustry (C07): how the generic property runners drive it."""

FAMILY = dict(
    name="mindustry", nargs=2, gen="mindustry", retries=1, port=0, decode_property="C07", entry="mindustry",
    describe=("Mindustry discovery reply: 5 length-prefixed strings (0-255 bytes, 1-4 byte UTF-8), 4 big-endian i32 over the "
              "full range, all 5 game modes, optional trailing mode name present/absent, port given / defaulted (mindustry_dp)"),
)

# ---- C10: the whole query (new socket + ping + one datagram) is the retried unit; attempt k uses socket k

def c10_eligible(valid):
    return valid.want.startswith("OK") and not valid.notwf


def c10_units(valid):
    return [0]


def c10_build(valid, unit, v, r, new_id):
    c = valid.case()
    reply = c.script[0][0]
    conns, faults = [], []
    for e in v:
        if e == "S":
            conns.append([None]); faults.append(False)
        elif e == "F":
            conns.append([]); faults.append(True)
        elif e == "M":
            conns.append([b"\xff\xff"]); faults.append(False)
        else:
            conns.append([reply]); faults.append(False)
    c.script = conns
    c.args[FAMILY["retries"]] = str(r)
    c.opts = [o for o in c.opts if not o.startswith("f=")] + ["f=" + "".join("1" if f else "0" for f in faults)]
    return c.line(new_id)


def c10_attempts(valid, unit, sends, clean):
    return sum(1 for (_, _, data, _) in sends if data == "fe01")


# ---- C07: probe of the recorded (unrepaired) finding — a reply that is in the Mindustry format (`writeString` = one
# length byte, then that many bytes of UTF-8, which may contain U+0000) but that the shared length-prefixed decoder
# cuts at the NUL, leaving the cursor inside the string: every following field is read from the wrong place and a
# response made of garbage is returned without any error.

FINDING_PROBES = [
    ("mindustry-nul-in-string",
     "a Mindustry string containing U+0000 (host \"A\\0B\") is cut at the NUL and the cursor is left inside it: the map, the three "
     "counters and everything after them are read from the wrong offsets and returned without an error",
     "fp_md_nul mindustry 6567 0 03410042036d6170000000010000000200000092086f6666696369616c000000000a0164",
     "OK M{x410042;x6d6170;1;2;146;x6f6666696369616c;survival;10;x64;-}"),
]


def finding_probes(rep):
    """run the probes: correspondence as for every case; oracle: the response the format entitles the user to"""
    import vlib
    from props import netprops
    by_id = {line.split(" ", 1)[0]: (sig, desc, want) for (sig, desc, line, want) in FINDING_PROBES}

    def oracle(case, impl, model, panic):
        out = netprops.crash_oracle(case, impl, model, panic)
        sig, desc, want = by_id[case.split(" ", 1)[0]]
        if vlib.result_of(impl) != want:
            out.append((sig, desc + "; got " + vlib.result_of(impl)[:200]))
        return out

    rep.count("finding-probes", len(FINDING_PROBES))
    vlib.correspond(rep, [line for (_, _, line, _) in FINDING_PROBES], oracle=oracle, trivial=netprops.trivial, tag="c07p")
