"""The Ship (C07): a Valve query with engine app 2400 and default gathering settings, then the conversion that
requires the ship fields, the players and the rules."""
from props import malformed

FAMILY = dict(
    send_units=3, name="theship", nargs=2, gen="theship", retries=1, port=0, decode_property="C07", entry="theship",
    describe=("The Ship: Valve A2S with app 2400 (mode/witnesses/duration in the info reply, deaths/money per player), all 32 "
              "EDF subsets, 0-40 players, 0-30 rules, 0-3 challenge rounds, single / Source split transports, foreign app ids "
              "(BadGame), port given / defaulted (theship_dp)"),
)

# ---- C10: info, players and rules are retried units; players / rules are gathered with Try by this entry point and then
# required by the conversion, so their exhaustion surfaces as the conversion's PacketBad, not as a timeout-class error
# (recorded finding, see c10_known)

def c10_eligible(valid):
    return valid.want.startswith("OK") and not valid.notwf


def c10_units(valid):
    """0-2: info, players, rules — a failed attempt receives nothing; 3-5 (the section's reply travels as two or more
    fragments): the reply STOPS HALF WAY — after the challenge rounds a silent attempt still receives some of the fragments
    and then nothing, a malformed datagram arrives after such a selection, a send fault hits the last request of the
    attempt (the Valve plans of Spec/ValveFaults.lean: Attempt.got; theorems C10_theship_query_*)"""
    ch = [int(x) for x in valid.tags["CH"].split(",")]
    seg = valid.seg()
    # (replies of 2-4 fragments, at most C10_BASE_CAP bases per unit: see props/families/valve.py)
    return [0, 1, 2] + [3 + k for k in range(3) if 2 <= seg[k] - ch[k] <= 4]


C10_BASE_CAP = {3: 10, 4: 10, 5: 10}


def _got(i, frags):
    """all but the last / only the first / all but the first in reverse order of arrival"""
    return [frags[:-1], frags[:1], frags[1:][::-1]][i % 3]


def c10_known(unit, want_res, got):
    """signature of the recorded finding (known_findings.json): the players / rules units are gathered with Try and then
    required by the conversion, so their exhaustion is reported as PacketBad instead of the timeout-class error"""
    if unit % 3 in (1, 2) and want_res in ("ERR PacketReceive", "ERR PacketSend") and got == "ERR PacketBad":
        return "retry-exhausted:theship:section-reported-as-packetbad"
    return None


def c10_build(valid, unit, v, r, new_id):
    c = valid.case()
    seg = valid.seg()
    ch = [int(x) for x in valid.tags["CH"].split(",")]
    ds = c.script[0] if c.script else []
    starts = [0, seg[0], seg[0] + seg[1]]
    groups = [ds[starts[k]:starts[k] + seg[k]] for k in range(3)]
    newds, faults = [], []
    for k in range(3):
        if k != unit % 3:
            newds += groups[k]
            faults += [False] * (1 + ch[k])
            continue
        pre = groups[k][:ch[k]] if unit >= 3 else []
        for i, e in enumerate(v):
            if e == "S":
                newds += pre + (_got(i, groups[k][ch[k]:]) if unit >= 3 else []) + [None]
                faults += [False] * (len(pre) + 1)
            elif e == "F":
                newds += pre
                faults += [False] * len(pre) + [True]
            elif e == "M":
                newds += pre + (_got(i, groups[k][ch[k]:]) if unit >= 3 else []) + [malformed.CURRENT]
                faults += [False] * (len(pre) + 1)
            else:
                newds += groups[k]
                faults += [False] * (1 + ch[k])
    c.script = [newds]
    c.args[FAMILY["retries"]] = str(r)
    c.opts = [o for o in c.opts if not o.startswith("f=")] + ["f=" + "".join("1" if f else "0" for f in faults)]
    return c.line(new_id)


def c10_plan_request(valid, unit, v, r):
    """model-driver request for the SPEC's faulty script of this (base, unit, vector, r): entry `theshipplan`
    (Run/TheShipFaults.lean) rebuilds the base from its seed (`ts<seed>_<k>`), reads the vector as a plan of
    Spec/ValveFaults.lean on TheShip.Spec.shipConfig and prints the case line built by Spec.faultyScript / faultyFaults
    with WANT = faultyExpected >>= TheShip.convert, SENT = faultySends, THM = the hypotheses of C10_theship_query_faulty"""
    import re
    m = re.fullmatch(r"ts(\d+)_(\d+)", valid.id)
    if not m:
        return None
    return f"theshipplan {m.group(1)} {m.group(2)} {r} {unit} {v}"


def c10_attempts(valid, unit, sends, clean):
    ch = [int(x) for x in valid.tags["CH"].split(",")]
    kind_sends = sum(1 for (_, _, data, _) in sends if data[8:10] == ("54", "55", "56")[unit % 3])
    if unit >= 3:
        # every attempt, failed or not, sends 1 + (challenge rounds) datagrams
        q, rem = divmod(kind_sends, 1 + ch[unit % 3])
        return q if rem == 0 else -kind_sends
    return kind_sends - (ch[unit] if clean else 0)


# ---- C08: the split-packet reassembly is the Valve protocol's; a failed section surfaces as the conversion's error
# (players and rules are required), so permutations / duplications can be judged on this entry as they are

from props.families.valve import fragment_groups  # noqa: E402,F401
