"""The Ship (C07): a Valve query with engine app 2400 and default gathering settings, then the conversion that
requires the ship fields, the players and the rules."""
from props import malformed

FAMILY = dict(
    send_units=3, name="theship", nargs=2, gen="theship", retries=1, port=0, decode_property="C07", entry="theship",
    describe=("The Ship: Valve A2S with app 2400 (mode/witnesses/duration in the info reply, deaths/money per player), all 32 "
              "EDF subsets, 0-40 players, 0-30 rules, 0-3 challenge rounds, single / Source split transports, foreign app ids "
              "(BadGame), port given / defaulted (theship_dp)"),
)

# ---- C10: info, players and rules are retried units; players / rules are gathered with Try by this entry point and then
# required by the conversion, so their exhaustion surfaces as the conversion's PacketBad, not as a timeout-class error
# (recorded finding, see c10_known)

def c10_eligible(valid):
    return valid.want.startswith("OK") and not valid.notwf


def c10_units(valid):
    return [0, 1, 2]  # info, players, rules


def c10_known(unit, want_res, got):
    """signature of the recorded finding (known_findings.json): the players / rules units are gathered with Try and then
    required by the conversion, so their exhaustion is reported as PacketBad instead of the timeout-class error"""
    if unit in (1, 2) and want_res in ("ERR PacketReceive", "ERR PacketSend") and got == "ERR PacketBad":
        return "retry-exhausted:theship:section-reported-as-packetbad"
    return None


def c10_build(valid, unit, v, r, new_id):
    c = valid.case()
    seg = valid.seg()
    ch = [int(x) for x in valid.tags["CH"].split(",")]
    ds = c.script[0] if c.script else []
    starts = [0, seg[0], seg[0] + seg[1]]
    groups = [ds[starts[k]:starts[k] + seg[k]] for k in range(3)]
    newds, faults = [], []
    for k in range(3):
        if k != unit:
            newds += groups[k]
            faults += [False] * (1 + ch[k])
            continue
        for e in v:
            if e == "S":
                newds.append(None); faults.append(False)
            elif e == "F":
                faults.append(True)
            elif e == "M":
                newds.append(malformed.CURRENT); faults.append(False)
            else:
                newds += groups[k]
                faults += [False] * (1 + ch[k])
    c.script = [newds]
    c.args[FAMILY["retries"]] = str(r)
    c.opts = [o for o in c.opts if not o.startswith("f=")] + ["f=" + "".join("1" if f else "0" for f in faults)]
    return c.line(new_id)


def c10_attempts(valid, unit, sends, clean):
    ch = [int(x) for x in valid.tags["CH"].split(",")]
    kind_sends = sum(1 for (_, _, data, _) in sends if data[8:10] == ("54", "55", "56")[unit])
    return kind_sends - (ch[unit] if clean else 0)


# ---- C08: the split-packet reassembly is the Valve protocol's; a failed section surfaces as the conversion's error
# (players and rules are required), so permutations / duplications can be judged on this entry as they are

from props.families.valve import fragment_groups  # noqa: E402,F401
