"""Minecraft auto-detecting query (Java, Bedrock, legacy 1.6, 1.4, beta 1.8; one new socket per variant)."""

FAMILY = dict(send_units=7,  # C13_minecraft_auto_send_bound: Java 3 + Bedrock 1 + three legacy variants 1 each
    name="mcauto", nargs=4, gen="mcauto", retries=3, port=0, decode_property="C03", entry="mcauto",
    describe=("all 32 subsets of variants a server speaks; variants not spoken refuse the connection or stay silent for 0-2 "
              "reads; the OPENED tag (transports of the sockets opened, in order) is compared with the implementation's trace"),
)


def opened_of(impl):
    """transports of the sockets the implementation opened, in order: events are `O<conn><t|u><port>[!]`"""
    parts = impl.split(" ;; ")
    if len(parts) < 2:
        return ""
    out = []
    for e in parts[1].split(" "):
        if e.startswith("O"):
            body = e[1:].lstrip("0123456789")
            out.append(body[:1])
    return ",".join(out)


from props.mc_hostile import hostile_variants  # noqa: E402,F401 (C01 hook)
