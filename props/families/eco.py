"""Eco (C07): the pure part of the HTTP/JSON game: the document is handed to serde_json + `From<Root> for Response`
directly (the crate exposes `Root`), no socket, no HTTP client.  The "script" of a case is the JSON document."""

FAMILY = dict(
    name="eco", nargs=2, gen="eco", retries=1, port=0, decode_property="C07", entry="eco",
    describe=("Eco /frontpage documents: all 37 members (u32 over the full range, doubles with exact decimal expansions in 5 "
              "notations, strings over 1-4 byte UTF-8 incl. control characters, 0-30 player names, 0-5 achievements), members in "
              "random order, random white space, \\u escapes / surrogate pairs, unknown members (incl. case variants of known "
              "names) with arbitrary values"),
)


def decode_variants(valid, rnd):
    """C07: the same document made LONG with insignificant white space (5-40 kB, every framing of the HTTP body by
    length: announced, chunked, delimited by the close) through the real HTTP client: same response."""
    import copy
    if valid.notwf or not valid.want.startswith("OK") or rnd.random() < 0.8:
        return []
    c = valid.case()
    if not c.script or c.script[0] == "X" or not c.script[0] or c.script[0][0] is None:
        return []
    doc = c.script[0][0]
    out = []
    for k, target in enumerate((5011, 5012, 5013, 5014, 5015, rnd.randrange(5016, 40000), rnd.randrange(5016, 40000), rnd.randrange(5016, 40000))):
        if len(doc) >= target:
            continue
        pad = bytes(rnd.choice(b" \n\t\r") for _ in range(target - len(doc)))
        at = rnd.choice([0, len(doc)])
        c2 = valid.case()
        c2.script[0][0] = doc[:at] + pad + doc[at:]
        v = copy.copy(valid)
        v.tags = dict(valid.tags)
        v.id = f"{valid.id}L{k}"
        line = c2.line(v.id).split(" ")
        line[1] = "eco_http"
        v.line = " ".join(line)
        out.append(v)
    return out
