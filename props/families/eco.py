"""Eco (C07): the pure part of the HTTP/JSON game: the document is handed to serde_json + `From<Root> for Response`
directly (the crate exposes `Root`), no socket, no HTTP client.  The "script" of a case is the JSON document."""

FAMILY = dict(
    name="eco", nargs=2, gen="eco", retries=1, port=0, decode_property="C07", entry="eco",
    describe=("Eco /frontpage documents: all 37 members (u32 over the full range, doubles with exact decimal expansions in 5 "
              "notations, strings over 1-4 byte UTF-8 incl. control characters, 0-30 player names, 0-5 achievements), members in "
              "random order, random white space, \\u escapes / surrogate pairs, unknown members (incl. case variants of known "
              "names) with arbitrary values"),
)
