"""Minecraft Bedrock edition (RakNet unconnected ping / pong over UDP)."""

FAMILY = dict(send_units=1, 
    name="mcbedrock", nargs=2, gen="mcbedrock", retries=1, port=0, decode_property="C03", entry="mcbedrock",
    describe="pongs with 6-13 fields, all five game modes, empty / non-ASCII fields, u32 boundary counts, oversize names",
)

# ---- C10: ping + read is one retried unit
from props import mc_c10

c10_eligible = mc_c10.eligible
c10_units = lambda valid: [0]
c10_build = mc_c10.build(FAMILY, 1)
c10_attempts = mc_c10.attempts


def c10_plan_request(valid, unit, v, r):
    """model-driver request for the SPEC's plan script of this (base, vector, r) — see props/families/valve.py; theorems
    C10_mcbedrock_query_* (Props/C10_mcbedrock_whole.lean)"""
    import re
    m = re.fullmatch(r"mb(\d+)_(\d+)", valid.id)
    if not m:
        return None
    return f"mcbedrockplan {m.group(1)} {m.group(2)} {r} {v}"


from props.mc_hostile import hostile_variants  # noqa: E402,F401 (C01 hook)
