"""Minecraft Bedrock edition (RakNet unconnected ping / pong over UDP)."""

FAMILY = dict(
    name="mcbedrock", nargs=2, gen="mcbedrock", retries=1, port=0, decode_property="C03", entry="mcbedrock",
    describe="pongs with 6-13 fields, all five game modes, empty / non-ASCII fields, u32 boundary counts, oversize names",
)
