"""Quake 1 / 2 / 3 status family: how the generic property runners drive it."""

FAMILY = dict(
    name="quake", nargs=3, gen="quake", retries=2, port=0, decode_property="C05", entry="quake",
    describe=("Quake 1 / 2 / 3 status replies: every combination of the alternate variable spellings (one, the other, both, "
              "version absent), 0-20 other variables, 0-65 player lines, quoted and unquoted names / skins / addresses, names "
              "with spaces, optional address, optional trailing NUL, boundary numbers"),
)


# ---- C10: the one retried unit is the whole request / reply exchange

def c10_eligible(valid):
    """bases: the fault-free run succeeds"""
    return valid.want.startswith("OK") and not valid.notwf


def c10_units(valid):
    return [0]


def c10_build(valid, unit, v, r, new_id):
    """script with the outcome vector v (S silent, F send fault, M malformed, V valid) injected at the exchange"""
    c = valid.case()
    reply = c.script[0][0]
    newds, faults = [], []
    for e in v:
        if e == "S":
            newds.append(None)
            faults.append(False)
        elif e == "F":
            faults.append(True)
        elif e == "M":
            newds.append(b"\xff\xff")
            faults.append(False)
        else:
            newds.append(reply)
            faults.append(False)
    c.script = [newds]
    c.args[FAMILY["retries"]] = str(r)
    c.opts = [o for o in c.opts if not o.startswith("f=")] + ["f=" + "".join("1" if f else "0" for f in faults)]
    return c.line(new_id)


def c10_attempts(valid, unit, sends, clean):
    """attempts seen on the wire: every attempt sends the request exactly once"""
    return len(sends)
