"""Quake 1 / 2 / 3 status family: how the generic property runners drive it."""
from props import malformed

FAMILY = dict(send_units=1, 
    name="quake", nargs=3, gen="quake", retries=2, port=0, decode_property="C05", entry="quake",
    describe=("Quake 1 / 2 / 3 status replies: every combination of the alternate variable spellings (one, the other, both, "
              "version absent), 0-20 other variables, 0-65 player lines, quoted and unquoted names / skins / addresses, names "
              "with spaces, optional address, optional trailing NUL, boundary numbers"),
)


# ---- C10: the one retried unit is the whole request / reply exchange

def c10_eligible(valid):
    """bases: the fault-free run succeeds"""
    return valid.want.startswith("OK") and not valid.notwf


def c10_units(valid):
    return [0]


def c10_build(valid, unit, v, r, new_id):
    """script with the outcome vector v (S silent, F send fault, M malformed, V valid) injected at the exchange"""
    c = valid.case()
    reply = c.script[0][0]
    newds, faults = [], []
    for e in v:
        if e == "S":
            newds.append(None)
            faults.append(False)
        elif e == "F":
            faults.append(True)
        elif e == "M":
            newds.append(malformed.CURRENT)
            faults.append(False)
        else:
            newds.append(reply)
            faults.append(False)
    c.script = [newds]
    c.args[FAMILY["retries"]] = str(r)
    c.opts = [o for o in c.opts if not o.startswith("f=")] + ["f=" + "".join("1" if f else "0" for f in faults)]
    return c.line(new_id)


def c10_plan_request(valid, unit, v, r):
    """model-driver request for the SPEC's plan script of this (base, vector, r) — see props/families/valve.py; theorems
    C10_quake_query_* (Props/C10_quake_whole.lean)"""
    import re
    m = re.fullmatch(r"q(\d+)_(\d+)", valid.id)
    if not m:
        return None
    return f"quakeplan {m.group(1)} {m.group(2)} {r} {v}"


def c10_attempts(valid, unit, sends, clean):
    """attempts seen on the wire: every attempt sends the request exactly once"""
    return len(sends)


# ---- C05: probes of the two recorded (unrepaired) findings — replies that are in the Quake formats but that the
# response types cannot hold: a negative frag count in a Quake 1 line (`Player.score` is a u16) and text that is not
# UTF-8 (the fields are Rust `String`s read with the strict UTF-8 decoder).  Each must yield a response; the code
# returns an error, which the check reports as KNOWN-FINDING (known_findings.json) and nothing else.

def _hx(b):
    return b.hex()


_VARS = b"\\hostname\\a\\map\\b\\maxclients\\8\n"
_Q1 = b"\xff\xff\xff\xffn" + _VARS
_Q2 = b"\xff\xff\xff\xffprint\n" + _VARS
_Q3 = b"\xff\xff\xff\xffstatusResponse\n" + _VARS

FINDING_PROBES = [
    ("quake1-negative-frags", "a Quake 1 player line with a negative frag count (`%i` of an int) fails the whole query with TypeParse: one::Player.score is a u16",
     "fp_negfrags quake 27500 1 0 " + _hx(_Q1 + b'1 -2 10 50 "x" "base" 0 0\n\x00')),
    ("quake-non-utf8-text", "a name that is not valid UTF-8 (Quake names are byte strings; QuakeWorld uses the high-bit characters) fails the whole query with PacketBad: the fields are Strings read with the strict UTF-8 decoder",
     "fp_latin1_q1 quake 27500 1 0 " + _hx(_Q1 + b'1 2 10 50 "caf\xe9" "base" 0 0\n\x00')),
    ("quake-non-utf8-text", "as above, Quake 3",
     "fp_latin1_q3 quake 27960 3 0 " + _hx(_Q3 + b'3 45 "Bj\xf6rn"\n')),
    ("quake-non-utf8-text", "as above, a server variable (Quake 2 host name)",
     "fp_latin1_var quake 27910 2 0 " + _hx(b"\xff\xff\xff\xffprint\n\\hostname\\caf\xe9\\map\\b\\maxclients\\8\n" + b'3 45 "x"\n')),
]


def finding_probes(rep):
    """run the probes: correspondence as for every case; oracle: the query must return a response"""
    import vlib
    from props import netprops
    by_id = {line.split(" ", 1)[0]: (sig, desc) for (sig, desc, line) in FINDING_PROBES}

    def oracle(case, impl, model, panic):
        out = netprops.crash_oracle(case, impl, model, panic)
        sig, desc = by_id[case.split(" ", 1)[0]]
        if not vlib.result_of(impl).startswith("OK"):
            out.append((sig, desc + "; got " + vlib.result_of(impl)))
        return out

    rep.count("finding-probes", len(FINDING_PROBES))
    vlib.correspond(rep, [line for (_, _, line) in FINDING_PROBES], oracle=oracle, trivial=netprops.trivial, tag="c05p")


# ---- C05: player lines whose fields use the quoting in every way the format allows — a quoted field may contain spaces and
# quoted words of its own (the quotes that WRAP the field are removed, the inner ones are the name's), fields without
# quotes, empty quoted fields, several spaces — one player entry per line with exactly the fields written.

def name_probes(rep, rnd, tier):
    import vlib
    from props import netprops
    inner = [b"Mad", b"Max", b"Rockatansky", b"o", b"neil", b"[clan]", b"x y", b"", b"a", b"9", b"\xc3\xa9t\xc3\xa9", b"^1Red"]
    lines, want = [], {}
    k = 0
    for fmt, head, port in ((1, _Q1, 27500), (2, _Q2, 27910), (3, _Q3, 27960)):
        for _ in range(40 if tier == "quick" else 600):
            n = rnd.choice([1, 1, 2, 3])
            names, body = [], b""
            for pi in range(n):
                # seg0 "seg1" seg2 … inside wrapping quotes: segments at even positions are inside quotes (may hold spaces),
                # at odd positions between an inner pair of quotes (no space, or the field would end there)
                nseg = rnd.choice([1, 1, 3, 3, 5])
                segs = []
                for si in range(nseg):
                    s = rnd.choice(inner)
                    if si % 2 == 1:
                        s = s.replace(b" ", b"_")
                    segs.append(s)
                name = b'"'.join(segs)
                names.append(name)
                if fmt == 1:
                    body += b"%d %d %d %d \"%s\" \"skin\" %d %d\n" % (pi + 1, rnd.randrange(0, 100), rnd.randrange(0, 100), rnd.randrange(0, 300), name, rnd.randrange(0, 14), rnd.randrange(0, 14))
                else:
                    body += b"%d %d \"%s\"\n" % (rnd.randrange(0, 100), rnd.randrange(0, 300), name)
            cid = f"qn{k}"
            k += 1
            lines.append(f"{cid} quake {port} {fmt} 0 " + (head + body + (b"\x00" if fmt == 1 else b"")).hex())
            want[cid] = names

    def oracle(case, impl, model, panic):
        out = netprops.crash_oracle(case, impl, model, panic)
        if out:
            return out
        res = vlib.result_of(impl)
        names = want[case.split(" ", 1)[0]]
        rep.count("name-probes:inner-quotes" if any(b'"' in nm for nm in names) else "name-probes:plain")
        import re
        m = re.search(r" P\[(.*?)\] U\[", res)
        got = re.findall(r"\(([^()]*)\)", m.group(1)) if m else None
        idx = 4 if case.split(" ")[3] == "1" else 2
        if got is None or len(got) != len(names) or any(g.split(";")[idx] != "x" + nm.hex() for g, nm in zip(got, names)):
            out.append(("player-name-quoting", f"names written {[nm.decode('utf-8', 'replace') for nm in names]}: got {res[:300]}"))
        return out

    vlib.correspond(rep, lines, oracle=oracle, trivial=netprops.trivial, tag="c05n")
