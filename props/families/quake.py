"""Quake 1 / 2 / 3 status family: how the generic property runners drive it."""
from props import malformed

FAMILY = dict(send_units=1, 
    name="quake", nargs=3, gen="quake", retries=2, port=0, decode_property="C05", entry="quake",
    describe=("Quake 1 / 2 / 3 status replies: every combination of the alternate variable spellings (one, the other, both, "
              "version absent), 0-20 other variables, 0-65 player lines, quoted and unquoted names / skins / addresses, names "
              "with spaces, optional address, optional trailing NUL, boundary numbers"),
)


# ---- C10: the one retried unit is the whole request / reply exchange

def c10_eligible(valid):
    """bases: the fault-free run succeeds"""
    return valid.want.startswith("OK") and not valid.notwf


def c10_units(valid):
    return [0]


def c10_build(valid, unit, v, r, new_id):
    """script with the outcome vector v (S silent, F send fault, M malformed, V valid) injected at the exchange"""
    c = valid.case()
    reply = c.script[0][0]
    newds, faults = [], []
    for e in v:
        if e == "S":
            newds.append(None)
            faults.append(False)
        elif e == "F":
            faults.append(True)
        elif e == "M":
            newds.append(malformed.CURRENT)
            faults.append(False)
        else:
            newds.append(reply)
            faults.append(False)
    c.script = [newds]
    c.args[FAMILY["retries"]] = str(r)
    c.opts = [o for o in c.opts if not o.startswith("f=")] + ["f=" + "".join("1" if f else "0" for f in faults)]
    return c.line(new_id)


def c10_plan_request(valid, unit, v, r):
    """model-driver request for the SPEC's plan script of this (base, vector, r) — see props/families/valve.py; theorems
    C10_quake_query_* (Props/C10_quake_whole.lean)"""
    import re
    m = re.fullmatch(r"q(\d+)_(\d+)", valid.id)
    if not m:
        return None
    return f"quakeplan {m.group(1)} {m.group(2)} {r} {v}"


def c10_attempts(valid, unit, sends, clean):
    """attempts seen on the wire: every attempt sends the request exactly once"""
    return len(sends)


# ---- C05: probes of the two recorded (unrepaired) findings — replies that are in the Quake formats but that the
# response types cannot hold: a negative frag count in a Quake 1 line (`Player.score` is a u16) and text that is not
# UTF-8 (the fields are Rust `String`s read with the strict UTF-8 decoder).  Each must yield a response; the code
# returns an error, which the check reports as KNOWN-FINDING (known_findings.json) and nothing else.

def _hx(b):
    return b.hex()


_VARS = b"\\hostname\\a\\map\\b\\maxclients\\8\n"
_Q1 = b"\xff\xff\xff\xffn" + _VARS
_Q2 = b"\xff\xff\xff\xffprint\n" + _VARS
_Q3 = b"\xff\xff\xff\xffstatusResponse\n" + _VARS

FINDING_PROBES = [
    ("quake1-negative-frags", "a Quake 1 player line with a negative frag count (`%i` of an int) fails the whole query with TypeParse: one::Player.score is a u16",
     "fp_negfrags quake 27500 1 0 " + _hx(_Q1 + b'1 -2 10 50 "x" "base" 0 0\n\x00')),
    ("quake-non-utf8-text", "a name that is not valid UTF-8 (Quake names are byte strings; QuakeWorld uses the high-bit characters) fails the whole query with PacketBad: the fields are Strings read with the strict UTF-8 decoder",
     "fp_latin1_q1 quake 27500 1 0 " + _hx(_Q1 + b'1 2 10 50 "caf\xe9" "base" 0 0\n\x00')),
    ("quake-non-utf8-text", "as above, Quake 3",
     "fp_latin1_q3 quake 27960 3 0 " + _hx(_Q3 + b'3 45 "Bj\xf6rn"\n')),
    ("quake-non-utf8-text", "as above, a server variable (Quake 2 host name)",
     "fp_latin1_var quake 27910 2 0 " + _hx(b"\xff\xff\xff\xffprint\n\\hostname\\caf\xe9\\map\\b\\maxclients\\8\n" + b'3 45 "x"\n')),
]


def finding_probes(rep):
    """run the probes: correspondence as for every case; oracle: the query must return a response"""
    import vlib
    from props import netprops
    by_id = {line.split(" ", 1)[0]: (sig, desc) for (sig, desc, line) in FINDING_PROBES}

    def oracle(case, impl, model, panic):
        out = netprops.crash_oracle(case, impl, model, panic)
        sig, desc = by_id[case.split(" ", 1)[0]]
        if not vlib.result_of(impl).startswith("OK"):
            out.append((sig, desc + "; got " + vlib.result_of(impl)))
        return out

    rep.count("finding-probes", len(FINDING_PROBES))
    vlib.correspond(rep, [line for (_, _, line) in FINDING_PROBES], oracle=oracle, trivial=netprops.trivial, tag="c05p")


# ---- C05: player lines whose fields use the quoting in every way the format allows — a quoted field may contain spaces and
# quoted words of its own (the quotes that WRAP the field are removed, the inner ones are the name's), fields without
# quotes, empty quoted fields, several spaces — one player entry per line with exactly the fields written.

def name_probes(rep, rnd, tier):
    import vlib
    from props import netprops
    inner = [b"Mad", b"Max", b"Rockatansky", b"o", b"neil", b"[clan]", b"x y", b"", b"a", b"9", b"\xc3\xa9t\xc3\xa9", b"^1Red"]
    lines, want = [], {}
    k = 0
    for fmt, head, port in ((1, _Q1, 27500), (2, _Q2, 27910), (3, _Q3, 27960)):
        for _ in range(40 if tier == "quick" else 600):
            n = rnd.choice([1, 1, 2, 3])
            names, body = [], b""
            for pi in range(n):
                # seg0 "seg1" seg2 … inside wrapping quotes: segments at even positions are inside quotes (may hold spaces),
                # at odd positions between an inner pair of quotes (no space, or the field would end there)
                nseg = rnd.choice([1, 1, 3, 3, 5])
                segs = []
                for si in range(nseg):
                    s = rnd.choice(inner)
                    if si % 2 == 1:
                        s = s.replace(b" ", b"_")
                    segs.append(s)
                name = b'"'.join(segs)
                names.append(name)
                if fmt == 1:
                    body += b"%d %d %d %d \"%s\" \"skin\" %d %d\n" % (pi + 1, rnd.randrange(0, 100), rnd.randrange(0, 100), rnd.randrange(0, 300), name, rnd.randrange(0, 14), rnd.randrange(0, 14))
                else:
                    body += b"%d %d \"%s\"\n" % (rnd.randrange(0, 100), rnd.randrange(0, 300), name)
            cid = f"qn{k}"
            k += 1
            lines.append(f"{cid} quake {port} {fmt} 0 " + (head + body + (b"\x00" if fmt == 1 else b"")).hex())
            want[cid] = names

    def oracle(case, impl, model, panic):
        out = netprops.crash_oracle(case, impl, model, panic)
        if out:
            return out
        res = vlib.result_of(impl)
        names = want[case.split(" ", 1)[0]]
        rep.count("name-probes:inner-quotes" if any(b'"' in nm for nm in names) else "name-probes:plain")
        import re
        m = re.search(r" P\[(.*?)\] U\[", res)
        got = re.findall(r"\(([^()]*)\)", m.group(1)) if m else None
        idx = 4 if case.split(" ")[3] == "1" else 2
        if got is None or len(got) != len(names) or any(g.split(";")[idx] != "x" + nm.hex() for g, nm in zip(got, names)):
            out.append(("player-name-quoting", f"names written {[nm.decode('utf-8', 'replace') for nm in names]}: got {res[:300]}"))
        return out

    vlib.correspond(rep, lines, oracle=oracle, trivial=netprops.trivial, tag="c05n")


def hostile_variants(valids, rnd, tier):
    """C01: replies whose variable line carries the NUMERIC variables servers really send (client limits, reserved slots,
    flags …) in every combination and with values on both sides of each other and of the integer widths: whatever the numbers
    are and however they relate, the query returns a value"""
    keys = [b"maxclients", b"sv_maxclients", b"sv_privateClients", b"g_needpass", b"needpass", b"protocol", b"clients", b"sv_maxPing",
            b"sv_minPing", b"fraglimit", b"timelimit", b"g_humanplayers", b"bots", b"sv_maxRate"]
    vals = [b"0", b"1", b"4", b"8", b"16", b"32", b"127", b"128", b"255", b"256", b"-1", b"65535", b"65536", b"4294967295", b"", b"x", b"08", b"+3"]
    out = []
    picks = [v for v in valids if v.case().script and v.case().script[0] != "X" and v.case().script[0] and v.case().script[0][0] is not None]
    for bi, v in enumerate(picks[: (120 if tier == "quick" else 3000)]):
        c = v.case()
        d = c.script[0][0]
        nl = d.find(b"\n", d.find(b"\n") + 1) if d.startswith(b"\xff\xff\xff\xffn") is False else d.find(b"\n")
        # the variable line ends at the first line feed after the header line (Quake 1: the header has none)
        head_end = d.find(b"\n")
        if head_end < 0:
            continue
        if d[4:5] == b"n":
            var_end = head_end
        else:
            var_end = d.find(b"\n", head_end + 1)
            if var_end < 0:
                continue
        extra = b""
        for k in rnd.sample(keys, rnd.choice([2, 3, 3, 4, 5])):
            extra += b"\\" + k + b"\\" + rnd.choice(vals)
        c.script[0][0] = d[:var_end] + extra + d[var_end:]
        out.append(c.line(f"{v.id}nv{bi}"))
    return out


def decode_variants(valid, rnd):
    """C05: the same reply made as LONG as a datagram can be (65507 bytes: the IPv4 limit, 65527: the IPv6 limit, 65535: the
    buffer the client asks for) with one more variable: all variables and players still come back"""
    import copy, re
    if valid.notwf or not valid.want.startswith("OK") or rnd.random() < 0.93:
        return []
    c = valid.case()
    if not c.script or c.script[0] == "X" or not c.script[0] or c.script[0][0] is None or len(c.script[0]) != 1:
        return []
    d = c.script[0][0]
    head_end = d.find(b"\n")
    if head_end < 0:
        return []
    var_end = head_end if d[4:5] == b"n" else d.find(b"\n", head_end + 1)
    m = re.search(r" U\[([^\]]*)\]", valid.want)
    if var_end < 0 or m is None:
        return []
    out = []
    for k, total in enumerate((65507, 65508, 65527, 65535)):
        key = b"zzzzzzpad"
        room = total - len(d) - len(key) - 2
        if room < 1:
            continue
        val = bytes(97 + (i * 7 + k) % 26 for i in range(room))
        c2 = valid.case()
        c2.script[0][0] = d[:var_end] + b"\\" + key + b"\\" + val + d[var_end:]
        entries = [e for e in m.group(1).split(",") if e]
        if any(e.split("=")[0] == "x" + key.hex() for e in entries):
            continue
        entries.append("x" + key.hex() + "=x" + val.hex())
        entries.sort(key=lambda e: bytes.fromhex(e.split("=")[0][1:]))
        v = copy.copy(valid)
        v.tags = dict(valid.tags)
        v.tags["THM"] = "0"
        v.want = valid.want[:m.start()] + " U[" + ",".join(entries) + "]" + valid.want[m.end():]
        v.id = f"{valid.id}L{k}"
        v.line = c2.line(v.id)
        out.append(v)
    return out
