"""Savage 2 (C07): how the generic property runners drive it.  The protocol does not retry (outside C10's quantifier)."""

FAMILY = dict(
    name="savage2", nargs=2, gen="savage2", retries=1, port=0, decode_property="C07", entry="savage2",
    describe=("Savage 2 info reply: 12 skipped bytes of any content, 7 NUL-terminated strings (empty to long, 1-4 byte "
              "UTF-8), 4 bytes over the full range, 0-17 ignored trailing bytes, port given / defaulted (savage2_dp)"),
)
