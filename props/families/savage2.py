"""Savage 2 (C07): how the generic property runners drive it.  The protocol does not retry (outside C10's quantifier)."""

FAMILY = dict(
    send_units=1, name="savage2", nargs=2, gen="savage2", retries=1, port=0, decode_property="C07", entry="savage2",
    describe=("Savage 2 info reply: 12 skipped bytes of any content, 7 NUL-terminated strings (empty to long, 1-4 byte "
              "UTF-8), 4 bytes over the full range, 0-17 ignored trailing bytes, port given / defaulted (savage2_dp)"),
)


# ---- C07: probe of the recorded (unrepaired) finding — the reference reader (node-gamedig savage2.js) decodes the
# strings as Latin-1 (every byte is a character); the code reads them with the strict UTF-8 decoder into Strings, so
# one byte >= 0x80 that is not UTF-8 fails the whole query.

FINDING_PROBES = [
    ("savage2-non-utf8-text",
     "a Savage 2 server name with a Latin-1 byte (\"Caf\\xe9\"; the reference reader decodes Latin-1) fails the whole query with "
     "PacketBad: the fields are Strings read with the strict UTF-8 decoder",
     "fp_s2_latin1 savage2 11235 0 000000000000000000000000436166e900032031323a3030006d6170006e6578740045550002636f6e717565737400322e310001"),
]


def finding_probes(rep):
    """run the probes: correspondence as for every case; oracle: the query must return a response"""
    import vlib
    from props import netprops
    by_id = {line.split(" ", 1)[0]: (sig, desc) for (sig, desc, line) in FINDING_PROBES}

    def oracle(case, impl, model, panic):
        out = netprops.crash_oracle(case, impl, model, panic)
        sig, desc = by_id[case.split(" ", 1)[0]]
        if not vlib.result_of(impl).startswith("OK"):
            out.append((sig, desc + "; got " + vlib.result_of(impl)))
        return out

    rep.count("finding-probes", len(FINDING_PROBES))
    vlib.correspond(rep, [line for (_, _, line) in FINDING_PROBES], oracle=oracle, trivial=netprops.trivial, tag="c07p")
