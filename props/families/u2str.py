"""Unreal 2 string decoder alone (`Unreal2StringDecoder` through `Buffer::read_string`).

Entry `u2str <hex>`: the bytes are the packet, one string is read at offset 0; the outcome is the text and the cursor.
The case line has the shape of a network case whose script is the bytes themselves (one delivery), so the generic
mutation machinery (truncate, set bytes, extend, ...) applies to the string's bytes."""

FAMILY = dict(send_units=0, 
    name="u2str", nargs=0, gen="u2str", retries=0, port=0, decode_property="C06", entry="u2str",
    describe=("every length byte 0-255 (Latin-1 lengths 0-127, UCS-2 lengths 0-127) once with plain text and once with colour "
              "escapes / control characters / high characters, then random strings with stray 0x01, surrogate pairs, BOM-like "
              "prefixes; the cursor after the read is part of the outcome"),
)
