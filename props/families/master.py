"""Valve master-server service (C16): how the generic property runners drive `valve_master_server::{query, query_singular}`.

Entry `master <q|s> <region> <filters> <script>`: three arguments before the script, no retries argument (the service never
retries), no port argument (the Rust hard-codes 208.64.201.194:27011; the harness flags any other address with @WRONGIP).
The harness and the model print each request in canonical form (`M<region>|x<seed>|P[…]|A[…]|O[…]`, the request parsed by
the reference grammar, groups sorted) because the Rust iterates hash maps; the canonical text contains commas, so the SENT
tag separates requests with `;`."""

FAMILY = dict(
    name="master", nargs=3, gen="master", decode_property="C16", entry="master",
    send_units=1,            # C13: requests <= 1 + datagrams received (no retries argument: r = 0)
    fixed_port=27011,        # C09: the destination port is a constant of the service
    sent_sep=";",            # C09: separator of the SENT tag
    describe=("well-formed histories of 1-6 reply pages x 0-230 entries (the terminator 0.0.0.0:0 closing the last page, or an "
              "empty last page), ports over boundary values, all 9 regions, 7 filter sets (none, empty, plain / NAND / NOR groups "
              "with 1-2 filters, a replaced duplicate), complete and single-page query, ignored trailing datagrams"),
)
