"""Minecraft Java edition (Server List Ping over TCP): how the generic property runners drive it."""

FAMILY = dict(send_units=3, 
    name="mcjava", nargs=4, gen="mcjava", retries=3, port=0, decode_property="C03", entry="mcjava",
    describe=("status JSON written by a varied printer (member order, unknown members incl. every number form, null vs absent "
              "optional members, white space, all escape forms, surrogate pairs, nesting up to the parser's recursion limit), "
              "chat-object / string / null descriptions, 0-12 sample players, i32/u32 boundary numbers, host name and protocol "
              "version settings, optional trailing pong"),
)

# ---- C10: handshake + status request + ping + read is one retried unit
from props import mc_c10

c10_eligible = mc_c10.eligible
c10_units = lambda valid: [0]
c10_build = mc_c10.build(FAMILY, 3)
c10_attempts = mc_c10.attempts


def c10_plan_request(valid, unit, v, r):
    """model-driver request for the SPEC's plan script of this (base, vector, r) — see props/families/valve.py; theorems
    C10_mcjava_query_* (Props/C10_mcjava_whole.lean)"""
    import re
    m = re.fullmatch(r"mj(\d+)_(\d+)", valid.id)
    if not m:
        return None
    return f"mcjavaplan {m.group(1)} {m.group(2)} {r} {v}"


def _varint(n):
    out = bytearray()
    n &= 0xFFFFFFFF
    while True:
        b = n & 0x7F
        n >>= 7
        if n:
            out.append(b | 0x80)
        else:
            out.append(b)
            return bytes(out)


def _read_varint(b, i):
    v = shift = 0
    while True:
        x = b[i]
        i += 1
        v |= (x & 0x7F) << shift
        shift += 7
        if not x & 0x80:
            return v, i


def decode_variants(valid, rnd):
    """C03: the same status made LONG with insignificant white space — JSON texts of 32767, 32768 and more bytes (the length
    prefix counts bytes; a status with a favicon or a mod list easily exceeds 32 KiB): same response"""
    import copy
    if valid.notwf or not valid.want.startswith("OK") or rnd.random() < 0.85:
        return []
    c = valid.case()
    if not c.script or c.script[0] == "X" or not c.script[0] or c.script[0][0] is None:
        return []
    d = c.script[0][0]
    try:
        plen, i = _read_varint(d, 0)
        if d[i] != 0 or i + plen > len(d):
            return []
        slen, j = _read_varint(d, i + 1)
        text = d[j:j + slen]
        rest = d[i + plen:]
        if len(text) != slen or j + slen != i + plen:
            return []
    except IndexError:
        return []
    out = []
    for k, target in enumerate((32766, 32767, 32768, 32769, rnd.randrange(32770, 200000))):
        if len(text) >= target:
            continue
        pad = bytes(rnd.choice(b" \n\t\r") for _ in range(target - len(text)))
        at = rnd.choice([0, len(text)])
        t2 = text[:at] + pad + text[at:]
        body = b"\x00" + _varint(len(t2)) + t2
        c2 = valid.case()
        c2.script[0][0] = _varint(len(body)) + body + rest
        v = copy.copy(valid)
        v.tags = dict(valid.tags)
        v.tags["THM"] = "0"
        v.id = f"{valid.id}L{k}"
        v.line = c2.line(v.id)
        out.append(v)
    return out
