"""Minecraft Java edition (Server List Ping over TCP): how the generic property runners drive it."""

FAMILY = dict(send_units=3, 
    name="mcjava", nargs=4, gen="mcjava", retries=3, port=0, decode_property="C03", entry="mcjava",
    describe=("status JSON written by a varied printer (member order, unknown members incl. every number form, null vs absent "
              "optional members, white space, all escape forms, surrogate pairs, nesting up to the parser's recursion limit), "
              "chat-object / string / null descriptions, 0-12 sample players, i32/u32 boundary numbers, host name and protocol "
              "version settings, optional trailing pong"),
)

# ---- C10: handshake + status request + ping + read is one retried unit
from props import mc_c10

c10_eligible = mc_c10.eligible
c10_units = lambda valid: [0]
c10_build = mc_c10.build(FAMILY, 3)
c10_attempts = mc_c10.attempts


def c10_plan_request(valid, unit, v, r):
    """model-driver request for the SPEC's plan script of this (base, vector, r) — see props/families/valve.py; theorems
    C10_mcjava_query_* (Props/C10_mcjava_whole.lean)"""
    import re
    m = re.fullmatch(r"mj(\d+)_(\d+)", valid.id)
    if not m:
        return None
    return f"mcjavaplan {m.group(1)} {m.group(2)} {r} {v}"
