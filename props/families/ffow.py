"""Frontlines: Fuel of War (C07): how the generic property runners drive it."""
from props import malformed

FAMILY = dict(
    send_units=1, name="ffow", nargs=2, gen="ffow", retries=1, port=0, decode_property="C07", entry="ffow",
    describe=("FFOW `LSQ` info reply in A2S framing: 6 strings, big-endian game port and time left over boundary values, "
              "all server type / environment letters in both cases, port given / defaulted (ffow_dp)"),
)

# ---- C10: the one request (with its challenge rounds) is the retried unit, on one socket

def c10_eligible(valid):
    return valid.want.startswith("OK") and not valid.notwf


def c10_units(valid):
    return [0]


def c10_build(valid, unit, v, r, new_id):
    c = valid.case()
    reply = c.script[0][0]
    ds, faults = [], []
    for e in v:
        if e == "S":
            ds.append(None); faults.append(False)
        elif e == "F":
            faults.append(True)
        elif e == "M":
            ds.append(malformed.CURRENT); faults.append(False)
        else:
            ds.append(reply); faults.append(False)
    c.script = [ds]
    c.args[FAMILY["retries"]] = str(r)
    c.opts = [o for o in c.opts if not o.startswith("f=")] + ["f=" + "".join("1" if f else "0" for f in faults)]
    return c.line(new_id)


def c10_plan_request(valid, unit, v, r):
    """model-driver request for the SPEC's plan script of this (base, vector, r) — see props/families/valve.py; theorems
    C10_ffow_query_* (Props/C10_ffow_whole.lean)"""
    import re
    m = re.fullmatch(r"ff(\d+)_(\d+)", valid.id)
    if not m:
        return None
    return f"ffowplan {m.group(1)} {m.group(2)} {r} {v}"


def c10_attempts(valid, unit, sends, clean):
    return sum(1 for (_, _, data, _) in sends if data == "ffffffff464c5351")
