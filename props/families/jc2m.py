"""Just Cause 2: Multiplayer family (`games::jc2m::query_with_timeout`; GameSpy 3 in single-packet mode): how the
generic property runners drive it."""
from props import malformed

FAMILY = dict(send_units=1,  # C13_jc2m_send_bound: the data request is paid for by the challenge reply
    name="jc2m", nargs=2, gen="jc2m", retries=1, port=0, decode_property="C07", entry="jc2m",
    describe=("JC2M: variables in random order with optional numplayers and extra variables, 0-100 players (empty and "
              "multi-byte names, numeric and textual steam ids, full ping range), arbitrary 11-byte split header, challenge "
              "0 / negative / boundary values"),
)

HANDSHAKE = "fefd09"


# ---- C10: the retried unit is the whole exchange (handshake + data request + the packet)

def c10_eligible(valid):
    return valid.want.startswith("OK") and not valid.notwf


def c10_units(valid):
    return [0, 1]  # fault at the handshake stage / at the data stage of an attempt


def c10_build(valid, unit, v, r, new_id):
    c = valid.case()
    ds = c.script[0] if c.script else []
    hs, packets = ds[0], ds[1:]
    newds, faults = [], []
    for e in v:
        if e == "V":
            newds += [hs] + packets
            faults += [False, False]
        elif unit == 0:
            if e == "S":
                newds.append(None)
                faults.append(False)
            elif e == "F":
                faults.append(True)
            else:
                newds.append(malformed.CURRENT)
                faults.append(False)
        else:
            if e == "S":
                newds += [hs, None]
                faults += [False, False]
            elif e == "F":
                newds += [hs]
                faults += [False, True]
            else:
                newds += [hs, malformed.CURRENT]
                faults += [False, False]
    c.script = [newds]
    c.args[FAMILY["retries"]] = str(r)
    c.opts = [o for o in c.opts if not o.startswith("f=")] + ["f=" + "".join("1" if f else "0" for f in faults)]
    return c.line(new_id)


def c10_plan_request(valid, unit, v, r):
    """model-driver request for the SPEC's plan script of this (base, stage, vector, r) — see props/families/valve.py;
    theorems C10_jc2m_query_* (Props/C10_jc2m_whole.lean)"""
    import re
    m = re.fullmatch(r"j(\d+)_(\d+)", valid.id)
    if not m:
        return None
    return f"jc2mplan {m.group(1)} {m.group(2)} {r} {unit} {v}"


def c10_attempts(valid, unit, sends, clean):
    return sum(1 for (_, _, data, _) in sends if data.startswith(HANDSHAKE))
