"""GameSpy 2 family (`gs2 <port> <retries> <script>` = two::query)."""

FAMILY = dict(
    send_units=1, name="gs2", nargs=2, gen="gs2", retries=1, port=0, decode_property="C04", entry="gs2",
    describe=("0-64 players, 0-8 teams (tables with and without rows, extra columns the client does not know), numplayers "
              "absent / below / equal / above the number of players listed, minplayers, extra variables, replies up to "
              "the 2048-byte receive buffer"),
)

REQUEST = "fefd0000000001ffffff"


def _cstr(d, i):
    j = d.index(b"\x00", i)
    return d[i:j], j + 1


def _parse_reply(d):
    """offsets of the two tables of a reply: [(start of marker, count, start of heads, end of heads incl. terminator,
    end of table)], or None when the datagram is not in the format"""
    try:
        i = 5
        while True:
            k, i = _cstr(d, i)
            if not k:
                break
            _, i = _cstr(d, i)
        tables = []
        for _ in range(2):
            start = i
            if d[i] != 0:
                return None
            count = d[i + 1]
            i += 2
            hstart, ncols = i, 0
            while True:
                h, i = _cstr(d, i)
                if not h:
                    break
                ncols += 1
            hend = i
            for _ in range(count * ncols):
                _, i = _cstr(d, i)
            tables.append((start, count, hstart, hend, i))
        return tables if i == len(d) else None
    except (ValueError, IndexError):
        return None


def decode_variants(valid, rnd):
    """C04: a table without rows may come without its column heads too (count 0, then the empty head that ends the
    list): the same exchange with the heads of its zero-row tables left out.  Response and requests unchanged."""
    import copy
    if valid.notwf or not valid.want.startswith("OK"):
        return []
    c = valid.case()
    if not c.script or c.script[0] == "X" or not c.script[0] or c.script[0][0] is None:
        return []
    d = c.script[0][0]
    tables = _parse_reply(d)
    if tables is None or all(t[1] != 0 or t[3] - t[2] == 1 for t in tables):
        return []
    new, cut = d, 0
    for (start, count, hstart, hend, end) in tables:
        if count == 0 and hend - hstart > 1 and rnd.random() < 0.8:
            new = new[:hstart - cut] + b"\x00" + new[hend - cut:]
            cut += hend - hstart - 1
    if new == d:
        return []
    c.script[0][0] = new
    v = copy.copy(valid)
    v.tags = dict(valid.tags)
    v.id = valid.id + "h"
    v.line = c.line(v.id)
    return [v]


# ---- C10: the request/response exchange is the one retried unit

def c10_eligible(valid):
    return valid.want.startswith("OK") and not valid.notwf


def c10_units(valid):
    return [0]


def c10_build(valid, unit, v, r, new_id):
    """outcome vector v (S silent, F send fault, M malformed, V valid)"""
    c = valid.case()
    ds = c.script[0] if c.script else []
    newds, faults = [], []
    for e in v:
        if e == "S":
            newds.append(None)
            faults.append(False)
        elif e == "F":
            faults.append(True)
        elif e == "M":
            newds.append(b"\x09\x00\x00\x00\x01")
            faults.append(False)
        else:
            newds += ds
            faults.append(False)
    c.script = [newds]
    c.args[FAMILY["retries"]] = str(r)
    c.opts = [o for o in c.opts if not o.startswith("f=")] + ["f=" + "".join("1" if f else "0" for f in faults)]
    return c.line(new_id)


def c10_plan_request(valid, unit, v, r):
    """model-driver request for the SPEC's plan script of this (base, vector, r) — see props/families/valve.py; theorems
    C10_gs2_query_* (Props/C10_gs2_whole.lean)"""
    import re
    m = re.fullmatch(r"gb(\d+)_(\d+)", valid.id)
    if not m:
        return None
    return f"gs2plan {m.group(1)} {m.group(2)} {r} {v}"


def c10_attempts(valid, unit, sends, clean):
    return sum(1 for (_, _, data, _) in sends if data == REQUEST)
