"""GameSpy 2 family (`gs2 <port> <retries> <script>` = two::query)."""

FAMILY = dict(
    send_units=1, name="gs2", nargs=2, gen="gs2", retries=1, port=0, decode_property="C04", entry="gs2",
    describe=("0-64 players, 0-8 teams (tables with and without rows, extra columns the client does not know), numplayers "
              "absent / below / equal / above the number of players listed, minplayers, extra variables, replies up to "
              "the 2048-byte receive buffer"),
)

REQUEST = "fefd0000000001ffffff"


# ---- C10: the request/response exchange is the one retried unit

def c10_eligible(valid):
    return valid.want.startswith("OK") and not valid.notwf


def c10_units(valid):
    return [0]


def c10_build(valid, unit, v, r, new_id):
    """outcome vector v (S silent, F send fault, M malformed, V valid)"""
    c = valid.case()
    ds = c.script[0] if c.script else []
    newds, faults = [], []
    for e in v:
        if e == "S":
            newds.append(None)
            faults.append(False)
        elif e == "F":
            faults.append(True)
        elif e == "M":
            newds.append(b"\x09\x00\x00\x00\x01")
            faults.append(False)
        else:
            newds += ds
            faults.append(False)
    c.script = [newds]
    c.args[FAMILY["retries"]] = str(r)
    c.opts = [o for o in c.opts if not o.startswith("f=")] + ["f=" + "".join("1" if f else "0" for f in faults)]
    return c.line(new_id)


def c10_plan_request(valid, unit, v, r):
    """model-driver request for the SPEC's plan script of this (base, vector, r) — see props/families/valve.py; theorems
    C10_gs2_query_* (Props/C10_gs2_whole.lean)"""
    import re
    m = re.fullmatch(r"gb(\d+)_(\d+)", valid.id)
    if not m:
        return None
    return f"gs2plan {m.group(1)} {m.group(2)} {r} {v}"


def c10_attempts(valid, unit, sends, clean):
    return sum(1 for (_, _, data, _) in sends if data == REQUEST)
