"""Battalion 1944 (C07): a Valve query with engine app 489940, default gathering and default timeouts (no retries: the
entry point takes no timeout settings, so it is outside C10's quantifier), then five `bat_*` rule overrides."""

FAMILY = dict(
    send_units=3, name="battalion", nargs=2, gen="battalion", retries=1, port=0, decode_property="C07", entry="battalion",
    describe=("Battalion 1944: Valve A2S with app 489940 (id carried in the GameID), every subset of the six bat_* rules, "
              "numeric overrides 0-255 / with leading zeros / out of range / non-numeric (NOTWF), password Y/N/other, 0-40 players, "
              "0-3 challenge rounds, single / split transports, foreign app ids (BadGame), port given / defaulted (battalion_dp)"),
)
