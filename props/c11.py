"""C11 — gather toggles and the app-id check."""
import itertools, random
import vlib, netcases
from props import netprops

LEVEL = "proof"
RULE = ("matrix over valid SPEC-generated Valve servers: all 9 toggle pairs x section outcome {valid, silent, malformed, "
        "challenge-then-silent, compressed split that does not decompress (a failure of a kind other than the packet kinds), a well-formed reply announcing more entries than it holds, a split reply one of whose fragments belongs to another response} for players and for rules x app-id relation (main / dedicated / other id / no expectation; "
        "from the base case's engine and server id) x check on/off. The oracle derives the expected response from the "
        "fault-free one: skipped or failed-Try sections absent, rest intact; failed Enforce = that failure; BadGame exactly "
        "on a foreign id with the check on; request kinds seen on the wire must match. The same decision through the generic "
        "definition-driven query for games whose definition has the check on and off x extra settings that carry a check, other fields only, or nothing. Unreal 2: 9 toggle pairs x {valid, silent, "
        "malformed, last record cut short after a well-formed prefix} for rules and for players. Non-trivial = a delivery received.")
ASSUMPTIONS = ["timeouts are scripted deliveries (silence)"]
TRUSTED = ["hand-written Lean model of maybe_gather!/get_response, checked against the code on every run"]

OUTCOMES = ["valid", "silent", "malformed", "chalsilent", "undecompressable", "shortcount", "foreignsplit"]


def _source_split(body, sid, foreign_at=None):
    """the reply as an uncompressed Source split of 3-5 fragments; fragment `foreign_at` carries another response's id"""
    n = 3 + len(body) % 3
    size = max(1, -(-len(body) // n))
    chunks = [body[i:i + size] for i in range(0, len(body), size)] or [b""]
    while len(chunks) < 3:
        chunks.append(b"")
    frags = []
    for i, ch in enumerate(chunks):
        fid = sid + 7 if i == foreign_at else sid
        frags.append(b"\xfe\xff\xff\xff" + fid.to_bytes(4, "little") + bytes([len(chunks), i]) + (1248).to_bytes(2, "little") + ch)
    return frags
# a Source split reply of one fragment, marked compressed (bit 31 of the id), whose stream no bzip2 decoder accepts:
# the section fails with the decompression error kind, not with a packet error kind
UNDECOMPRESSABLE = (bytes.fromhex("feffffff") + (0x80000007).to_bytes(4, "little") + bytes([1, 0]) + (1248).to_bytes(2, "little")
                    + (10).to_bytes(4, "little") + bytes(4) + b"not a bzip2 stream")


def compressible(c):
    """engines whose split layout has the compression fields (Source, except the protocol-7 / app 240 layout)"""
    return c.args[1].startswith("S:") and c.args[1] != "S:240"


def build(valid, tp, tr, op, orr, check, new_id):
    fam = netprops.FAMILIES[valid.fam]
    c = valid.case()
    seg = valid.seg()
    ds = c.script[0]
    starts = [0, seg[0], seg[0] + seg[1]]
    groups = [ds[starts[k]:starts[k] + seg[k]] for k in range(3)]
    newds = list(groups[0])
    for k, (t, o) in enumerate(((tp, op), (tr, orr)), start=1):
        if t == "s":
            continue
        if o == "valid":
            newds += groups[k]
        elif o == "silent":
            newds.append(None)
        elif o == "shortcount" and groups[k] and groups[k][-1] is not None and groups[k][-1][:5] == b"\xff\xff\xff\xffD":
            # a well-formed PLAYERS reply that announces more entries than it holds (it ends exactly where an entry would
            # begin): not a valid section — the count is part of the reply.  (A rules reply with too large a count is read
            # leniently by the code — empty strings at the end of the packet — and is not used here.)
            d = groups[k][-1]
            d2 = d[:5] + bytes([min(255, d[5] + 1 + (len(newds) % 3))]) + d[6:] if d[5] < 255 else b"\xff\xff"
            newds += groups[k][:-1] + [d2]
        elif o == "foreignsplit" and compressible(c) and groups[k] and groups[k][-1] is not None and groups[k][-1][:4] == b"\xff\xff\xff\xff":
            # the section's reply as a split response one of whose fragments — not the last to arrive — belongs to ANOTHER response:
            # the section is malformed; ALL its fragments have arrived before the next request goes out, so the next section
            # must be unaffected
            frags = _source_split(groups[k][-1], 300 + len(newds), foreign_at=1)
            newds += groups[k][:-1] + frags
        elif o in ("malformed", "shortcount", "foreignsplit") or (o == "undecompressable" and not compressible(c)):
            newds.append(b"\xff\xff")
        elif o == "undecompressable":
            newds.append(UNDECOMPRESSABLE)
        else:
            newds += [bytes.fromhex("ffffffff41") + b"\x01\x02\x03\x04", None]
    c.script = [newds]
    c.args[fam["retries"]] = "0"
    c.args[fam["gather"]] = tp + tr + ("T" if check else "F")
    return c.line(new_id)


def run(rep, tier, seed, replay=None):
    if replay is not None:
        vlib.correspond(rep, replay, oracle=netprops.crash_oracle, trivial=netprops.trivial, tag="c11")
        return
    rnd = random.Random(seed)
    # bases generated with both sections present and the check OFF so that the fault-free response is known for every id
    allv = [v for v in netprops.valid_cases("valve", seed + 11, 600 if tier == "quick" else 5000) if not v.notwf]
    bases = [v for v in allv if " P+" in v.want and " R+" in v.want and v.want.startswith("OK")]
    # classify by app-id relation using the engine argument and the id in the response
    def relation(v):
        eng = v.line.split(" ")[3]
        appid = v.want.split(";")[5]
        p = eng.split(":")
        if p[0] != "S" or p[1] == "-":
            return "none"
        if appid == p[1]:
            return "main"
        if len(p) > 2 and appid == p[2]:
            return "dedicated"
        return "other"
    # bases whose fault-free run passed the id check with the check on or off; add foreign-id bases from BadGame cases
    foreign = [v for v in allv if v.want == "ERR BadGame"]
    byrel = {}
    for v in bases:
        byrel.setdefault(relation(v), []).append(v)
    per = 2 if tier == "quick" else 12
    chosen = []
    for rel in ("main", "dedicated", "other", "none"):
        chosen += [(rel, v) for v in byrel.get(rel, [])[:per]]
    cases, meta = [], {}
    combos = list(itertools.product("ste", "ste", OUTCOMES, OUTCOMES, [True, False]))
    for rel, b in chosen:
        cs = combos if tier == "thorough" else rnd.sample(combos, 60)
        if tier != "thorough":
            # always: every way the players section can fail followed by a VALID rules section (the failure must not reach it)
            must = [(tp, tr, op, "valid", ck) for tp in "te" for tr in "te" for op in OUTCOMES if op != "valid" for ck in (True, False)]
            cs = cs + [x for x in must if x not in cs]
        for tp, tr, op, orr, check in cs:
            cid = f"{b.id}{tp}{tr}{op[0]}{orr[0]}{'T' if check else 'F'}"
            cases.append(build(b, tp, tr, op, orr, check, cid))
            meta[cid] = (b, rel, tp, tr, op, orr, check)
    # foreign-id servers answered with the check on: BadGame and nothing but info requests
    for k, v in enumerate(foreign[: (10 if tier == "quick" else 200)]):
        cases.append(v.line)
        meta[v.id] = (v, "foreign-on", None, None, None, None, True)
    # … among them always servers reporting app id 0 (no id is ever "0 by default"), for engines with and without a dedicated id
    def force_appid_zero(d):
        if d is None or d[:5] != b"\xff\xff\xff\xffI":
            return None
        i = 6
        for _ in range(4):
            j = d.find(b"\0", i)
            if j < 0:
                return None
            i = j + 1
        if i + 9 > len(d) or d[i:i + 2] == (2400).to_bytes(2, "little"):
            return None
        out = bytearray(d)
        out[i:i + 2] = b"\0\0"
        k = i + 2 + 7
        j = d.find(b"\0", k)
        if j < 0:
            return None
        if j + 1 < len(d) and d[j + 1] & 0x01 and len(d) >= j + 2 + 8:
            out[-8:-5] = b"\0\0\0"
        return bytes(out)

    zero_made = 0
    for v in foreign + [b for _, b in chosen]:
        eng = v.line.split(" ")[3].split(":")
        if eng[0] != "S" or len(eng) < 2 or eng[1] in ("-", "0", "2400"):
            continue
        c = v.case()
        if not c.script or c.script[0] == "X":
            continue
        idx = next((n for n, d in enumerate(c.script[0]) if d is not None and d[:5] == b"\xff\xff\xff\xffI"), None)
        if idx is None:
            continue
        z = force_appid_zero(c.script[0][idx])
        if z is None:
            continue
        c.script[0][idx] = z
        c.args[netprops.FAMILIES["valve"]["gather"]] = c.args[netprops.FAMILIES["valve"]["gather"]][:2] + "T"
        cid = f"{v.id}z0"
        cases.append(c.line(cid))
        meta[cid] = (v, "foreign-on", None, None, None, None, True)
        zero_made += 1
        if zero_made >= (6 if tier == "quick" else 60):
            break
    rep.count("appid-zero-servers", zero_made)

    # ---- the app-id decision through the definition-driven generic query (games::query): the check that applies is the
    # caller's when the extra settings carry one — whatever else they carry or leave out —, the protocol's default (on) when
    # they carry none, the game definition's when no extra settings are given;
    # a foreign id fails the query with BadGame exactly when that check is on
    gmeta = {}
    GAMES = [("teamfortress2", 27015, "S:440", True), ("aapg", 27020, "S:203290", True), ("starbound", 21025, "S:211820", False),
             ("armareforger", 17777, "S:1874880", False)]
    import json as _json, os as _os
    defs = {d["id"]: d for d in _json.load(open(_os.path.join(vlib.WORK, "games.json")))["defs"]}
    EXTRAS = [("-", None), ("E-:-:-:-:F", False), ("E-:-:-:-:T", True), ("E-:-:t:-:F", False), ("E-:-:-:e:T", True), ("E-:-:t:t:-", None),
              ("E676d:-:-:-:F", False), ("E676d:47:-:-:T", True), ("E676d:-:-:-:-", None)]
    for game, _, engine, _ in GAMES:
        d = defs.get(game)
        if d is None or d["engine"] != engine:
            continue
        def_check = d["gather"].endswith("T")
        raws = vlib.model_gen("valvefor", seed + 11, 120 if tier == "quick" else 1200, extra=[engine, d["gather"][:2] + "T"])
        gv = [netprops.Valid(raw, "valve") for raw in raws]
        gv = [v for v in gv if not v.notwf and (v.want.startswith("OK") or v.want == "ERR BadGame")]
        foreign_g = [v for v in gv if v.want == "ERR BadGame"][: (3 if tier == "quick" else 30)]
        own_g = [v for v in gv if v.want.startswith("OK")][: (2 if tier == "quick" else 20)]
        for v in foreign_g + own_g:
            c = v.case()
            for j, (extra, chk) in enumerate(EXTRAS):
                cid = f"{game}{v.id}x{j}"
                port = "-" if j % 2 else str(d["port"])
                cases.append(" ".join([cid, "dispatch", game, port, "-", extra, c.fmt_script()] + c.opts))
                # (extra settings REPLACE the definition's: given without a check they mean the protocol's default, on)
                gmeta[cid] = (game, v.want == "ERR BadGame", chk if chk is not None else (def_check if extra == "-" else True), extra)

    def oracle(case, impl, model, panic):
        out = netprops.crash_oracle(case, impl, model, panic)
        cid = case.split(" ", 1)[0]
        if cid in gmeta and not out:
            game, foreign_id, check_on, extra = gmeta[cid]
            got = vlib.result_of(impl)
            rep.count(f"generic-appid:{'foreign' if foreign_id else 'own'}:{'on' if check_on else 'off'}")
            if (got == "ERR BadGame") != (foreign_id and check_on):
                out.append(("appid-check:generic", f"{game}, extra settings {extra}: {'foreign' if foreign_id else 'expected'} app id, the check that applies is {'on' if check_on else 'off'}; got {got[:100]}"))
            return out
        if cid not in meta or out:
            return out
        b, rel, tp, tr, op, orr, check = meta[cid]
        got = vlib.result_of(impl)
        kinds = [d[8:10] for (_, _, d, _) in vlib.sends_of(impl)]
        rep.count("appid-relation:" + rel)
        if rel == "foreign-on":
            if got != "ERR BadGame" or "55" in kinds or "56" in kinds:
                out.append(("appid-check:valve", f"foreign app id with check on: got {got[:100]}, request kinds {sorted(set(kinds))}"))
            return out
        info, pl, ru = b.want.split(" ")[1:4]
        badgame = (rel == "other" and check)
        if badgame:
            if got != "ERR BadGame" or "55" in kinds or "56" in kinds:
                out.append(("appid-check:valve", f"id relation {rel}, check on: expected BadGame and no further request; got {got[:100]} kinds {sorted(set(kinds))}"))
            return out
        # expected outcome from the toggles
        exp_err = None
        exp_p = exp_r = "-"
        want55 = tp != "s"
        want56 = tr != "s"
        if tp != "s":
            if op == "valid":
                exp_p = pl[1:]
            elif tp == "e":
                exp_err = "timeout" if op in ("silent", "chalsilent") else "other"
                want56 = False
        if exp_err is None and tr != "s":
            if orr == "valid":
                exp_r = ru[1:]
            elif tr == "e":
                exp_err = "timeout" if orr in ("silent", "chalsilent") else "other"
        if ("55" in kinds) != want55 or ("56" in kinds) != want56:
            out.append(("toggle-requests:valve", f"toggles {tp}{tr} outcomes {op}/{orr}: request kinds on the wire {sorted(set(kinds))}"))
        if exp_err is not None:
            ok = got == "ERR PacketReceive" if exp_err == "timeout" else (got.startswith("ERR ") and got not in ("ERR PacketReceive", "ERR PacketSend", "ERR BadGame"))
            if not ok:
                out.append(("toggle-enforce:valve", f"toggles {tp}{tr} outcomes {op}/{orr}: expected a {exp_err} failure, got {got[:120]}"))
        else:
            exp = f"OK {info} P{exp_p} R{exp_r}"
            if got != exp:
                out.append(("toggle-response:valve", f"toggles {tp}{tr} outcomes {op}/{orr} check {check} rel {rel}: expected {exp[:200]} got {got[:200]}"))
        return out

    # ---- the app id is the one of the 64-bit game id when the reply carries it (its low 24 bits; the 16-bit field may have
    # been truncated or left at a placeholder): replies whose short field says something else must be judged by the game id
    def with_short_id(c, new_short):
        ds = c.script[0]
        for i, d in enumerate(ds):
            if d is not None and d[:5] == b"\xff\xff\xff\xffI":
                pos = 6
                for _ in range(4):
                    pos = d.index(b"\0", pos) + 1
                edf_gameid = False
                try:
                    # the extra-data flag byte is the last fixed field; only replies with a game id qualify
                    tail = d[pos + 2 + 7:]
                    ver_end = tail.index(b"\0")
                    edf_gameid = bool(tail[ver_end + 1] & 0x01)
                except (ValueError, IndexError):
                    return None
                if not edf_gameid or d[pos:pos + 2] == new_short:
                    return None
                ds[i] = d[:pos] + new_short + d[pos + 2:]
                return c
        return None

    short_meta = {}
    for rel, b in chosen:
        for k, new_short in enumerate((b"\x00\x00", b"\xff\xff", b"\xda\x02")):
            for check in (True, False):
                line = build(b, "t", "t", "valid", "valid", check, f"{b.id}sid{k}{'T' if check else 'F'}")
                c = netcases.Case(line, netprops.FAMILIES["valve"]["nargs"])
                c2 = with_short_id(c, new_short)
                if c2 is None:
                    continue
                cases.append(c2.line())
                cases.append(line.replace(f"{b.id}sid{k}", f"{b.id}sidref{k}", 1))
                short_meta[c2.id] = c2.id.replace("sid", "sidref", 1)

    # ---- Unreal 2: the same matrix on its two optional sections, including answers that go wrong only AFTER a well-formed
    # prefix (the last record cut short): a section that fails is absent as a whole
    u2 = [v for v in netprops.valid_cases("unreal2", seed + 11, 400 if tier == "quick" else 4000)
          if not v.notwf and v.want.startswith("OK") and " M[] R[] " not in v.want and " P[] B[]" not in v.want and v.line.split(" ")[3] in ("ee", "et", "te", "tt")]
    # (a stray datagram after a complete first one is not a failed section: the listening loop keeps what it has; not in the matrix)
    U2_OUT = ["valid", "silent", "malformed", "cut"]
    u2meta = {}

    def u2_section(group, outcome, listens):
        dgs = [d for d in group if d is not None]
        if outcome == "valid":
            return list(group)
        if outcome == "silent":
            return [None]
        # (a further datagram too short to carry the reply header is a stray datagram: the listening loop stops there and
        # keeps what it has; a record can only be cut short in a datagram that still has its header and something behind it)
        if outcome == "malformed" or not dgs or len(dgs[-1]) < 7:
            return [b"\xff\xff"]
        # the section ends at the record that cannot be read: nothing is listened for after it
        return dgs[:-1] + [dgs[-1][:-1]]

    # a record cut short is a failure of the PLAYERS section only (fixed-width fields end every record); the rules reader
    # tolerates a value that cannot be read, so a cut rules datagram is not necessarily a failed section
    u2combos = list(itertools.product("ste", "ste", [o for o in U2_OUT if o != "cut"], U2_OUT))
    for b in u2[: (4 if tier == "quick" else 40)]:
        seg = b.seg()
        c0 = b.case()
        ds = c0.script[0]
        info, rules, players = ds[:seg[0]], ds[seg[0]:seg[0] + seg[1]], ds[seg[0] + seg[1]:seg[0] + seg[1] + seg[2]]
        for tr, tp, orr, op in (u2combos if tier == "thorough" else rnd.sample(u2combos, 70)):
            c = b.case()
            newds = list(info)
            if tr != "s":
                newds += u2_section(rules, orr, True)
            if not (tr == "e" and orr != "valid") and tp != "s":
                newds += u2_section(players, op, False)
            c.script = [newds]
            c.args[1] = tr + tp
            c.args[2] = "0"
            cid = f"{b.id}{tr}{tp}{orr[0]}{op[0]}"
            cases.append(c.line(cid))
            u2meta[cid] = (b, tr, tp, orr, op)

    def u2_oracle(cid, impl):
        b, tr, tp, orr, op = u2meta[cid]
        got = vlib.result_of(impl)
        kinds = [d[8:10] for (_, _, d, _) in vlib.sends_of(impl)]
        rep.count("unreal2-matrix")
        out = []
        head, rest = b.want.split(" M[", 1)
        m, rest = rest.split(" R[", 1)
        r, rest = rest.split(" P[", 1)
        pl, bots = rest.split(" B[", 1)
        rules_ok = tr != "s" and orr == "valid"
        players_ok = tp != "s" and op == "valid"
        exp_err = None
        want01 = tr != "s"
        want02 = tp != "s"
        if tr == "e" and orr != "valid":
            exp_err, want02 = ("timeout" if orr == "silent" else "other"), False
        elif tp == "e" and op != "valid":
            exp_err = "timeout" if op == "silent" else "other"
        if ("01" in kinds) != want01 or ("02" in kinds) != want02:
            out.append(("toggle-requests:unreal2", f"toggles {tr}{tp} outcomes {orr}/{op}: request kinds on the wire {sorted(set(kinds))}"))
        if exp_err is not None:
            ok = got == "ERR PacketReceive" if exp_err == "timeout" else (got.startswith("ERR ") and got not in ("ERR PacketReceive", "ERR PacketSend"))
            if not ok:
                out.append(("toggle-enforce:unreal2", f"toggles {tr}{tp} outcomes {orr}/{op}: expected a {exp_err} failure, got {got[:120]}"))
        else:
            if not rules_ok:
                head = head[:-2] + "F}"  # the password flag comes from the rules
            exp = head + (" M[" + m + " R[" + r if rules_ok else " M[] R[]") + (" P[" + pl + " B[" + bots if players_ok else " P[] B[]")
            if got != exp:
                out.append(("toggle-response:unreal2", f"toggles {tr}{tp} outcomes {orr}/{op}: expected {exp[:240]} got {got[:240]}"))
        return out

    # the combinator itself on every error kind the library has: Skip never runs, Try hides EVERY failure, Enforce
    # returns it (the Lean theorems C11_try_fail / C11_enforce_fail quantify over the kind; this ties them to the macro)
    KINDS = ["PacketOverflow", "PacketUnderflow", "PacketBad", "PacketSend", "PacketReceive", "Decompress", "SocketConnect",
             "SocketBind", "InvalidInput", "BadGame", "AutoQuery", "ProtocolFormat", "UnknownEnumCast", "JsonParse", "TypeParse",
             "HostLookup"]
    gexp = {}
    for t in "ste":
        for o in ["ok"] + KINDS:
            cid = f"mg_{t}_{o}"
            cases.append(f"{cid} gather {t} {o}")
            gexp[cid] = "OK -" if t == "s" else ("OK +7" if o == "ok" else ("OK -" if t == "t" else "ERR " + o))
    inner = oracle

    def oracle2(case, impl, model, panic):
        cid = case.split(" ", 1)[0]
        if cid in u2meta:
            bad = netprops.crash_oracle(case, impl, model, panic)
            return bad if bad else u2_oracle(cid, impl)
        if cid in gexp:
            rep.count("combinator-kind")
            return [] if impl == gexp[cid] else [("maybe-gather:" + cid, f"maybe_gather!({cid[3]}, {cid[5:]}) gave {impl}, documented: {gexp[cid]}")]
        return inner(case, impl, model, panic)

    model, impl, panics = vlib.correspond(rep, netprops.corpus("C11") + cases, oracle=oracle2, trivial=netprops.trivial, tag="c11")
    for cid, ref in short_meta.items():
        got, want = vlib.result_of(impl.get(cid, "")), vlib.result_of(impl.get(ref, ""))
        rep.count("short-id-differs-from-game-id")
        if got != want:
            rep.oracle_failures.append(("appid-source:valve", f"the 16-bit id field was changed, the game id was not: result {got[:120]} instead of {want[:120]}",
                                        next(c for c in cases if c.startswith(cid + " ")), got[:300]))
