"""C09 — requests are the protocol's, go to the right port, and echo challenges."""
import random
import vlib, netcases
from props import netprops, httpplan, sockplan

LEVEL = "proof"
RULE = ("valid SPEC-generated exchanges with 0-3 challenge rounds per request and stratified challenge values (every byte "
        "position in {00,41,FF,0A,80,7F,54,random}, all-zero, all-FF): the datagrams the implementation sent (destination port "
        "and bytes, in order) must equal the SPEC's request list; hostile mutations of the same scripts are run for "
        "correspondence (the model predicts every send). The HTTP client (Eco): `HttpClient::new` + the URL a request is made to for "
        "addresses of both families in every textual shape, ports incl. 0 / 80 / 443 / 65535, host names of all shapes (plain, mixed "
        "case, numbers read as IPv4, IPv6 literals, empty, port-like suffixes, URL delimiters, user info, percent escapes, tabs, "
        "non-ASCII, Punycode, very long), paths with / without slashes, dot segments, escaped characters (`http-url`, no network); "
        "the real request against a loopback listener on 127.a.b.c / ::1 / ::ffff:127.a.b.c that records connections and request "
        "heads, incl. redirects to other host names (`http-plan`): model = implementation on result, connections and head bytes; "
        "independently of the model: the request arrived at the queried address, Host names the plain host name given or the "
        "address (IPv6: the bracketed text parses to the address), the request line is the plain path asked for. "
        "Non-trivial = a delivery received.")
ASSUMPTIONS = ["the destination IP is the caller's (checked by the harness: any other IP is flagged in the trace)"]
TRUSTED = ["SPEC request list (GdVerif/Spec/Valve.lean requests) written from the Valve Server Queries page"]


def run(rep, tier, seed, replay=None):
    if replay is not None:
        for o in httpplan.run(rep, [l for l in replay if httpplan.is_http(l)], "c09hp"):
            httpplan.c09_oracle(rep, o)
        sockplan.run(rep, [l for l in replay if sockplan.is_sock(l)], "c09sk", oracles=(sockplan.c09_failures,), count="sock-destination")
        replay = [l for l in replay if not httpplan.is_http(l) and not sockplan.is_sock(l)]
        if replay:
            vlib.correspond(rep, replay, oracle=netprops.crash_oracle, trivial=netprops.trivial, tag="c09")
        return
    rnd = random.Random(seed)
    n = 500 if tier == "quick" else 10000
    valids = []
    for fam in netprops.FAMILIES:
        valids += [v for v in netprops.valid_cases(fam, seed + 9, n) if not v.notwf and "SENT" in v.tags]
    by_id = {v.id: v for v in valids}

    def oracle(case, impl, model, panic):
        out = netprops.crash_oracle(case, impl, model, panic)
        if "@WRONGIP" in impl:
            out.append(("wrong-ip", "a socket operation addressed an IP other than the caller's"))
        v = by_id.get(case.split(" ", 1)[0])
        if v is None or out:
            return out
        fd = netprops.FAMILIES[v.fam]
        port = fd["fixed_port"] if "fixed_port" in fd else int(case.split(" ")[2 + fd["port"]])
        sends = vlib.sends_of(impl)
        got = [d for (_, _, d, _) in sends]
        rep.count(f"requests:{len(got)}")
        if got != v.sent():
            out.append(("request-bytes:" + v.fam, f"sent {got} expected {v.sent()}"))
        if any(p != port for (_, p, _, _) in sends):
            out.append(("request-port:" + v.fam, f"a request went to a port other than {port}: {[p for (_, p, _, _) in sends]}"))
        return out

    # socket.rs inside the model: what UdpSocketImpl / TcpSocketImpl emit arrives at the peer's address and port and nowhere else
    # (decoys: the same address on another port, another loopback address on the same port), unmodified, for 127.0.0.1 / ::1 / ::ffff:127.0.0.1
    sockplan.run(rep, sockplan.gen_c09(tier) + [l for l in netprops.corpus("C09") if sockplan.is_sock(l)], "c09sk",
                 oracles=(sockplan.c09_failures,), count="sock-destination")
    vlib.correspond(rep, [l for l in netprops.corpus("C09") if not httpplan.is_http(l) and not sockplan.is_sock(l)] + [v.line for v in valids], oracle=oracle, trivial=netprops.trivial, tag="c09")
    # ---- the same exchanges through the definition-driven generic query (games::query): with the port omitted every
    # request goes to the game's default port from the definitions table, with a port given to that port — the variants of an
    # auto-detecting game included; same request bytes as on the protocol's own entry
    from props import dispatch_cases
    dlines, dmeta = [], {}
    per_fam = {}
    for v in valids:
        if v.fam not in dispatch_cases.ARMS or per_fam.get(v.fam, 0) >= (60 if tier == "quick" else 1500):
            continue
        c = v.case()
        game, default, _ = dispatch_cases.ARMS[v.fam](c.args)
        if game is None:
            continue
        fd = netprops.FAMILIES[v.fam]
        # half of the cases with the port omitted (the script does not depend on the port), half with the case's own port
        # (the Java handshake names the port: there the port is omitted only when the case's own port is the default)
        if v.fam in ("mcjava", "mcauto"):
            omit = int(c.args[fd["port"]]) == default
        else:
            omit = per_fam.get(v.fam, 0) % 2 == 0
        if omit:
            c.args[fd["port"]] = str(default)
        line = dispatch_cases.retarget(v.fam, c, v.id + "dp", k=0 if omit else 1)
        if line is None:
            continue
        per_fam[v.fam] = per_fam.get(v.fam, 0) + 1
        dlines.append(line)
        dmeta[v.id + "dp"] = (v, default if omit else int(c.args[fd["port"]]), omit)

    def doracle(case, impl, model, panic):
        out = netprops.crash_oracle(case, impl, model, panic)
        if "@WRONGIP" in impl:
            out.append(("wrong-ip", "a socket operation addressed an IP other than the caller's"))
        m = dmeta.get(case.split(" ", 1)[0])
        if m is None or out:
            return out
        v, port, omit = m
        sends = vlib.sends_of(impl)
        rep.count("generic-path:" + ("port-omitted" if omit else "port-given"))
        if [d for (_, _, d, _) in sends] != v.sent():
            out.append(("request-bytes:generic:" + v.fam, f"sent {[d for (_, _, d, _) in sends]} expected {v.sent()}"))
        if any(p != port for (_, p, _, _) in sends):
            out.append(("request-port:generic:" + v.fam, f"port {'omitted' if omit else 'given'}: a request went to a port other than {port}: {[p for (_, p, _, _) in sends]}"))
        return out

    vlib.correspond(rep, dlines, oracle=doracle, trivial=netprops.trivial, tag="c09")
    # ---- the Java handshake names the host the CALLER gave and the port the query goes to, whatever the name looks like
    # (an IPv6 literal, a name with a port-like suffix, colons, brackets): handshake = id 0, version, the name's bytes, the
    # destination port big-endian, next state 1 — written here from the protocol page, not taken from the model
    from props.families import mcjava as _mj
    HOSTS = ["2001:db8::1", "::1", "play.example.org:25577", "a:0", "x:65535", "x:65536", "[::1]:25565", "[2001:db8::1]", "host:", ":25565", "::",
             "1:2", "fe80::1%eth0", "mc.example.org", "gamedig:1", "9", ":", "a:b:1", "0:0:0:0:0:0:0:1"]
    hs_lines, hs_meta = [], {}
    jv = [v for v in valids if v.want.startswith("OK") and (v.fam == "mcjava" or (v.fam == "mcauto" and v.want.endswith(";J}")))]
    for k, host in enumerate(HOSTS * (1 if tier == "quick" else 6)):
        if not jv:
            break
        v = jv[(k * 7) % len(jv)]
        c = v.case()
        c.args[2] = host.encode().hex()
        cid = f"{v.id}hs{k}"
        hs_lines.append(c.line(cid))
        pv, port = int(c.args[1]), int(c.args[0])
        body = b"\x00" + _mj._varint(pv) + _mj._varint(len(host.encode())) + host.encode() + port.to_bytes(2, "big") + b"\x01"
        hs_meta[cid] = (host, (_mj._varint(len(body)) + body).hex())

    def hs_oracle(case, impl, model, panic):
        out = netprops.crash_oracle(case, impl, model, panic)
        m = hs_meta.get(case.split(" ", 1)[0])
        if m is None or out:
            return out
        sends = [d for (_, _, d, _) in vlib.sends_of(impl)]
        rep.count("java-handshake-host")
        if not sends or sends[0] != m[1]:
            out.append(("request-bytes:java-handshake", f"host name {m[0]!r}: handshake sent {sends[:1]}, the protocol's is {m[1]}"))
        return out

    vlib.correspond(rep, hs_lines, oracle=hs_oracle, trivial=netprops.trivial, tag="c09")
    hostile = []
    rnd.shuffle(valids)
    for k, v in enumerate(valids[: (300 if tier == "quick" else 5000) * len(netprops.FAMILIES)]):
        c, what = netcases.mutate(v.case(), rnd)
        hostile.append(c.line(f"{v.id}m{k}"))
    vlib.correspond(rep, hostile, oracle=lambda c, i, m, p: ([("wrong-ip", "wrong IP")] if "@WRONGIP" in i else []), trivial=netprops.trivial, tag="c09")
    # ---- the HTTP game (Eco): the request goes to the CALLER's address whatever host name the request settings carry (the
    # name only fills the Host header).  Real HTTP client against a listener on 127.0.0.2 — an address no loopback name
    # resolves to; names the URL parser rewrites (upper case, short IPv4 forms) included.  Implementation only: the HTTP
    # client is a parameter of the model.
    NAMES = [("eco.example", "eco.example"), ("LocalHost", "localhost"), ("Play.Eco.Example", "play.eco.example"),
             ("127.1", "127.0.0.1"), ("localhost", "localhost"), ("0x7f.1", "127.0.0.1"), ("ECO", "eco")]
    ecov = [v for v in netprops.valid_cases("eco", seed + 9, 40) if not v.notwf and v.want.startswith("OK") and v.line.split(" ")[1] == "eco"]
    lines, meta = [], {}
    for k, (name, header) in enumerate(NAMES if tier == "thorough" else NAMES[:5]):
        if not ecov:
            break
        v = ecov[k % len(ecov)]
        c = v.case()
        cid = f"{v.id}host{k}"
        lines.append(f"{cid} eco_host {name.encode().hex()} {c.args[1]} {c.fmt_script()}")
        meta[cid] = (v, name, header)
    impl, panics = vlib.run_impl(lines, tag="c09h") if lines else ({}, {})
    for l in lines:
        cid = l.split(" ", 1)[0]
        v, name, header = meta[cid]
        out = impl.get(cid, "")
        rep.seen(l[:300], out[:300])
        rep.count("eco-host-name")
        parts = out.split(" ;; ")
        arrived = len(parts) > 1 and parts[1].startswith("H:GET_/frontpage_HTTP/1.1|")
        host_ok = arrived and parts[1].split("|", 1)[1].split(" ")[0].lower() == f"host:_{header}:p"
        if vlib.result_of(out) != v.want or not arrived or not host_ok:
            rep.oracle_failures.append(("request-destination:eco", f"host name {name!r}: the request must reach the queried address with Host {header}; got {out[:200]}", l[:2000], out[:300]))
    # ---- the HTTP client inside the model: the URL for every shape of address / host name / path (no network), and the
    # request as a loopback listener receives it (connections, request heads), model = implementation; then the oracles
    # that do not go through the model (where it arrived, what Host and the request line name)
    httpplan.run(rep, httpplan.gen("httpurl", seed + 9, 1500 if tier == "quick" else 40000) + netprops_http_corpus("C09", "http-url"), "c09hu", count="http-url")
    plan = httpplan.gen("httpplan", seed + 9, 240 if tier == "quick" else 3000) + netprops_http_corpus("C09", "http-plan")
    for o in httpplan.run(rep, plan, "c09hp", lanes=1 if tier == "quick" else 4, count="http-plan"):
        httpplan.c09_oracle(rep, o)


def netprops_http_corpus(pid, entry):
    return [l for l in netprops.corpus(pid) if httpplan.is_http(l) and l.split(" ")[1] == entry]
