"""C09 — requests are the protocol's, go to the right port, and echo challenges."""
import random
import vlib, netcases
from props import netprops

LEVEL = "proof"
RULE = ("valid SPEC-generated exchanges with 0-3 challenge rounds per request and stratified challenge values (every byte "
        "position in {00,41,FF,0A,80,7F,54,random}, all-zero, all-FF): the datagrams the implementation sent (destination port "
        "and bytes, in order) must equal the SPEC's request list; hostile mutations of the same scripts are run for "
        "correspondence (the model predicts every send). Non-trivial = a delivery received.")
ASSUMPTIONS = ["the destination IP is the caller's (checked by the harness: any other IP is flagged in the trace)"]
TRUSTED = ["SPEC request list (GdVerif/Spec/Valve.lean requests) written from the Valve Server Queries page"]


def run(rep, tier, seed, replay=None):
    if replay is not None:
        vlib.correspond(rep, replay, oracle=netprops.crash_oracle, trivial=netprops.trivial, tag="c09")
        return
    rnd = random.Random(seed)
    n = 500 if tier == "quick" else 10000
    valids = []
    for fam in netprops.FAMILIES:
        valids += [v for v in netprops.valid_cases(fam, seed + 9, n) if not v.notwf and "SENT" in v.tags]
    by_id = {v.id: v for v in valids}

    def oracle(case, impl, model, panic):
        out = netprops.crash_oracle(case, impl, model, panic)
        if "@WRONGIP" in impl:
            out.append(("wrong-ip", "a socket operation addressed an IP other than the caller's"))
        v = by_id.get(case.split(" ", 1)[0])
        if v is None or out:
            return out
        fd = netprops.FAMILIES[v.fam]
        port = fd["fixed_port"] if "fixed_port" in fd else int(case.split(" ")[2 + fd["port"]])
        sends = vlib.sends_of(impl)
        got = [d for (_, _, d, _) in sends]
        rep.count(f"requests:{len(got)}")
        if got != v.sent():
            out.append(("request-bytes:" + v.fam, f"sent {got} expected {v.sent()}"))
        if any(p != port for (_, p, _, _) in sends):
            out.append(("request-port:" + v.fam, f"a request went to a port other than {port}: {[p for (_, p, _, _) in sends]}"))
        return out

    vlib.correspond(rep, netprops.corpus("C09") + [v.line for v in valids], oracle=oracle, trivial=netprops.trivial, tag="c09")
    hostile = []
    rnd.shuffle(valids)
    for k, v in enumerate(valids[: (300 if tier == "quick" else 5000) * len(netprops.FAMILIES)]):
        c, what = netcases.mutate(v.case(), rnd)
        hostile.append(c.line(f"{v.id}m{k}"))
    vlib.correspond(rep, hostile, oracle=lambda c, i, m, p: ([("wrong-ip", "wrong IP")] if "@WRONGIP" in i else []), trivial=netprops.trivial, tag="c09")
