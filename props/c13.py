"""C13 — no reply can make a query reserve unbounded memory."""
import importlib, random
import vlib, netcases
from props import netprops

LEVEL = "proof"
RULE = ("for every modelled entry family: SPEC-generated valid scripts and 5-8 mutations of each biased towards extreme values in length / "
        "count / size / index positions (0xFF, 0xFE, 0x7F, 0x80 bytes and FFFFFFFF / 7FFFFFFF words near the head of each datagram, "
        "oversized datagrams; Valve: compressed split replies whose tiny bzip2 stream expands to 80 MiB, with true and extreme announced sizes, "
        "fragments in and out of order); a counting global allocator in the harness measures, per query, the peak live bytes and the largest single "
        "request; the allowance (64 MiB live, 16 MiB in one request) is checked on the measured numbers, a refused allocation (> 1 GiB) or abort "
        "is a violation; the number of requests sent must stay within units x (retries+1) + datagrams received. Non-trivial = a delivery received.")
ASSUMPTIONS = ["the allocator's own bookkeeping and collection growth policies are measured, not modelled",
               "allocation sites are identified syntactically by the translator (expression + provenance of its variables + constants)"]
TRUSTED = ["translator tools/xlate.py (allocation sites -> Gen/AllocSites.lean)", "counting allocator in the harness"]

MIB = 1 << 20


def extreme_mutation(case, rnd):
    c = case.clone()
    conns = [i for i, x in enumerate(c.script) if x != "X" and x]
    if not conns:
        return c, "none"
    ci = rnd.choice(conns)
    idx = [i for i, d in enumerate(c.script[ci]) if d]
    if not idx:
        return c, "none"
    i = rnd.choice(idx)
    d = bytearray(c.script[ci][i])
    kind = rnd.choice(["byte", "byte", "word", "word", "tail", "all-ff", "bignum", "bignum"])
    if kind == "bignum":
        # text protocols carry their counts and indices as decimal text: put an extreme number where a number stands
        import re
        runs = list(re.finditer(rb"[0-9]+", bytes(d)))
        if runs:
            m = rnd.choice(runs)
            big = rnd.choice([b"40000000", b"4294967295", b"4294967296", b"18446744073709551615", b"99999999999", b"2147483647", b"65535", b"16777216"])
            if rnd.random() < 0.5:
                # the same number plus a multiple of 256 / 65536: equal to the original in its low byte(s), as a count that
                # "wrapped around" a narrower field elsewhere in the reply would be
                big = str(int(m.group(0)) + rnd.choice([1 << 20, 1 << 24, 1 << 32, 256 * 10 ** 6])).encode()
            c.script[ci][i] = bytes(d[:m.start()]) + big + bytes(d[m.end():])
            return c, "extreme-bignum"
        kind = "byte"
    pos = min(len(d) - 1, int(rnd.expovariate(1 / 10.0)))
    if kind == "byte":
        d[pos] = rnd.choice([0xFF, 0xFE, 0x7F, 0x80, 0xFD])
    elif kind == "word" and len(d) >= 4:
        pos = min(pos, len(d) - 4)
        d[pos:pos + 4] = rnd.choice([b"\xff\xff\xff\xff", b"\xff\xff\xff\x7f", b"\x00\x00\x00\x80", b"\xff\xff\xff\x0f", b"\xff\xff\x00\x00"])
    elif kind == "tail":
        d = d[:pos] + bytes([rnd.choice([0xFF, 0x7F])]) * rnd.choice([1, 2, 4, 8])
    else:
        d[pos:] = b"\xff" * (len(d) - pos)
    c.script[ci][i] = bytes(d)
    return c, "extreme-" + kind


def run(rep, tier, seed, replay=None):
    if replay is not None:
        vlib.correspond(rep, replay, oracle=netprops.crash_oracle, trivial=netprops.trivial, tag="c13")
        return
    rnd = random.Random(seed)
    cases, fam_of = list(netprops.corpus("C13")), {}
    extra_budget = {}
    for fam, d in netprops.FAMILIES.items():
        n = 150 if tier == "quick" else 4000
        for v in netprops.valid_cases(fam, seed + 13, n):
            cases.append(v.line)
            fam_of[v.id] = fam
            c0 = v.case()
            for k in range(5 if tier == "quick" else 8):
                c = c0
                for _ in range(rnd.choice([1, 1, 2])):
                    c, what = extreme_mutation(c, rnd)
                rep.count("mutation:" + what)
                cid = f"{v.id}x{k}"
                cases.append(c.line(cid))
                fam_of[cid] = fam
            fmod = importlib.import_module("props.families." + fam)
            if hasattr(fmod, "c13_extra") and extra_budget.get(fam, 0) < (3 if tier == "quick" else 40):
                made = fmod.c13_extra(v, rnd)
                if made:
                    extra_budget[fam] = extra_budget.get(fam, 0) + 1
                for j, (c, what) in enumerate(made):
                    cid = f"{v.id}e{j}"
                    cases.append(c.line(cid))
                    fam_of[cid] = fam
                    rep.count("mutation:" + what)
            if rnd.random() < 0.2:
                c = c0.clone()
                conns = [i for i, x in enumerate(c.script) if x != "X" and x]
                if conns:
                    ci = rnd.choice(conns)
                    di = rnd.randrange(len(c.script[ci]))
                    if c.script[ci][di] is not None:
                        c.script[ci][di] = c.script[ci][di] + b"\xff" * rnd.choice([1400, 6144, 65000])
                        cid = f"{v.id}big"
                        cases.append(c.line(cid))
                        fam_of[cid] = fam

    worst = {"peak": 0, "largest": 0}

    def oracle(case, impl, model, panic):
        out = netprops.crash_oracle(case, impl, model, panic)
        a = vlib.alloc_of(impl)
        fam = fam_of.get(case.split(" ", 1)[0])
        if a is not None:
            peak, largest = a
            worst["peak"] = max(worst["peak"], peak)
            worst["largest"] = max(worst["largest"], largest)
            if largest > 16 * MIB:
                out.append((f"alloc-single:{fam}", f"a single request of {largest} bytes (> 16 MiB)"))
            if peak > 64 * MIB:
                out.append((f"alloc-live:{fam}", f"{peak} bytes live at once (> 64 MiB)"))
        if fam is not None and not out:
            d = netprops.FAMILIES[fam]
            if "send_units" in d:
                try:
                    r = int(case.split(" ")[2 + d["retries"]]) if "retries" in d else 0  # no retries argument: never retried
                except ValueError:
                    r = 0
                tr = vlib.trace_of(impl)
                sends = sum(1 for e in tr if e.startswith("S"))
                recv_ok = sum(1 for e in tr if e.startswith("R") and not e.endswith(":T"))
                bound = d["send_units"] * (r + 1) + recv_ok
                if sends > bound:
                    out.append((f"too-many-requests:{fam}", f"{sends} requests sent, bound {d['send_units']}*(r+1)+received = {bound}"))
        return out

    vlib.correspond(rep, cases, oracle=oracle, trivial=netprops.trivial, tag="c13")
    # ---- the HTTP game (Eco) against hostile HTTP servers (implementation only; the client is a parameter of the model):
    # announced lengths far beyond the body, on the first answer or on the answer to whatever request FOLLOWS an error
    # status / a document of another shape / a redirect; huge chunk sizes; endless header lines; long bodies.  Whatever the
    # client goes on to ask for, no header may size its memory.
    def http(status, headers, body=b""):
        return (f"HTTP/1.1 {status}\r\n" + "".join(f"{k}: {v}\r\n" for k, v in headers) + "\r\n").encode() + body
    big = ["268435456", "1073741823", "1073741824", "4294967296", "18446744073709551615", "99999999999999999999999"]
    doc = b'{"Info":{}}'
    other = b'{"Version":"0.8","Players":3}'
    firsts = [http("404 Not Found", [("Content-Length", "9"), ("Connection", "close")], b"not found"),
              http("500 Internal Server Error", [("Connection", "close")], b""),
              http("200 OK", [("Content-Type", "application/json"), ("Content-Length", str(len(other))), ("Connection", "close")], other),
              http("200 OK", [("Content-Type", "text/html"), ("Connection", "close")], b"<html></html>"),
              http("301 Moved Permanently", [("Location", "/info"), ("Content-Length", "0"), ("Connection", "close")]),
              http("302 Found", [("Location", "/frontpage2"), ("Content-Length", "0"), ("Connection", "close")]),
              http("204 No Content", [("Connection", "close")])]
    hostile = []
    for n in big:
        lie = http("200 OK", [("Content-Type", "application/json"), ("Content-Length", n), ("Connection", "close")], doc)
        hostile.append(("announced-length", [lie]))
        for f in firsts:
            hostile.append(("announced-length-after-" + f.split(b"\r\n")[0].split(b" ")[1].decode(), [f, lie]))
    hostile.append(("chunk-size", [http("200 OK", [("Transfer-Encoding", "chunked"), ("Connection", "close")], b"7fffffff\r\n" + doc)]))
    hostile.append(("chunk-size", [http("200 OK", [("Transfer-Encoding", "chunked"), ("Connection", "close")], b"ffffffffffffffff\r\n" + doc)]))
    hostile.append(("header-flood", [b"HTTP/1.1 200 OK\r\n" + b"".join(b"X-%d: %s\r\n" % (i, b"y" * 1000) for i in range(3000))]))
    hostile.append(("long-status-line", [b"HTTP/1.1 200 " + b"O" * 3_000_000 + b"\r\n\r\n"]))
    hostile.append(("long-body", [http("200 OK", [("Connection", "close")], b'{"Info":{"Description":"' + b"x" * 3_000_000 + b'"}}')]))
    hlines = [f"hx{k} eco_hostile " + ",".join(r.hex() for r in replies) for k, (what, replies) in enumerate(hostile)]
    himpl, hpanics = vlib.run_impl(hlines, tag="c13h")
    for k, (what, replies) in enumerate(hostile):
        out = himpl.get(f"hx{k}", "")
        rep.seen(hlines[k][:200], out[:200])
        rep.count("hostile-http:" + what)
        bad = netprops.crash_oracle(hlines[k], out, out, hpanics.get(f"hx{k}", ""))
        a = vlib.alloc_of(out)
        if a is not None:
            worst["peak"] = max(worst["peak"], a[0])
            worst["largest"] = max(worst["largest"], a[1])
            if a[1] > 16 * MIB:
                bad.append(("alloc-single:eco-http", f"{what}: a single request of {a[1]} bytes (> 16 MiB); requests seen {out.split(' ;; ')[1][:120]}"))
            if a[0] > 64 * MIB:
                bad.append(("alloc-live:eco-http", f"{what}: {a[0]} bytes live at once (> 64 MiB)"))
        nreq = len([x for x in out.split(" ;; ")[1][2:].split(",") if x]) if " ;; H:" in out else 0
        if nreq > 8:
            bad.append(("too-many-requests:eco-http", f"{what}: {nreq} HTTP requests for one query"))
        rep.oracle_failures += [(sg, d, hlines[k][:4000], out[:300]) for sg, d in bad]
    rep.extra_cov["worst_peak_live_bytes"] = worst["peak"]
    rep.extra_cov["worst_single_request_bytes"] = worst["largest"]
