"""C02 — Valve A2S replies are decoded field for field."""
from props import decode_generic

LEVEL = "proof"
RULE = decode_generic.rule_text("C02")
ASSUMPTIONS = ["bzip2-rs and crc32fast are parameters of the model (oracle table from Python's bz2 at check time)"]
TRUSTED = ["hand-written Lean model of protocols/valve, checked against the code on every run",
           "SPEC encoders (GdVerif/Spec/Valve.lean) written from the Valve Server Queries page"]


def run(rep, tier, seed, replay=None):
    decode_generic.run("C02", rep, tier, seed, replay)
