"""C02 — Valve A2S replies are decoded field for field."""
import random
import vlib, netcases
from props import netprops

LEVEL = "proof"
RULE = ("valid stream: random abstract server states (all 32 EDF flag subsets, both info layouts, The Ship, ROR2, "
        "0-3 challenge rounds, single / Source split / GoldSrc split at random cut points) encoded by the Lean SPEC; "
        "the implementation's response must equal the SPEC's expected response (oracle) and the model's (correspondence). "
        "hostile stream: one structured mutation of a valid script, correspondence only. Non-trivial = at least one "
        "delivery received; distinct = distinct implementation outputs.")
ASSUMPTIONS = ["bzip2-rs and crc32fast are parameters of the model (oracle table from Python's bz2 at check time)"]
TRUSTED = ["hand-written Lean model of protocols/valve, checked against the code on every run", "SPEC encoders (GdVerif/Spec/Valve.lean) written from the Valve Server Queries page"]


def want_oracle(valids):
    by_id = {v.id: v for v in valids}

    def oracle(case, impl, model, panic):
        out = netprops.crash_oracle(case, impl, model, panic)
        v = by_id.get(case.split(" ", 1)[0])
        if v is not None and not v.notwf:
            got = vlib.result_of(impl)
            if got != v.want:
                out.append(("decode-mismatch:" + v.fam, f"response differs from the SPEC's expected response; want {v.want[:300]} got {got[:300]}"))
        return out
    return oracle


def run(rep, tier, seed, replay=None):
    if replay is not None:
        vlib.correspond(rep, replay, oracle=netprops.crash_oracle, trivial=netprops.trivial, tag="c02")
        return
    n = 600 if tier == "quick" else 12000
    valids = netprops.valid_cases("valve", seed, n)
    cases = netprops.corpus("C02") + [v.line for v in valids]
    vlib.correspond(rep, cases, oracle=want_oracle(valids), trivial=netprops.trivial, tag="c02")
    rnd = random.Random(seed)
    hostile = []
    for k, v in enumerate(valids[: (300 if tier == "quick" else 6000)]):
        c, what = netcases.mutate(v.case(), rnd)
        hostile.append(c.line(f"{v.id}m{k}"))
        rep.count("mutation:" + what)
    vlib.correspond(rep, hostile, oracle=None, trivial=netprops.trivial, tag="c02")
