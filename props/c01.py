"""C01 — hostile server responses never crash or hang a query."""
import random
import vlib, netcases
from props import netprops, dispatch_cases

LEVEL = "proof"
RULE = ("for every modelled entry family: SPEC-generated valid scripts, 3-8 structured mutations of each (truncate at any "
        "offset, set bytes/words to boundary values with a bias to headers and counts, drop/duplicate/swap/insert datagrams, "
        "silences, refused sockets, garbage over the boundary alphabet), oversized datagrams up to 64 KiB, and pure garbage "
        "scripts; the real entry point must return Ok or Err (no panic, abort, overflow, or transport-operation budget "
        "exhaustion = hang) and must agree with the model's outcome and trace. Non-trivial = a delivery received.")
ASSUMPTIONS = ["third-party decoders (bzip2-rs, serde_json, encoding_rs, std from_utf8/from_utf16) are exercised but not modelled"]
TRUSTED = ["hand-written Lean models, checked against the code on every run"]


def big(rnd, base):
    """oversized variants: pad / replace with up to 64 KiB"""
    n = rnd.choice([1400, 6143, 6144, 6145, 20000, 65507])
    fill = rnd.choice([b"\x00", b"\xff", b"A", b"\x80", b"\xfe\xff\xff\xff"])
    pad = (fill * (n // len(fill) + 1))[:n]
    return (base + pad) if rnd.random() < 0.6 else pad


def dispatch_lines(rep, cases, rnd, tier, seed):
    """the same hostile streams through the generic definition-driven dispatch (theorem C01_dispatch): every third case of
    every family that is an arm of games/query.rs, re-targeted at one game of that arm; the Valve arm from scripts generated
    for three games' engines and settings"""
    out = []
    for i, line in enumerate(cases):
        toks = line.split(" ")
        fam = toks[1] if len(toks) > 1 else ""
        if i % 3 or fam not in dispatch_cases.ARMS or fam not in netprops.FAMILIES:
            continue
        try:
            c = netcases.Case(line, netprops.FAMILIES[fam]["nargs"])
            d = dispatch_cases.retarget(fam, c, f"{c.id}d", i // 3)
        except (ValueError, IndexError, KeyError):
            d = None
        if d:
            out.append(d)
            rep.count("dispatch-arm:" + fam)
    for k, (game, default, c0) in enumerate(dispatch_cases.valve_lines(seed + 1, 40 if tier == "quick" else 600)):
        out.append(dispatch_cases.retarget_valve(game, default, c0, f"{game}_{k}d", k))
        for j in range(3):
            c, _ = netcases.mutate(c0, rnd)
            out.append(dispatch_cases.retarget_valve(game, default, c, f"{game}_{k}d{j}", k + j))
        rep.count("dispatch-arm:valve")
    return out


def run(rep, tier, seed, replay=None):
    if replay is not None:
        vlib.correspond(rep, replay, oracle=netprops.crash_oracle, trivial=netprops.trivial, tag="c01")
        return
    rnd = random.Random(seed)
    cases = list(netprops.corpus("C01"))
    for fam in netprops.FAMILIES:
        n = 250 if tier == "quick" else 5000
        valids = netprops.valid_cases(fam, seed + 1, n)
        for v in valids:
            cases.append(v.line)
            c0 = v.case()
            for k in range(rnd.choice([3, 4, 8]) if tier == "thorough" else 3):
                c = c0
                what = []
                for _ in range(rnd.choice([1, 1, 1, 2, 3])):
                    c, w = netcases.mutate(c, rnd)
                    what.append(w)
                rep.count("mutation:" + what[0])
                cases.append(c.line(f"{v.id}h{k}"))
            if rnd.random() < 0.15:
                c = c0.clone()
                conns = [i for i, x in enumerate(c.script) if x != "X" and x]
                if conns:
                    ci = rnd.choice(conns)
                    di = rnd.randrange(len(c.script[ci]))
                    if c.script[ci][di] is not None:
                        c.script[ci][di] = big(rnd, c.script[ci][di])
                        rep.count("mutation:oversize")
                        cases.append(c.line(f"{v.id}big"))
        # the family's own structured hostile replies (bookkeeping fields set to arbitrary values)
        import importlib
        fmod = importlib.import_module("props.families." + fam)
        if hasattr(fmod, "hostile_variants"):
            hv = fmod.hostile_variants(valids, rnd, tier)
            rep.count("mutation:structured:" + fam, len(hv)) if hv else None
            cases += hv
        # pure garbage scripts
        proto = valids[0].case()
        for k in range(60 if tier == "quick" else 2000):
            c = proto.clone()
            c.script = [[rnd.choice([None, bytes(rnd.choice([0x00, 0x01, 0x1b, 0x5c, 0x7f, 0x80, 0xfe, 0xff, 0x41, 0x49, 0x44, 0x45, 0x6d])
                                                 for _ in range(rnd.randrange(0, 65)))]) for _ in range(rnd.randrange(0, 6))]]
            rep.count("mutation:garbage-script")
            cases.append(c.line(f"{fam}g{k}"))
    cases += dispatch_lines(rep, cases, rnd, tier, seed)
    vlib.correspond(rep, cases, oracle=netprops.crash_oracle, trivial=netprops.trivial, tag="c01")
    rep.extra_cov["entry_families_under_theorem"] = sorted(netprops.FAMILIES) + ["dispatch"]
