"""C01 hook shared by the Minecraft families whose exchanges carry a Bedrock pong: the `;`-separated fields of the
advertisement replaced one or two at a time by numbers at and around every integer width's limits, signs, blanks,
non-numbers — through the variant's own entry and through the auto-detecting query (which converts the Bedrock
response into the common Java-shaped one)."""
import struct

VALUES = [b"2147483647", b"2147483648", b"4294967295", b"4294967296", b"-1", b"-2147483648", b"-2147483649", b"0", b"00", b"+7",
          b"65535", b"65536", b"255", b"256", b"18446744073709551615", b"18446744073709551616", b"9223372036854775808",
          b"99999999999999999999999999", b"", b" ", b" 7", b"7 ", b"1e3", b"0x10", b"1.5", b"NaN", b"\xff", b"\xe2\x82\xac"]


def hostile_variants(valids, rnd, tier):
    out = []
    n = 0
    systematic = 0
    for v in valids:
        c = v.case()
        for ci, ds in enumerate(c.script):
            if ds == "X":
                continue
            for di, d in enumerate(ds):
                if d is None or len(d) < 35 or d[0] != 0x1c:
                    continue
                ln = struct.unpack(">H", d[33:35])[0]
                text = d[35:35 + ln]
                if len(text) != ln or b";" not in text:
                    continue
                fields = text.split(b";")
                # systematically on the first exchanges: every field x the values next to the 31/32-bit limits; then at random
                plan = []
                if systematic < (6 if tier == "quick" else 60):
                    systematic += 1
                    plan = [(fi, val) for fi in range(len(fields)) for val in (b"2147483648", b"4294967295", b"4294967296", b"-1", b"")]
                plan += [None] * (2 if tier == "quick" else 12)
                for item in plan:
                    f2 = list(fields)
                    if item is not None:
                        f2[item[0]] = item[1]
                    for _ in range(0 if item is not None else rnd.choice([1, 1, 2])):
                        f2[rnd.randrange(len(f2))] = rnd.choice(VALUES)
                    if rnd.random() < 0.15:
                        f2 = f2[: rnd.randrange(1, len(f2) + 1)]
                    t2 = b";".join(f2)
                    c2 = v.case()
                    c2.script[ci][di] = d[:33] + struct.pack(">H", len(t2) & 0xFFFF) + t2 + d[35 + ln:]
                    out.append(c2.line(f"{v.id}bf{n}"))
                    n += 1
        if n > (900 if tier == "quick" else 30000):
            break
    return out
