"""The HTTP client inside the model (`http-plan` / `http-url` case lines, generators `httpurl`, `httpplan`, `httperr`, `httpdur`).

The real client (crates/lib/src/http.rs, the Eco query) makes its request to a loopback listener that records every connection
and request head and misbehaves on request (harness/src/http.rs); the model driver (lean/GdVerif/Run/Http.lean) gets the same
line — with the port the listener was given — and must print the same result, the same number of connections and the same
request heads.  On top of that comparison, oracles that do not go through the model: where the request arrived and what it
names (C09), the class of the error and the wall clock (C12), the result with extreme durations (C18)."""
import ipaddress, os, re
import vlib
from props import netprops

ENTRIES = ("http-plan", "http-url")
SLACK_MS = 250


def is_http(line):
    t = line.split(" ")
    return len(t) > 1 and t[1] in ENTRIES


def user_agent():
    """`concat!(env!("CARGO_PKG_NAME"), "/", env!("CARGO_PKG_VERSION"))` of the library crate"""
    text = open(os.path.join(vlib.REPO, "crates", "lib", "Cargo.toml")).read()
    pkg = text.split("[package]", 1)[1].split("\n[", 1)[0]
    name = re.search(r'^name\s*=\s*"([^"]+)"', pkg, re.M).group(1)
    version = re.search(r'^version\s*=\s*"([^"]+)"', pkg, re.M).group(1)
    return f"{name}/{version}"


def split_tags(raw):
    parts = raw.split(" ## ")
    tags = {}
    for p in parts[1:]:
        k, _, v = p.partition(" ")
        tags[k] = v
    return parts[0], tags


def gen(suite, seed, n):
    return vlib.model_gen(suite, seed, n)


class Outcome:
    """one case: the line, what the implementation and the model printed, parsed"""

    def __init__(self, line, tags, impl, model, panic):
        self.line, self.tags, self.impl, self.model, self.panic = line, tags, impl, model, panic
        self.id = line.split(" ", 1)[0]
        self.args = line.split(" ")[2:]
        self.entry = line.split(" ")[1]
        ip = impl.split(" ;; ")
        self.port = None
        self.result = ip[0]
        m = re.match(r"p=(\d+) (.*)$", ip[0])
        if m:
            self.port, self.result = int(m.group(1)), m.group(2)
        self.heads = []
        self.nconn = None
        if len(ip) > 1 and ip[1].startswith("N"):
            n, _, hs = ip[1][1:].partition(" ")
            self.nconn = int(n)
            self.heads = [bytes.fromhex(h) for h in hs.split("|") if h]
        self.elapsed = int(ip[2][1:]) if len(ip) > 2 and ip[2].startswith("T") else None
        mp = model.split(" ;; ")
        self.model_result = re.sub(r"^p=\d+ ", "", mp[0])
        self.steps = mp[2][1:] if len(mp) > 2 and mp[2].startswith("B") else "-"
        if self.steps == "-":
            self.steps = ""

    # ---- the case line's fields (http-plan)
    def ip_text(self):
        return self.args[0]

    def host(self):
        h = self.args[2]
        return None if h == "-" else bytes.fromhex(h[1:]).decode("utf-8", "replace")

    def path(self):
        return bytes.fromhex(self.args[3][1:]).decode("utf-8", "replace")

    def timeouts_ms(self):
        """(read, write, connect) in ms, None = no timeout of that kind (connect: ureq's 30 s)"""
        t = self.args[4]
        if t == "-":
            return (4000, 4000, 4000)
        out = []
        for d in t.split(","):
            if d == "-":
                out.append(None)
            else:
                s, _, ns = d.partition(":")
                out.append(int(s) * 1000 + int(ns) // 1000000)
        return (out[0], out[1], out[2] if out[2] is not None else 30000)

    def call(self):
        return self.args[5]

    def behaviour(self):
        return self.args[6].split("+")

    def options(self):
        return self.args[7:]

    def request_line(self, k=0):
        return self.heads[k].split(b"\r\n", 1)[0].decode("latin-1") if len(self.heads) > k else None

    def header(self, name, k=0):
        if len(self.heads) <= k:
            return None
        for l in self.heads[k].split(b"\r\n")[1:]:
            n, _, v = l.partition(b": ")
            if n.lower() == name.lower().encode():
                return v.decode("latin-1")
        return None


def run(rep, raws, tag, lanes=1, count=None):
    """Run the cases on the implementation, then on the model (same line, the listener's port filled in, the crate's user
    agent appended); record divergences and crashes; return the outcomes."""
    if not raws:
        return []
    parsed = [split_tags(r) for r in raws]
    lines = [p[0] for p in parsed]
    if lanes > 1 and len(lines) > lanes:
        from concurrent.futures import ThreadPoolExecutor
        impl, panics = {}, {}
        chunks = [lines[k::lanes] for k in range(lanes)]
        with ThreadPoolExecutor(lanes) as ex:
            for io, pa in ex.map(lambda kl: vlib.run_impl(kl[1], tag=f"{tag}{kl[0]}"), [(k, c) for k, c in enumerate(chunks) if c]):
                impl.update(io)
                panics.update(pa)
    else:
        impl, panics = vlib.run_impl(lines, tag=tag)
    ua = "ua=x" + user_agent().encode().hex()
    mlines = []
    for l in lines:
        t = l.split(" ")
        if t[1] == "http-plan":
            m = re.match(r"p=(\d+) ", impl.get(t[0], ""))
            if m and t[3] == "0":
                t[3] = m.group(1)
            t.append(ua)
        mlines.append(" ".join(t))
    model = vlib.run_model(mlines)
    # a case whose outcome differs from the model's is run AGAIN on its own, up to twice (a loopback listener that is late
    # because this machine is busy lets a short read timeout expire; a client that does something else does so every time)
    again_budget = 10
    for l in lines:
        cid = l.split(" ", 1)[0]
        if again_budget > 0 and impl.get(cid, "").split(" ;; ")[:2] != model.get(cid, "").split(" ;; ")[:2] and not impl.get(cid, "").startswith(("CRASH", "ABORT", "HANG", "bind-failed")):
            again_budget -= 1
            for attempt in range(2):
                io, pa = vlib.run_impl([l], tag=tag + "again")
                rep.count("measured-again")
                if io.get(cid, "").split(" ;; ")[:2] == model.get(cid, "").split(" ;; ")[:2]:
                    impl[cid] = io[cid]
                    panics.pop(cid, None)
                    rep.count("measured-again:clean")
                    break
    outs = []
    for (line, tags) in parsed:
        cid = line.split(" ", 1)[0]
        i, m = impl.get(cid, "<no output>"), model.get(cid, "<no output>")
        o = Outcome(line, tags, i, m, panics.get(cid, ""))
        outs.append(o)
        rep.seen(line[:300], i[:300])
        rep.count(count or ("kind:" + o.entry))
        first = i.split(" ", 1)[0]
        if first in ("CRASH", "ABORT", "HANG") or o.result.split(" ")[0] in ("CRASH", "ABORT", "HANG"):
            loc = o.panic.rsplit(" @ ", 1)[-1] if " @ " in o.panic else o.panic[:60]
            rep.oracle_failures.append((f"crash:{o.entry}:{loc}", f"{first} in {o.entry}: {o.panic}", line[:2000], i[:300]))
            continue
        if i.startswith("bind-failed"):
            # the fixed port of the case was taken by someone else on this machine: nothing was run
            rep.count("port-busy")
            continue
        # the comparison: result, connections, request heads (the model line was run with the listener's port)
        if i.split(" ;; ")[:2] != m.split(" ;; ")[:2]:
            rep.divergences.append((line[:4000], m[:1500], i[:1500], o.panic))
    return outs


# ------------------------------------------------------------------------------------------------ oracles

PLAIN_HOST = re.compile(r"^[a-z0-9_-]+(\.[a-z0-9_-]+)*$")
PLAIN_PATH = re.compile(r"^/?[A-Za-z0-9_~!$&'()*+,;=:@-]+(/[A-Za-z0-9_~!$&'()*+,;=:@.-]*)*$")


def plain_host(h):
    """host names the property speaks about: lower-case LDH labels (and `_`), no Punycode, not read as a number"""
    if h is None or not PLAIN_HOST.match(h) or any(l.startswith("xn--") for l in h.split(".")):
        return False
    last = h.split(".")[-1]
    return not (last.isdigit() or re.match(r"^0[xX][0-9a-fA-F]*$", last))


def plain_path(p):
    if not PLAIN_PATH.match(p):
        return False
    return not any(s in (".", "..") or "%2e" in s.lower() for s in p.split("/"))


def c09_oracle(rep, o):
    """where the request went and what it names, judged from the listener's record alone"""
    if o.entry != "http-plan" or o.nconn is None:
        return
    beh = o.behaviour()
    opts = o.options()
    rejected = o.result == "ERR InvalidInput" or (o.nconn == 0 and any(x.startswith(("h=", "rh=")) for x in opts) and o.result == "ERR PacketSend")
    if beh[0] in ("refuse", "full") or rejected:
        return
    if o.nconn == 0:
        rep.oracle_failures.append(("request-destination:http", f"no connection reached the queried address {o.ip_text()}:{o.port}: {o.impl[:160]}", o.line[:2000], o.impl[:300]))
        return
    rep.count("http-request-arrived")
    custom_host = any(x.startswith(("h=", "rh=")) and bytes.fromhex(x.split("=", 1)[1].split(":")[0][1:]).lower() == b"host" for x in opts)
    host = o.host()
    want_host = None
    portsfx = "" if o.port == 80 else f":{o.port}"
    if custom_host:
        pass
    elif host is None:
        got = o.header("Host") or ""
        ip = ipaddress.ip_address(":".join(o.ip_text().split(":")) if ":" in o.ip_text() else o.ip_text())
        if ip.version == 4:
            want_host = f"{ip}{portsfx}"
        else:
            # whatever the spelling, the bracketed text must BE the address
            m = re.match(r"^\[([0-9a-fA-F:.]+)\](:\d+)?$", got)
            ok = bool(m) and ipaddress.ip_address(m.group(1)) == ip and (m.group(2) or "") == portsfx
            rep.count("http-host:ipv6")
            if not ok:
                rep.oracle_failures.append(("host-header:http", f"Host {got!r} does not name [{ip}]{portsfx}", o.line[:2000], o.impl[:300]))
    elif plain_host(host):
        want_host = f"{host}{portsfx}"
        rep.count("http-host:plain-name")
    if want_host is not None:
        if host is None:
            rep.count("http-host:ipv4")
        if o.header("Host") != want_host:
            rep.oracle_failures.append(("host-header:http", f"Host {o.header('Host')!r}, expected {want_host!r}", o.line[:2000], o.impl[:300]))
    # the request target
    path = "/frontpage" if o.call() == "eco" else o.path()
    if (host is None or plain_host(host)) and plain_path(path):
        want_line = f"GET {path if path.startswith('/') else '/' + path} HTTP/1.1"
        rep.count("http-target:plain-path")
        if o.request_line() != want_line:
            rep.oracle_failures.append(("request-target:http", f"request line {o.request_line()!r}, expected {want_line!r}", o.line[:2000], o.impl[:300]))
    # a redirect the client follows must come back to the same listener
    nred = 0
    for b in beh:
        if b.startswith("redirect:") and b.split(":")[1] in ("301", "302", "303", "307", "308"):
            nred += 1
        else:
            break
    if nred and len(beh) > nred and o.nconn != nred + (0 if beh[nred] in ("refuse", "full") else 1):
        rep.oracle_failures.append(("request-destination:http-redirect", f"{nred} redirect(s) followed, {o.nconn} connection(s) reached the queried address", o.line[:2000], o.impl[:300]))
    if "WANT" in o.tags and beh[-1].startswith("ok:"):
        want = o.tags["WANT"]
        if not want.endswith(" NOTWF") and o.result != want:
            rep.oracle_failures.append(("http-document", f"result differs from the document served: {o.result[:120]}", o.line[:2000], o.impl[:300]))


C12_CLASSES = {
    "refuse": ("ERR SocketConnect",), "full": ("ERR SocketConnect",),
    "mute": ("ERR PacketSend", "ERR PacketReceive"), "drop": ("ERR PacketSend", "ERR PacketReceive"),
    "line-stall": ("ERR PacketSend", "ERR PacketReceive"), "line-close": ("ERR PacketSend", "ERR PacketReceive"),
    "garbage": ("ERR PacketSend", "ERR PacketReceive", "ERR ProtocolFormat"),
    "status": ("ERR PacketSend", "ERR PacketReceive"),
    "body-stall": ("ERR PacketReceive",), "body-close": ("ERR PacketReceive",),
}
# which wait each behaviour costs: r = one read timeout, c = one connect timeout, "" = none
C12_WAITS = {"refuse": "", "full": "c", "mute": "r", "drop": "", "line-stall": "r", "line-close": "", "garbage": "", "status": "",
             "body-stall": "r", "body-close": "", "ok": "", "nolen": "", "badlen": ""}


def c12_oracle(rep, o):
    """the class of the error and the wall clock, judged from the behaviour the listener was told to show"""
    if o.entry != "http-plan" or o.elapsed is None:
        return
    beh = o.behaviour()
    last = beh[-1]
    name = last.split(":")[0]
    if name == "redirect":
        return
    if name == "status" and int(last.split(":")[1]) < 400:
        name = "ok"
    rep.count("http-class:" + name)
    want = C12_CLASSES.get(name)
    if want is not None and not any(o.result.startswith(w) for w in want):
        rep.oracle_failures.append((f"http-error-class:{name}", f"{name}: got {o.result[:60]}, expected one of {want}", o.line[:2000], o.impl[:300]))
    r, w, c = o.timeouts_ms()
    waits = C12_WAITS.get(name, "")
    dur = {"r": r, "c": c, "w": w}
    bound = sum(dur[s] for s in waits if dur[s] is not None) + SLACK_MS
    if any(dur[s] is None for s in waits):
        return
    rep.count("http-waits:" + (waits or "none"))
    if o.elapsed > bound:
        rep.oracle_failures.append((f"timeout-not-bounding:http:{name}", f"took {o.elapsed} ms; the wait is bounded by {waits or 'no'} timeout(s): {bound} ms (read {r}, write {w}, connect {c})", o.line[:2000], o.impl[:300]))
    if waits and o.elapsed < 0.6 * sum(dur[s] for s in waits):
        rep.oracle_failures.append((f"timeout-too-early:http:{name}", f"gave up after {o.elapsed} ms although the {waits} timeout is {sum(dur[s] for s in waits)} ms", o.line[:2000], o.impl[:300]))
    # the model's count of timed-out steps is what the theorems speak about: it must be the behaviour's
    if o.steps != waits and o.model_result == o.result:
        rep.divergences.append((o.line[:4000], f"timed-out steps B{o.steps or '-'}", f"behaviour {name} costs {waits or 'no'} wait", "model's blocked steps vs the listener's behaviour"))


def c18_oracle(rep, o):
    if o.entry != "http-plan":
        return
    if "WANT" in o.tags and o.behaviour()[-1].startswith("ok:"):
        want = o.tags["WANT"]
        if not want.endswith(" NOTWF") and o.result != want:
            rep.oracle_failures.append(("extreme-durations:http-result", f"result differs with these durations: {o.result[:160]}", o.line[:2000], o.impl[:300]))
