"""socket.rs inside the model (`sock` case lines; model lean/GdVerif/Proto/Socket.lean, driver Run/Socket.lean, harness src/sock.rs).

The real `UdpSocketImpl` / `TcpSocketImpl` (no scripted transport) run against an in-process loopback peer described by the
case line; the model driver turns the same description into the behaviour of the system that peer stands for, runs the model of
socket.rs on top of it and prints what an outside observer must see: the result of `new` and of every operation, what the peer
received and from which address family, what went anywhere else (decoy sockets), and — in place of wall-clock numbers — which
duration bounds the wait of each step, read off the model's own `set_read_timeout` / `set_write_timeout` / `connect_timeout`
calls.  Everything but the clock is compared for equality; the clock is checked against the model's bound from both sides (a wait
bounded by the wrong duration is too long or too short).  On top of the comparison, oracles that do not go through the model:
bytes and family seen by the peer, nothing at the decoys, truncation by the buffer size (C12, C09); no panic with extreme accepted
durations (C18).  A case that fails is measured again on its own, up to twice, before it is reported."""
import re
import vlib

ENTRY = "sock"
SLACK_MS = 250
UMAX = 18446744073709551615


def is_sock(line):
    t = line.split(" ")
    return len(t) > 1 and t[1] == ENTRY


# ------------------------------------------------------------------------------------------------ reference (Python)

def client_pattern(n, k):
    return bytes((i * 31 + 7 + 13 * k) % 256 for i in range(n))


def peer_pattern(n, k):
    return bytes((i * 17 + 3 + 29 * k) % 256 for i in range(n))


def fnv(data):
    h = 0x811c9dc5
    for b in data:
        h = ((h ^ b) * 16777619) & 0xFFFFFFFF
    return h


def digest(data):
    return f"{len(data)}/{fnv(data):08x}"


def ms(d):
    return f"{d // 1000}:{(d % 1000) * 1000000}"


def st(r, w, c):
    """settings with the three durations in ms (None = no timeout of that kind)"""
    return ",".join("-" if x is None else ms(x) for x in (r, w, c))


# ------------------------------------------------------------------------------------------------ cases

def gen_c12(tier):
    """(id, line) list: every decision of socket.rs observed from outside, three address forms"""
    out = []
    k = [0]

    def add(kind, fam, settings, peer, ops):
        k[0] += 1
        out.append(f"sk{k[0]} sock {kind} {fam} {settings} {peer} {ops}")

    # read, write and connect durations all different, in both orders of magnitude: a wait bounded by another duration than
    # its own is too long in one set and too short in the other
    A = st(150, 2000, 3000)
    B = st(400, 120, 60)
    T = st(150, 300, 400)
    T2 = st(900, 200, 120)
    for fam in ("v4", "v6", "v4m"):
        big = 65507 if fam != "v6" else 65000
        # UDP: what is sent arrives, what arrives is returned up to the buffer size
        for n, reply, size in ((0, 0, "-"), (1, 1, "-"), (10, 300, "100"), (1400, 1024, "-"), (25, 1025, "-"), (9, 2000, "6144"),
                               (9, 1500, "1400"), (big, big, "70000"), (big, 4000, "1024")):
            add("udp", fam, A, f"u:{reply}", f"s{n}/r{size}")
        # the rest of a datagram that did not fit is gone: the next receive gets the next datagram, the one after times out
        add("udp", fam, A, "u:300+20/~", "s10/r100/r-/r-")
        # a reply from another socket of the peer is taken all the same (the socket is not connected)
        add("udp", fam, A, "u:30o", "s10/r-")
        # nothing listens on the port: the send succeeds, the receive runs into the READ timeout
        add("udp", fam, A, "none", "s10/r-")
        add("udp", fam, B, "none", "s10/r-")
        # a silent peer, a peer that answers the first request only; retried sends over the same socket
        add("udp", fam, A, "u:~", "s10/r-/s10/r-")
        add("udp", fam, B, "u:~", "s10/r-")
        add("udp", fam, A, "u:40/~/40", "s10/r-/s11/r-/s12/r-")
        # TCP: a peer that writes in pieces with pauses longer than half the read timeout (every READ is bounded, not the receive),
        # the size asked for is not a limit
        add("tcp", fam, T, "t:r4/w10/p90/w10/p90/w10/c", "s4/r5")
        add("tcp", fam, T, "t:r4/c", "s4/r-")
        add("tcp", fam, T, "t:r4/c", "s4/r-/r-")
        add("tcp", fam, T, "t:r4/w40/h", "s4/r-")
        add("tcp", fam, T2, "t:r4/w40/h", "s4/r-")
        add("tcp", fam, T, "t:h", "r-")
        add("tcp", fam, T, "t:r4/w100000/c", "s4/r-")
        add("tcp", fam, T, "t:r1/w1/c", "s1/r-")
        add("tcp", fam, T, "t:r5000/w0/w3/c", "s5000/r-")
        add("tcp", fam, T, "t:r3/r4/w7/c", "s3/s4/r-")
        # nothing listens / the connection attempt is never answered (bounded by the CONNECT duration)
        add("tcp", fam, T, "refuse", "s4")
        add("tcp", fam, T2, "refuse", "s4")
        add("tcp", fam, T, "full", "s4")
        add("tcp", fam, T2, "full", "s4")
        # a peer that never reads: the write blocks for the WRITE duration (what the code then makes of a partial write is in
        # the model: success)
        add("tcp", fam, T, "noread", "s4194304")
        if tier != "quick" or fam == "v4":
            add("tcp", fam, T2, "noread", "s4194304")
        # a reset: the next receive / the next sends fail at once with the receive / send class
        add("tcp", fam, T, "t:x", "s4/z80/r-")
        add("tcp", fam, T, "t:x", "s4/z80/s4/s4")
    # no settings at all: the defaults (4 s each) are in force — a silent UDP peer, an unanswered connection attempt
    add("udp", "v4", "-", "u:~", "s10/r-")
    add("tcp", "v6" if tier != "quick" else "v4", "-", "full", "s4")
    add("tcp", "v4", "-", "t:r4/w9/c", "s4/r-")
    return out


def gen_c18(tier):
    """extreme accepted durations on real sockets against peers that answer: nothing may panic; where the outcome cannot depend
    on scheduling it must be the model's"""
    out = []
    k = [0]
    H = f"{UMAX}:0"
    HH = f"{UMAX}:999999999"
    NS = "0:1"
    sets = [f"{H},{H},{H}", f"{HH},{HH},{HH}", "-,-,-", f"{H},-,{HH}", f"-,{HH},{H}", f"{UMAX // 2 + 1}:0,{UMAX // 1000}:500000000,{H}",
            f"{H},{NS},{H}", f"{NS},{H},{H}", f"{H},{H},{NS}", f"{NS},{NS},{NS}", "-"]
    for fam in ("v4", "v6", "v4m"):
        for s in sets:
            for kind, peer, ops in (("udp", "u:300/20", "s10/r100/s1/r-"), ("tcp", "t:r4/w10/p20/w10/c", "s4/r-"), ("tcp", "refuse", "s4")):
                if tier == "quick" and fam == "v4m" and s not in (sets[0], sets[2], sets[9]):
                    continue
                k[0] += 1
                # a nanosecond read / connect timeout may or may not expire before a loopback peer answers: no comparison there
                r, w, c = (s.split(",") + ["", ""])[:3] if s != "-" else ("", "", "")
                racy = (r == NS) or (kind == "tcp" and c == NS and peer != "refuse")
                out.append(f"s{'x' if racy else 'd'}{k[0]} sock {kind} {fam} {s} {peer} {ops}")
    return out


def gen_c09(tier):
    """destinations: the peer and two decoys (same address other port, other loopback address same port)"""
    out = []
    k = 0
    A = st(300, 2000, 3000)
    for fam in ("v4", "v6", "v4m"):
        for kind, peer, ops in (("udp", "u:8/8/8", "s1/r-/s64/r-/s1400/r-"), ("udp", "u:~", "s33/s34/s35"), ("udp", "none", "s5/s6"),
                                ("tcp", "t:r3/r64/r1400/w1/c", "s3/s64/s1400/r-"), ("tcp", "refuse", "s1")):
            k += 1
            out.append(f"sc{k} sock {kind} {fam} {A} {peer} {ops}")
    return out


# ------------------------------------------------------------------------------------------------ running

class Outcome:
    def __init__(self, line, impl, model, panic):
        self.line, self.impl, self.model, self.panic = line, impl, model, panic
        t = line.split(" ")
        self.id, self.kind, self.fam, self.settings, self.peer, self.ops = t[0], t[2], t[3], t[4], t[5], t[6].split("/")
        ip, mp = impl.split(" ;; "), model.split(" ;; ")
        self.ok_shape = len(ip) == 4 and len(mp) == 4 and ip[3].startswith("T") and mp[3].startswith("B")
        self.new = ip[0]
        self.results = ip[1].split(" ") if len(ip) > 1 and ip[1] != "-" else []
        self.peer_saw, self.decoys = [], None
        if len(ip) > 2:
            m = re.match(r"P(.*)\|D(\d+)$", ip[2])
            if m:
                self.peer_saw = [] if m.group(1) == "-" else m.group(1).split(",")
                self.decoys = int(m.group(2))
        self.times = [int(x) for x in ip[3][1:].split(",")] if self.ok_shape else []
        self.bounds = mp[3][1:].split(",") if self.ok_shape else []
        self.same = ip[:3] == mp[:3]

    def crashed(self):
        return self.impl.split(" ", 1)[0] in ("CRASH", "ABORT", "HANG") or "CRASH" in self.impl.split(" ;; ")[0]


def clock_failures(o):
    """the clock against the model's bounds, from both sides"""
    fails = []
    if not o.ok_shape or not o.same or len(o.times) != len(o.bounds):
        return fails
    for idx, (t, b) in enumerate(zip(o.times, o.bounds)):
        what = "new" if idx == 0 else o.ops[idx - 1]
        m = re.match(r"^(?:(-)|z(\d+)|([rwc])(\d+|inf))(?:\+(\d+))?$", b)
        if not m:
            continue
        pause = int(m.group(5) or 0)
        if m.group(2) is not None:
            lo, hi, cls = int(m.group(2)), int(m.group(2)) + SLACK_MS, "sleep"
        elif m.group(1):
            lo, hi, cls = int(0.8 * pause), pause + SLACK_MS, "none"
        elif m.group(4) == "inf":
            continue
        else:
            w = int(m.group(4))
            lo, hi, cls = int(0.6 * w + 0.8 * pause), w + pause + SLACK_MS, {"r": "read", "w": "write", "c": "connect"}[m.group(3)]
        if t > hi:
            fails.append((f"timeout-not-bounding:sock:{o.kind}:{cls}", f"step {what} took {t} ms; the model bounds its wait by {b} (at most {hi} ms)"))
        elif t < lo:
            fails.append((f"timeout-too-early:sock:{o.kind}:{cls}", f"step {what} took {t} ms; the {cls} duration in force is {b} (at least {lo} ms expected)"))
    return fails


def fam_seen(fam):
    return "6" if fam == "v6" else "4"


def c12_failures(o):
    """what the property says, judged from the case line and the harness's record alone"""
    fails = []
    if o.decoys:
        fails.append((f"wrong-destination:sock:{o.kind}", f"{o.decoys} datagram(s) / connection(s) arrived at a decoy address"))
    if o.new != "OK":
        return fails
    # every successful send reaches the peer unmodified, from a socket of the family the peer can answer
    nsend, expect = 0, []
    for op, res in zip(o.ops, o.results):
        if op.startswith("s"):
            if res == "S=OK":
                expect.append(client_pattern(int(op[1:]), nsend))
            nsend += 1
    if o.kind == "udp" and o.peer.startswith("u:"):
        want = [f"{fam_seen(o.fam)}:{digest(d)}" for d in expect]
        if o.peer_saw != want:
            fails.append(("transport-modified-bytes:sock:udp", f"the peer saw {o.peer_saw[:6]}, the client sent {want[:6]}"))
        # received datagrams: never longer than the size asked for (1024 when none is)
        for op, res in zip(o.ops, o.results):
            if op.startswith("r") and re.match(r"R=\d+/", res):
                cap = 1024 if op == "r-" else int(op[1:])
                if int(res[2:].split("/")[0]) > cap:
                    fails.append(("receive-exceeds-size:sock:udp", f"{op} returned {res}"))
    if o.kind == "tcp" and o.peer.startswith("t:") and "x" not in o.peer[2:].split("/"):
        # the peer's script reads `want` bytes: they must be the first bytes the client sent
        want = sum(int(a[1:]) for a in o.peer[2:].split("/") if a.startswith("r"))
        sent = b"".join(expect)
        if want and len(sent) >= want:
            w = f"{fam_seen(o.fam)}:{digest(sent[:want])}"
            if o.peer_saw != [w]:
                fails.append(("transport-modified-bytes:sock:tcp", f"the peer read {o.peer_saw}, the client sent {w}"))
        # a peer that writes and closes: everything it wrote is returned, whatever size was asked for
        acts = o.peer[2:].split("/")
        if "h" not in acts and sum(1 for x in o.ops if x.startswith("r")) >= 1:
            data, kk = b"", 0
            for a in acts:
                if a.startswith("w"):
                    data += peer_pattern(int(a[1:]), kk)
                    kk += 1
                if a == "c":
                    break
            first = next((r for op, r in zip(o.ops, o.results) if op.startswith("r")), None)
            if first is not None and first != "R=" + digest(data):
                fails.append(("stream-not-delivered:sock:tcp", f"the peer wrote {digest(data)} and closed, receive returned {first}"))
    return fails


def run(rep, lines, tag, lanes=3, count="kind:sock", oracles=(), compare=True, again_budget=10):
    """Run the cases on the implementation and on the model; record divergences, crashes, oracle failures (each `oracle(o)` returns
    a list of (signature, description)); a failing case is measured again on its own (up to twice) before it is reported."""
    if not lines:
        return []
    if lanes > 1 and len(lines) > lanes:
        from concurrent.futures import ThreadPoolExecutor
        impl, panics = {}, {}
        chunks = [lines[k::lanes] for k in range(lanes)]
        with ThreadPoolExecutor(lanes) as ex:
            for io, pa in ex.map(lambda kl: vlib.run_impl(kl[1], tag=f"{tag}{kl[0]}"), [(k, c) for k, c in enumerate(chunks) if c]):
                impl.update(io)
                panics.update(pa)
    else:
        impl, panics = vlib.run_impl(lines, tag=tag)
    model = vlib.run_model(lines)

    def judge(line, i, pn):
        cid = line.split(" ", 1)[0]
        o = Outcome(line, i, model.get(cid, "<no output>"), pn)
        divs, fails = [], []
        if o.crashed():
            loc = pn.rsplit(" @ ", 1)[-1] if " @ " in pn else pn[:60]
            fails.append((f"crash:sock:{loc}", f"{i.split(' ', 1)[0]} in sock: {pn}"))
            return o, divs, fails
        racy = cid.startswith("sx")
        if compare and not racy and not o.same:
            divs.append((line, o.model, i, pn))
        if not racy:
            fails += clock_failures(o)
        for orc in oracles:
            fails += orc(o)
        return o, divs, fails

    outs = []
    budget = [again_budget]
    for line in lines:
        cid = line.split(" ", 1)[0]
        i = impl.get(cid, "<no output>")
        o, divs, fails = judge(line, i, panics.get(cid, ""))
        rep.seen(line[:300], i[:300])
        rep.count(count)
        rep.count(f"sock:{o.kind}:{o.fam}")
        if (divs or fails) and not o.crashed() and budget[0] > 0:
            budget[0] -= 1
            for attempt in range(2):
                io, pa = vlib.run_impl([line], tag=tag + "again")
                rep.count("measured-again")
                o2, d2, f2 = judge(line, io.get(cid, "<no output>"), pa.get(cid, ""))
                if not d2 and not f2:
                    o, divs, fails = o2, [], []
                    rep.count("measured-again:clean")
                    break
        for b in o.bounds:
            if b and b[0] in "rwc":
                rep.count("sock-wait:" + {"r": "read", "w": "write", "c": "connect"}[b[0]])
        rep.divergences += [(l[:4000], m[:1500], x[:1500], p) for l, m, x, p in divs]
        rep.oracle_failures += [(sg, d, line[:2000], o.impl[:300]) for sg, d in fails]
        outs.append(o)
    return outs


def c09_failures(o):
    fails = []
    if o.decoys:
        fails.append((f"wrong-destination:sock:{o.kind}", f"{o.decoys} datagram(s) / connection(s) arrived at a decoy address"))
    return fails + [f for f in c12_failures(o) if f[0].startswith("transport-modified-bytes")]


def c18_failures(o):
    fails = []
    # whatever the durations: `new` gives a socket or the bind / connect error, every operation a value or a send / receive error
    if o.new not in ("OK", "ERR SocketConnect", "ERR SocketBind"):
        fails.append(("extreme-durations:sock", f"new returned {o.new[:80]}"))
    for r in o.results:
        if not re.match(r"^(S=OK|S=PacketSend|R=\d+/[0-9a-f]{8}|R=PacketReceive|Z)$", r):
            fails.append(("extreme-durations:sock", f"an operation returned {r[:80]}"))
    return fails
