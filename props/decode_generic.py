"""Shared runner for the decode properties (C02-C07): SPEC-generated valid exchanges of every family that owns the
property must decode to the SPEC's expected response on the implementation (oracle) and agree with the model
(correspondence); one structured mutation of each script is run for correspondence on the error paths."""
import random
import vlib, netcases
from props import netprops


def families_of(pid):
    return [f for f, d in netprops.FAMILIES.items() if d.get("decode_property") == pid]


def rule_text(pid):
    fams = families_of(pid)
    desc = "; ".join(f"{f}: {netprops.FAMILIES[f].get('describe', 'SPEC-generated states')}" for f in fams)
    return ("valid stream: random abstract server states encoded by the Lean SPEC (" + desc + "); the implementation's response "
            "must equal the SPEC's expected response (oracle) and the model's outcome and transport trace (correspondence). "
            "hostile stream: one structured mutation of a valid script, correspondence only. Non-trivial = at least one delivery "
            "received; distinct = distinct implementation outputs.")


def want_oracle(valids, rep):
    by_id = {v.id: v for v in valids}

    def oracle(case, impl, model, panic):
        out = netprops.crash_oracle(case, impl, model, panic)
        v = by_id.get(case.split(" ", 1)[0])
        if v is not None and not v.notwf:
            got = vlib.result_of(impl)
            if got != v.want:
                out.append(("decode-mismatch:" + v.fam, f"response differs from the SPEC's expected response; want {v.want[:300]} got {got[:300]}"))
        return out
    return oracle


def run(pid, rep, tier, seed, replay=None, n_quick=600, n_thorough=12000):
    tag = pid.lower()
    if replay is not None:
        vlib.correspond(rep, replay, oracle=netprops.crash_oracle, trivial=netprops.trivial, tag=tag)
        return
    fams = families_of(pid)
    rnd = random.Random(seed)
    per = max(150, (n_quick if tier == "quick" else n_thorough) // max(1, len(fams)))
    valids = []
    import importlib
    for f in fams:
        vs = netprops.valid_cases(f, seed, per)
        rep.count("family:" + f, len(vs))
        # cases inside the domain of the family's whole-query theorem (generator tag THM, when it prints one)
        if any("THM" in v.tags for v in vs):
            rep.count("theorem-domain:" + f, sum(1 for v in vs if v.tags.get("THM") == "1"))
        valids += vs
        # optional family hook: further valid exchanges derived from the generated ones (same expected response)
        fmod = importlib.import_module("props.families." + f)
        if hasattr(fmod, "decode_variants"):
            extra = [x for v in vs for x in fmod.decode_variants(v, rnd)]
            rep.count("variants:" + f, len(extra))
            for x in extra:
                x.variant = True
            valids += extra
    cases = netprops.corpus(pid) + [v.line for v in valids]
    vlib.correspond(rep, cases, oracle=want_oracle(valids, rep), trivial=netprops.trivial, tag=tag)
    # optional family hook: pairs of exchanges that carry the SAME reply over two transports (e.g. a large reply as an
    # uncompressed and as a compressed split): both must decode, to the same response
    for f in fams:
        fmod = importlib.import_module("props.families." + f)
        if not hasattr(fmod, "transport_pairs"):
            continue
        pairs = fmod.transport_pairs([v for v in valids if v.fam == f and not getattr(v, "variant", False)], rnd, tier)
        lines = [l for a, b, _ in pairs for l in (a, b)]
        model, impl, _ = vlib.correspond(rep, lines, oracle=netprops.crash_oracle, trivial=netprops.trivial, tag=tag)
        for a, b, what in pairs:
            ra, rb = vlib.result_of(impl.get(a.split(" ", 1)[0], "")), vlib.result_of(impl.get(b.split(" ", 1)[0], ""))
            rep.count("transport-pairs:" + f)
            if not ra.startswith("OK") or ra != rb:
                rep.oracle_failures.append((f"transport-dependence:{f}", f"{what}: {ra[:160]} over the first transport, {rb[:160]} over the second", b[:2000], rb[:300]))
    hostile = []
    # variants are not mutated: their model-side oracle tables (e.g. bzip2: compressed -> reply) say nothing about
    # what the real external decoder does with a corrupted stream
    valids = [v for v in valids if not getattr(v, "variant", False)]
    rnd.shuffle(valids)
    for k, v in enumerate(valids[: len(valids) // 2]):
        c, what = netcases.mutate(v.case(), rnd)
        hostile.append(c.line(f"{v.id}m{k}"))
        rep.count("mutation:" + what)
    vlib.correspond(rep, hostile, oracle=None, trivial=netprops.trivial, tag=tag)
    rep.extra_cov["families"] = fams
