"""Families of network entry points and the generic pieces the per-property modules are built from."""
import os, random
import vlib, netcases
from netcases import Case

# One file per family in props/families/: FAMILY = dict(name=…, nargs=<entry arguments before the script>,
# gen=<model generator suite>, retries=<index of the retries argument>, port=<index of the port argument>, …)
import importlib, pkgutil
from props import families as _families

FAMILIES = {}
for _m in pkgutil.iter_modules(_families.__path__):
    _mod = importlib.import_module("props.families." + _m.name)
    FAMILIES[_mod.FAMILY["name"]] = _mod.FAMILY


class Valid:
    def __init__(self, raw, fam):
        parts = raw.split(" ## ")
        self.line = parts[0]
        self.fam = fam
        self.tags = {}
        for p in parts[1:]:
            k, _, v = p.partition(" ")
            self.tags[k] = v
        self.want = self.tags.get("WANT", "")
        self.notwf = self.want.endswith(" NOTWF")
        if self.notwf:
            self.want = self.want[:-6]
        self.id = self.line.split(" ", 1)[0]

    def case(self):
        return Case(self.line, FAMILIES[self.fam]["nargs"])

    def sent(self):
        s = self.tags.get("SENT", "")
        sep = FAMILIES[self.fam].get("sent_sep", ",")  # families whose request text contains commas name another separator
        return [x for x in s.split(sep) if x] if s else []

    def seg(self):
        return [int(x) for x in self.tags.get("SEG", "").split(",") if x]


def valid_cases(fam, seed, n):
    return [Valid(l, fam) for l in vlib.model_gen(FAMILIES[fam]["gen"], seed, n)]


def corpus(pid):
    p = os.path.join(vlib.VERIF, "corpus", pid + ".txt")
    if not os.path.exists(p):
        return []
    return [l.strip() for l in open(p) if l.strip() and not l.startswith("#")]


def trivial(case, impl):
    """non-trivial = the implementation successfully received at least one delivery"""
    for e in vlib.trace_of(impl):
        if e.startswith("R") and not e.endswith(":T"):
            return False
    return True


def crash_oracle(case, impl, model, panic):
    first = impl.split(" ", 1)[0]
    if first in ("CRASH", "ABORT", "HANG"):
        loc = panic.rsplit(" @ ", 1)[-1] if " @ " in panic else panic[:60]
        loc = loc.replace("/repo/", "")
        return [(f"{first.lower()}:{case.split(' ')[1]}:{loc}", f"{first} in {case.split(' ')[1]}: {panic}")]
    return []
