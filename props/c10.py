"""C10 — retries: at most r+1 attempts, only after timeouts, same result."""
import itertools, random
import vlib, netcases
from props import netprops

LEVEL = "proof"
RULE = ("for valid SPEC-generated exchanges (Valve: info / players / rules units, 0-3 challenge rounds each), every "
        "per-attempt outcome vector over {S silent, F send fault, M malformed, V valid} of length <= r+2 (r in 0..3; quick: "
        "all vectors on a few bases, thorough: on many) is injected at each unit; attempts are counted on the wire "
        "(initial request of that unit), the result is compared with the fault-free result. Non-trivial = a delivery was "
        "received; distinct = distinct implementation outputs.")
ASSUMPTIONS = ["timeouts are scripted deliveries (silence); real socket timeouts are C12's subject"]
TRUSTED = ["hand-written Lean model of utils.rs retry_on_timeout and of the protocols' use of it, checked against the code on every run"]

KIND = {0: "54", 1: "55", 2: "56"}


def vectors(r):
    out = []
    for n in range(1, r + 3):
        for v in itertools.product("SFMV", repeat=n):
            # nothing follows a valid answer; keep what follows a malformed one (must not be consumed)
            if "V" in v[:-1]:
                continue
            L = 0
            while L < len(v) and v[L] in "SF":
                L += 1
            if L == len(v) and len(v) < r + 1:
                continue  # all-timeout vectors must cover every attempt
            out.append("".join(v))
    return out


def build(valid, unit, v, r, new_id):
    fam = netprops.FAMILIES[valid.fam]
    c = valid.case()
    seg = valid.seg()
    ch = [int(x) for x in valid.tags["CH"].split(",")]
    ds = c.script[0] if c.script else []
    starts = [0, seg[0], seg[0] + seg[1]]
    groups = [ds[starts[k]:starts[k] + seg[k]] for k in range(3)]
    newds, faults = [], []
    for k in range(3):
        if k != unit:
            newds += groups[k]
            faults += [False] * (1 + ch[k])
            continue
        for e in v:
            if e == "S":
                newds.append(None)
                faults.append(False)
            elif e == "F":
                faults.append(True)
            elif e == "M":
                newds.append(b"\xff\xff")
                faults.append(False)
            else:
                newds += groups[k]
                faults += [False] * (1 + ch[k])
    c.script = [newds]
    c.args[fam["retries"]] = str(r)
    g = list(c.args[fam["gather"]])
    g[0] = g[1] = "e"
    c.args[fam["gather"]] = "".join(g)
    c.opts = [o for o in c.opts if not o.startswith("f=")] + ["f=" + "".join("1" if f else "0" for f in faults)]
    return c.line(new_id)


def expectation(v, r):
    L = 0
    while L < len(v) and v[L] in "SF":
        L += 1
    if L > r or L == len(v):
        last = v[min(r, len(v) - 1)]
        return r + 1, ("ERR PacketSend" if last == "F" else "ERR PacketReceive")
    return L + 1, ("CLEAN" if v[L] == "V" else "ERR-NON-TIMEOUT")


def run(rep, tier, seed, replay=None):
    if replay is not None:
        vlib.correspond(rep, replay, oracle=netprops.crash_oracle, trivial=netprops.trivial, tag="c10")
        return
    rnd = random.Random(seed)
    valids = [v for v in netprops.valid_cases("valve", seed + 77, 400 if tier == "quick" else 4000)
              if v.want.startswith("OK") and " P+" in v.want and " R+" in v.want and not v.notwf]
    nbase = 6 if tier == "quick" else 80
    bases = valids[:nbase]
    cases, meta = [], {}
    for bi, b in enumerate(bases):
        for r in range(4):
            vs = vectors(r)
            if tier == "quick":
                keep = [v for v in vs if "M" not in v]
                vs = keep + rnd.sample([v for v in vs if "M" in v], min(12, len([v for v in vs if "M" in v])))
            for unit in range(3):
                for v in vs:
                    cid = f"{b.id}u{unit}r{r}{v}"
                    cases.append(build(b, unit, v, r, cid))
                    meta[cid] = (b, unit, v, r)

    def oracle(case, impl, model, panic):
        out = netprops.crash_oracle(case, impl, model, panic)
        cid = case.split(" ", 1)[0]
        if cid not in meta or out:
            return out
        b, unit, v, r = meta[cid]
        want_attempts, want_res = expectation(v, r)
        ch = [int(x) for x in b.tags["CH"].split(",")]
        # sends of this unit's kind on the wire; a valid attempt also answers each challenge once
        kind_sends = sum(1 for (_, _, data, _) in vlib.sends_of(impl) if data[8:10] == KIND[unit])
        attempts = kind_sends - (ch[unit] if want_res == "CLEAN" else 0)
        got = vlib.result_of(impl)
        rep.count(f"vector-class:{want_res.split(' ')[0]}")
        if attempts != want_attempts:
            out.append((f"retry-attempts:{b.fam}", f"unit {unit}, r={r}, vector {v}: {attempts} attempts on the wire, expected {want_attempts}"))
        if want_res == "CLEAN":
            if got != b.want:
                out.append((f"retry-result:{b.fam}", f"unit {unit}, r={r}, vector {v}: result differs from the fault-free result: {got[:200]}"))
        elif want_res == "ERR-NON-TIMEOUT":
            if not got.startswith("ERR ") or got in ("ERR PacketReceive", "ERR PacketSend"):
                out.append((f"retry-malformed:{b.fam}", f"unit {unit}, r={r}, vector {v}: expected a non-timeout error, got {got[:200]}"))
        elif got != want_res:
            out.append((f"retry-exhausted:{b.fam}", f"unit {unit}, r={r}, vector {v}: expected {want_res}, got {got[:200]}"))
        return out

    vlib.correspond(rep, netprops.corpus("C10") + cases, oracle=oracle, trivial=netprops.trivial, tag="c10")
    rep.extra_cov["units"] = "valve: info, players, rules"
