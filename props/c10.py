"""C10 — retries: at most r+1 attempts, only after timeouts, same result."""
import itertools, random
import vlib, netcases
from props import netprops, malformed

LEVEL = "proof"
RULE = ("for valid SPEC-generated exchanges (Valve: info / players / rules units, 0-3 challenge rounds each), every "
        "per-attempt outcome vector over {S silent, F send fault, M malformed (two garbage bytes, and on part of the bases also an empty datagram, "
        "one byte, a bare header), V valid} of length <= r+2 (r in 0..3; quick: "
        "all vectors on a few bases, thorough: on many) is injected at each unit — for units that start with a handshake or challenge "
        "round (Valve and the games on it, GameSpy 3) both at the first exchange of an attempt and at its last one, after the earlier "
        "ones were answered; for the families whose replies travel as several datagrams reassembled inside the retried unit (Valve and The Ship: split replies; GameSpy 3: "
        "data packets; GameSpy 1: parts) also with the reply STOPPING HALF WAY: a silent attempt still receives some — not all — of the datagrams of the reply "
        "(by position in the vector all but the last / only the first / all but the first in reverse order), a malformed datagram arrives after such a selection; "
        "bases are added until every kind of unit occurs; and recovering vectors at two or three units of one query at once (each unit has its own r+1 tries); attempts are counted on the wire "
        "(initial request of that unit), the result is compared with the fault-free result. For the families with whole-query "
        "C10 theorems (Props/C10_<family>_whole.lean: valve, theship — the Valve plans through the conversion that requires the sections it only tried —, quake, gs2, gs3, jc2m, ffow, gs1 — valve, theship, gs3 and gs1 also with silences / malformed datagrams after some datagrams of the reply —, unreal2, mindustry — a socket per attempt —, mcbedrock, mcjava, mclegacy) every injected script is also "
        "rebuilt by the model driver from the SPEC's plan (entry <family>plan: Spec.faultyScript / faultyFaults): the two "
        "lines must be identical, the hypotheses of the theorem are evaluated (theorem-domain count), and result and the "
        "whole list of datagrams sent (with failed flags) are compared with the SPEC's faultyExpected / faultySends. "
        "A sample of all these cases runs again with other durations next to the retry count (none at all, only one of "
        "them, nanoseconds): same expectations. Non-trivial = a delivery was received; distinct = distinct implementation outputs.")
ASSUMPTIONS = ["timeouts are scripted deliveries (silence); real socket timeouts are C12's subject"]
TRUSTED = ["hand-written Lean model of utils.rs retry_on_timeout and of the protocols' use of it, checked against the code on every run"]

def vectors(r):
    out = []
    for n in range(1, r + 3):
        for v in itertools.product("SFMV", repeat=n):
            # nothing follows a valid answer; keep what follows a malformed one (must not be consumed)
            if "V" in v[:-1]:
                continue
            L = 0
            while L < len(v) and v[L] in "SF":
                L += 1
            if L == len(v) and len(v) < r + 1:
                continue  # all-timeout vectors must cover every attempt
            out.append("".join(v))
    return out


def expectation(v, r):
    L = 0
    while L < len(v) and v[L] in "SF":
        L += 1
    if L > r or L == len(v):
        last = v[min(r, len(v) - 1)]
        return r + 1, ("ERR PacketSend" if last == "F" else "ERR PacketReceive")
    return L + 1, ("CLEAN" if v[L] == "V" else "ERR-NON-TIMEOUT")


def run(rep, tier, seed, replay=None):
    if replay is not None:
        vlib.correspond(rep, replay, oracle=netprops.crash_oracle, trivial=netprops.trivial, tag="c10")
        return
    rnd = random.Random(seed)
    import importlib
    units_desc = []
    first_pass = [True]

    def one_pass(families):
        """build, run and judge the cases of these families (the thorough tier goes family by family: its millions of
        case lines and outputs would otherwise all be held at once)"""
        cases, meta = [], {}
        plan_requests = []   # families with a SPEC-level faulty script (whole-query C10 theorems): driver requests
        for fam in families:
            fmod = importlib.import_module("props.families." + fam)
            if not hasattr(fmod, "c10_build"):
                continue
            valids = [v for v in netprops.valid_cases(fam, seed + 77, 400 if tier == "quick" else 4000) if fmod.c10_eligible(v)]
            nbase = 6 if tier == "quick" else 80
            bases = valids[:nbase]
            # every kind of unit the family has (e.g. a fault after the challenge round) must occur in some base
            have = set(u for b in bases for u in fmod.c10_units(b))
            for b in valids[nbase:]:
                new_units = set(fmod.c10_units(b)) - have
                if new_units:
                    bases.append(b)
                    have |= new_units
            units_desc.append(f"{fam}: units {sorted(have)} over {len(bases)} bases")
            # units whose scripts are long (a reply of several datagrams delivered again and again): at most so many bases each
            cap = getattr(fmod, "C10_BASE_CAP", {})
            capped = {}
            for bi, b in enumerate(bases):
                units_here = []
                for unit in fmod.c10_units(b):
                    if unit in cap:
                        if capped.get(unit, 0) >= cap[unit]:
                            continue
                        capped[unit] = capped.get(unit, 0) + 1
                    units_here.append(unit)
                for r in range(4):
                    vs = vectors(r)
                    if tier == "quick":
                        keep = [v for v in vs if "M" not in v]
                        vs = keep + rnd.sample([v for v in vs if "M" in v], min(12, len([v for v in vs if "M" in v])))
                    for unit in units_here:
                        for v in vs:
                            cid = f"{b.id}u{unit}r{r}{v}"
                            cases.append(fmod.c10_build(b, unit, v, r, cid))
                            meta[cid] = (b, unit, v, r, fmod)
                            if hasattr(fmod, "c10_plan_request"):
                                req = fmod.c10_plan_request(b, unit, v, r)
                                if req:
                                    plan_requests.append(f"{cid} {req}")
                            # the same vector with other malformed replies (empty datagram, one byte, a bare header): a reply
                            # that is not a valid answer is never retried, whichever it is
                            if "M" in v and (bi < 2 or tier == "thorough"):
                                for mi, mal in enumerate(malformed.VARIANTS):
                                    malformed.CURRENT = mal
                                    try:
                                        cid2 = f"{cid}e{mi}"
                                        cases.append(fmod.c10_build(b, unit, v, r, cid2))
                                        meta[cid2] = (b, unit, v, r, fmod)
                                    finally:
                                        malformed.CURRENT = malformed.DEFAULT

        # the retry count is the caller's whatever the durations next to it are (none at all = blocking sockets, only some):
        # a sample of the cases again with other durations in the settings — same expectations
        TDS = ["-,-,-", "-,-,0:1", "-,7:0,-", "7:0,-,-", "0:1,0:1,0:1"]
        sample = [c for c in cases if c.split(" ", 1)[0] in meta]
        for j, line in enumerate(rnd.sample(sample, min(len(sample), 400 if tier == "quick" else 20000))):
            cid = line.split(" ", 1)[0]
            cid2 = f"{cid}td{j % len(TDS)}"
            cases.append(f"{cid2} {line.split(' ', 1)[1]} td={TDS[j % len(TDS)]}")
            meta[cid2] = meta[cid]
        # the same cases as the SPEC's plan scripts (the scripts the whole-query theorems C10_<family>_query_* speak about):
        # the line built here must BE the line the SPEC builds, and carries the prescribed outcome and sends
        spec = {}
        built = {c.split(" ", 1)[0]: c.split(" ", 1)[1] for c in cases}
        # (the quick tier asks for every case; the thorough tier, whose vectors number hundreds of thousands, for a seeded
        # sample of at most PLAN_SAMPLE per family — the plan line costs as much as the case itself)
        PLAN_SAMPLE = 8000
        by_family = {}
        for req in plan_requests:
            by_family.setdefault(meta[req.split(" ", 1)[0]][0].fam, []).append(req)
        plan_requests = []
        for fam in sorted(by_family):
            reqs = by_family[fam]
            plan_requests += reqs if len(reqs) <= PLAN_SAMPLE else rnd.sample(reqs, PLAN_SAMPLE)
        for cid, out in vlib.run_model(plan_requests).items():
            parts = out.split(" ## ")
            tags = {}
            for p in parts[1:]:
                k, _, val = p.partition(" ")
                tags[k] = val
            spec[cid] = (parts[0], tags)

        # several units of ONE query each losing some attempts (every unit has its own r + 1 tries: what an earlier unit
        # used up must not be missing later): recovering vectors S/F^k V with k <= r at two or three units at once
        multi = {}
        for fam in families:
            fmod = importlib.import_module("props.families." + fam)
            if not hasattr(fmod, "c10_build_multi"):
                continue
            valids = [v for v in netprops.valid_cases(fam, seed + 77, 400 if tier == "quick" else 4000) if fmod.c10_eligible(v)]
            for bi, b in enumerate(valids[: (6 if tier == "quick" else 60)]):
                units = fmod.c10_units(b)
                sections = sorted(set(u % 3 for u in units))
                if len(sections) < 2:
                    continue
                for r in (1, 2, 3):
                    for rep_i in range(3 if tier == "quick" else 8):
                        chosen = {}
                        for sec in sections:
                            cand = [u for u in units if u % 3 == sec]
                            k = rnd.choice([0, 1, r, rnd.randrange(0, r + 1)])
                            chosen[rnd.choice(cand)] = "".join(rnd.choice("SSF") for _ in range(k)) + "V"
                        if sum(1 for v in chosen.values() if len(v) > 1) < 2:
                            continue
                        cid = f"{b.id}m{r}_{rep_i}_" + "_".join(f"{u}{v}" for u, v in sorted(chosen.items()))
                        cases.append(fmod.c10_build_multi(b, chosen, r, cid))
                        multi[cid] = (b, chosen, r, fmod)

        def oracle(case, impl, model, panic):
            out = netprops.crash_oracle(case, impl, model, panic)
            cid = case.split(" ", 1)[0]
            if cid in multi and not out:
                b, chosen, r, fmod = multi[cid]
                rep.count("multi-unit-vectors")
                got = vlib.result_of(impl)
                if got != b.want:
                    out.append((f"retry-result-multi:{b.fam}", f"r={r}, vectors {chosen}: every unit lost at most r attempts, yet the result differs from the fault-free one: {got[:200]}"))
                else:
                    for u, v in chosen.items():
                        attempts = fmod.c10_attempts(b, u, vlib.sends_of(impl), True)
                        if attempts != len(v):
                            out.append((f"retry-attempts-multi:{b.fam}", f"r={r}, vectors {chosen}: unit {u} was tried {attempts} times, expected {len(v)}"))
                return out
            if cid not in meta or out:
                return out
            b, unit, v, r, fmod = meta[cid]
            want_attempts, want_res = expectation(v, r)
            attempts = fmod.c10_attempts(b, unit, vlib.sends_of(impl), want_res == "CLEAN")
            got = vlib.result_of(impl)
            rep.count(f"vector-class:{want_res.split(' ')[0]}")
            rep.count(f"unit:{b.fam}:{unit}")
            if cid in spec:
                line, tags = spec[cid]
                if line != built[cid]:
                    out.append((f"spec-script:{b.fam}", f"unit {unit}, r={r}, vector {v}: the injected script is not the SPEC's plan script: {line[:160]}"))
                elif tags.get("THM") == "1":
                    rep.count("theorem-domain:" + b.fam)
                    if got != tags.get("WANT"):
                        out.append((f"retry-spec-result:{b.fam}", f"unit {unit}, r={r}, vector {v}: expected {tags.get('WANT', '')[:120]}, got {got[:200]}"))
                    sent = ",".join(d + ("!" if failed else "") for (_, _, d, failed) in vlib.sends_of(impl))
                    if sent != tags.get("SENT"):
                        out.append((f"retry-spec-sends:{b.fam}", f"unit {unit}, r={r}, vector {v}: sends differ from the plan's: {sent[:200]}"))
                    if "ATT" in tags and str(attempts) != tags["ATT"] and want_attempts == attempts:
                        out.append((f"retry-spec-attempts:{b.fam}", f"unit {unit}, r={r}, vector {v}: {attempts} attempts, the plan has {tags['ATT']}"))
                else:
                    rep.count("outside-theorem-domain:" + b.fam)
            if attempts != want_attempts:
                out.append((f"retry-attempts:{b.fam}", f"unit {unit}, r={r}, vector {v}: {attempts} attempts on the wire, expected {want_attempts}"))
            if want_res == "CLEAN":
                if got != b.want:
                    out.append((f"retry-result:{b.fam}", f"unit {unit}, r={r}, vector {v}: result differs from the fault-free result: {got[:200]}"))
            elif want_res == "ERR-NON-TIMEOUT":
                if not got.startswith("ERR ") or got in ("ERR PacketReceive", "ERR PacketSend"):
                    out.append((f"retry-malformed:{b.fam}", f"unit {unit}, r={r}, vector {v}: expected a non-timeout error, got {got[:200]}"))
            elif got != want_res:
                sig = getattr(fmod, "c10_known", lambda *a: None)(unit, want_res, got) or f"retry-exhausted:{b.fam}"
                out.append((sig, f"unit {unit}, r={r}, vector {v}: expected {want_res}, got {got[:200]}"))
            return out

        corpus = netprops.corpus("C10") if first_pass[0] else []
        first_pass[0] = False
        vlib.correspond(rep, corpus + cases, oracle=oracle, trivial=netprops.trivial, tag="c10")

    fams = [f for f in netprops.FAMILIES if hasattr(importlib.import_module("props.families." + f), "c10_build")]
    if tier == "quick":
        one_pass(fams)
    else:
        for f in fams:
            one_pass([f])
    rep.extra_cov["units"] = units_desc
