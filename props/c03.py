"""C03 — Minecraft status replies decode exactly; auto-detect order holds."""
import vlib
from props import decode_generic, netprops
from props.families import mcauto

LEVEL = "proof"
RULE = decode_generic.rule_text("C03") + (" auto-detect order: for SPEC-generated worlds over all 32 subsets of variants spoken, the "
        "transports of the sockets the implementation opened, in order, must be the prefix of [tcp, udp, tcp, tcp, tcp] up to the "
        "first variant spoken (OPENED tag).")
ASSUMPTIONS = ["external crates are parameters of the model (serde_json: mirrored in the driver by GdVerif/Run/McJson.lean and compared on every case)"]
TRUSTED = ["hand-written Lean models, checked against the code on every run",
           "SPEC encoders written from the protocol documentation (wiki.vg Server List Ping, RakNet unconnected pong)"]


def run(rep, tier, seed, replay=None):
    decode_generic.run("C03", rep, tier, seed, replay)
    if replay is not None:
        return
    # connection order of the auto-detecting query, all 32 subsets x 3 retry settings per 96 consecutive cases
    valids = [v for v in netprops.valid_cases("mcauto", seed + 3, 192 if tier == "quick" else 3840) if not v.notwf]
    by_id = {v.id: v for v in valids}

    def oracle(case, impl, model, panic):
        out = netprops.crash_oracle(case, impl, model, panic)
        v = by_id.get(case.split(" ", 1)[0])
        if v is None or out:
            return out
        got, want = mcauto.opened_of(impl), v.tags.get("OPENED", "")
        rep.count("opened:" + got)
        if got != want:
            out.append(("auto-order", f"sockets opened {got}, expected {want}"))
        if vlib.result_of(impl) != v.want:
            out.append(("decode-mismatch:mcauto", f"want {v.want[:300]} got {vlib.result_of(impl)[:300]}"))
        return out

    # the variant the server speaks loses a write of its first request to a local send failure while retries are allowed:
    # the attempt is repeated on that variant — same response, same label, same sockets — it is not skipped
    lines = [v.line for v in valids]
    for v in valids:
        sent = v.tags.get("SENT", "").split(",") if v.tags.get("SENT") else []
        label = v.want.rsplit(";", 1)[-1].rstrip("}") if v.want.startswith("OK") else ""
        if not sent or not label:
            continue
        first = len(sent) - (3 if label == "J" else 1)
        if first < 0:
            continue
        for r, nf in ((1, 1), (2, 2), (3, 1)):
            c = v.case()
            c.args[3] = str(r)
            # (a retry count the base did not have changes what the variants before the answering one send: only the
            # bases whose earlier variants are refused outright keep their traffic)
            if any(x != "X" for x in c.script[:-1]) and c.args[3] != v.case().args[3]:
                continue
            c.opts = [o for o in c.opts if not o.startswith("f=")] + ["f=" + "0" * first + "1" * nf]
            cid = f"{v.id}sf{r}"
            lines.append(c.line(cid))
            by_id[cid] = v
            rep.count("send-fault-on-answering-variant:" + label)
    vlib.correspond(rep, lines, oracle=oracle, trivial=lambda c, i: False, tag="c03o")
