"""C03 — Minecraft status replies decode exactly; auto-detect order holds."""
import vlib
from props import decode_generic, netprops
from props.families import mcauto

LEVEL = "proof"
RULE = decode_generic.rule_text("C03") + (" auto-detect order: for SPEC-generated worlds over all 32 subsets of variants spoken, the "
        "transports of the sockets the implementation opened, in order, must be the prefix of [tcp, udp, tcp, tcp, tcp] up to the "
        "first variant spoken (OPENED tag).")
ASSUMPTIONS = ["external crates are parameters of the model (serde_json: mirrored in the driver by GdVerif/Run/McJson.lean and compared on every case)"]
TRUSTED = ["hand-written Lean models, checked against the code on every run",
           "SPEC encoders written from the protocol documentation (wiki.vg Server List Ping, RakNet unconnected pong)"]


def run(rep, tier, seed, replay=None):
    decode_generic.run("C03", rep, tier, seed, replay)
    if replay is not None:
        return
    # connection order of the auto-detecting query, all 32 subsets x 3 retry settings per 96 consecutive cases
    valids = [v for v in netprops.valid_cases("mcauto", seed + 3, 192 if tier == "quick" else 3840) if not v.notwf]
    by_id = {v.id: v for v in valids}

    def oracle(case, impl, model, panic):
        out = netprops.crash_oracle(case, impl, model, panic)
        v = by_id.get(case.split(" ", 1)[0])
        if v is None or out:
            return out
        got, want = mcauto.opened_of(impl), v.tags.get("OPENED", "")
        rep.count("opened:" + got)
        if got != want:
            out.append(("auto-order", f"sockets opened {got}, expected {want}"))
        if vlib.result_of(impl) != v.want:
            out.append(("decode-mismatch:mcauto", f"want {v.want[:300]} got {vlib.result_of(impl)[:300]}"))
        return out

    vlib.correspond(rep, [v.line for v in valids], oracle=oracle, trivial=lambda c, i: False, tag="c03o")
