"""C03 — Minecraft status replies decode exactly; auto-detect order holds."""
from props import decode_generic

LEVEL = "proof"
RULE = decode_generic.rule_text("C03")
ASSUMPTIONS = ["external crates are parameters of the model"]
TRUSTED = ["hand-written Lean models, checked against the code on every run", "SPEC encoders written from the protocol documentation / reference implementation (node-gamedig)"]


def run(rep, tier, seed, replay=None):
    decode_generic.run("C03", rep, tier, seed, replay)
