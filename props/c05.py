"""C05 — Quake 1/2/3 status replies yield all variables and players."""
from props import decode_generic

LEVEL = "proof"
RULE = decode_generic.rule_text("C05")
ASSUMPTIONS = ["external crates are parameters of the model"]
TRUSTED = ["hand-written Lean models, checked against the code on every run", "SPEC encoders written from the protocol documentation / reference implementation (node-gamedig)"]


def run(rep, tier, seed, replay=None):
    decode_generic.run("C05", rep, tier, seed, replay)
    if replay is None:
        from props.families import quake
        quake.finding_probes(rep)
        import random
        quake.name_probes(rep, random.Random(seed + 5), tier)
