"""C20 — the game-id naming checker is total and self-consistent."""
import json, os, random, re
import vlib
from props import netprops

LEVEL = "proof"
RULE = ("names generated from the documented grammar (capitalised words, dotted acronyms, roman numerals, leading / inner / trailing numbers, "
        "hyphenated words and numbers incl. text after a hyphenated number, words put together from letter runs, digit runs and hyphens in any order, bracketed year or edition, ' - Mod' suffix, punctuation) x candidate ids "
        "(the ids the checker itself reports as expected, near misses, case variants, junk); lists of 1-4 games; the shipped definitions table. "
        "Oracle on the implementation: never a panic; for a single game an id is accepted exactly when it is one of the ids reported as expected "
        "for that name, and that set does not depend on the wrong id proposed; the shipped table passes. Distinct = distinct outputs.")
ASSUMPTIONS = ["names are ASCII (the documented grammar); roman_numeral is mirrored in Lean, number_to_words is a parameter table filled from the real crate at check time"]
TRUSTED = ["hand-written Lean model of crates/id-tests, checked against the code on every run"]

WORDS = ["Dead", "Cells", "The", "Binding", "of", "Isaac", "Day", "Dragons", "Defeat", "Team", "Fortress", "Left", "Star", "Wars",
         "Battlefront", "Grand", "Theft", "Auto", "Just", "Cause", "Multiplayer", "Dino", "Quake", "Arena", "Age", "Chivalry", "to", "Die",
         "Days", "Unreal", "Tournament", "ARK:", "Survival", "Evolved", "Hour:", "Europe", "America's", "Army", "a", "X", "Mix", "DIV"]
ACRO = ["S.T.A.L.K.E.R.", "S.T.A.L.K.E.R", "F.E.A.R.", "ARMA", "DayZ", "ATLAS", "V", "PixARK"]
ROMAN = ["II", "III", "IV", "V", "IX", "XIV", "MMXX", "I", "IIII", "VX", "MCMXCIX", "D", "M"]
NUMS = ["2", "4", "7", "10", "1942", "2003", "0", "007", "44", "65535", "65536", "3"]
HYPH = ["D-Day", "Half-Life", "'44-'45", "4-Dead", "44-text", "Co-op", "X-Com", "1-2-3", "Day-", "-Day", "9-",
        "Arma3-Exile", "Life2-Deathmatch", "Alpha2-", "B17-G", "Doom3-", "2Fort-", "X2-", "Left4Dead", "Battalion1944", "DOOM3"]


def glued_token(rnd):
    """a word put together from letter runs, digit runs and hyphens / apostrophes / dots in any order (the grammar allows
    numbers glued to words and hyphens anywhere inside a word): Arma3-Exile, 2Fort-, B-17g, '44-'45 …"""
    segs = []
    for _ in range(rnd.choice([2, 2, 3, 3, 4, 5])):
        k = rnd.random()
        if k < 0.4:
            segs.append(rnd.choice(["Arma", "Life", "Day", "X", "b", "Fort", "Exile", "G", "Mod", "op"]))
        elif k < 0.7:
            segs.append(rnd.choice(["2", "3", "17", "44", "1944", "0", "007"]))
        elif k < 0.92:
            segs.append("-")
        else:
            segs.append(rnd.choice(["'", "."]))
    t = "".join(segs)
    return t if any(ch.isalnum() for ch in t) else t + "A"
SUFFIX = ["", "", "", " (2017)", " (2005)", " (java)", " (bedrock)", " (legacy 1.6)", " (2017) (beta)", " ()", " (65536)", " 2 (2017)"]
MODS = ["", "", "", " - FiveM", " - Multiplayer", " - Mod 2", "-Mod", " - "]


def gen_name(rnd):
    n = rnd.choice([1, 1, 2, 2, 3, 3, 4, 5])
    toks = []
    for i in range(n):
        c = rnd.random()
        if c < 0.5:
            toks.append(rnd.choice(WORDS))
        elif c < 0.6:
            toks.append(rnd.choice(ACRO))
        elif c < 0.7:
            toks.append(rnd.choice(ROMAN))
        elif c < 0.85:
            toks.append(rnd.choice(NUMS))
        elif c < 0.93:
            toks.append(rnd.choice(HYPH))
        else:
            toks.append(glued_token(rnd))
    name = " ".join(toks)
    if rnd.random() < 0.15:
        name = name.replace(" ", "  ", 1)
    mod = rnd.choice(MODS)
    if mod.strip(" -"):
        mod += rnd.choice(["", " " + rnd.choice(WORDS)])
    return name + mod + rnd.choice(SUFFIX)


def derive(name, rnd):
    """names built to COLLIDE with `name` or with each other on the expected id: digits pulled apart, a bracketed edition /
    year written as a plain word, the acronym of a several-word name as a one-word name and as the first word of a longer
    one, a prefix of the words, a longer name starting with all the words"""
    out = []
    words = name.split()
    m = re.search(r"\d{2,}", name)
    if m:
        d = m.group(0)
        out.append(name[:m.start()] + " ".join(d) + name[m.end():])
        out.append(name[:m.start()] + d[0] + " " + d[1:] + name[m.end():])
    b = re.search(r" \(([^)]*)\)", name)
    if b:
        inner = b.group(1)
        out.append(name[:b.start()] + " " + inner.capitalize() + name[b.end():])
        out.append(name[:b.start()] + name[b.end():])
    else:
        out.append(name + rnd.choice([" (java)", " (2017)", " Java", " 2017", " 2 0 1 7"]))
    alpha = [w for w in words if w[:1].isalpha()]
    if len(alpha) >= 2:
        acr = "".join(w[0] for w in alpha).capitalize()
        out.append(acr)
        out.append(acr + " " + " ".join(alpha[1:]))
        out.append(" ".join(words[:-1]))
    if words:
        out.append(name + " " + rnd.choice(["2", "II", "of", "Mod", words[0]]))
        out.append(words[0])
        out.append(words[0] + " " + " ".join(w.lower() for w in words[1:]))
    return [o for o in out if o.strip()]


def hx(s):
    return s.encode().hex() or "-"


def first_numbers(names):
    """every number the checker can come to read in these names: the digit runs of a name, and the concatenations of up to
    four of them in order with any of the others left out (brackets, mod suffixes and hyphens make the checker drop parts
    of a name before it reads a number)"""
    import itertools
    out = set()
    for n in names:
        runs = re.findall(r"\d+", n)[:8]
        for k in range(1, min(4, len(runs)) + 1):
            for idx in itertools.combinations(range(len(runs)), k):
                v = "".join(runs[i] for i in idx)
                if len(v) <= 30:
                    out.add(int(v))
    return out


def run(rep, tier, seed, replay=None):
    rnd = random.Random(seed)
    if replay is not None:
        vlib.correspond(rep, replay, oracle=netprops.crash_oracle, tag="c20")
        return
    nnames = 250 if tier == "quick" else 6000
    names = {gen_name(rnd) for _ in range(nnames)}
    for base in sorted(names)[:: (4 if tier == "quick" else 2)] + ["Area 51", "Minecraft (java)", "Day of Defeat", "Quake 42", "Quake IV 2", "Foo (2017)"]:
        names.update(derive(base, rnd))
    names = sorted(names)
    tables = json.load(open(os.path.join(vlib.WORK, "games.json")))
    shipped = [(d["id"], d["name"]) for d in tables["defs"]]
    # number_to_words is a parameter of the model: fill the table from the real crate
    nums = sorted(first_numbers(names) | first_numbers([n for _, n in shipped]))
    n2w_out, _ = vlib.run_impl([f"n{k} n2w {v}" for k, v in enumerate(nums)], tag="c20n")
    words_of = {v: n2w_out[f"n{k}"] for k, v in enumerate(nums)}

    def table_for(ns):
        """the part of the number_to_words table the names of one case can ask for (the whole table on every line made the
        thorough tier's lines tens of kilobytes long)"""
        need = sorted(first_numbers(ns))
        return "n2w=" + ";".join(f"{v}:{words_of[v]}" for v in need if v in words_of) if need else "-"

    table = None  # (every line carries its own part of the table)
    junk = ["zzqqzz", "Zzqq9"]
    phase1, meta = [], {}
    for i, nm in enumerate(names):
        for j, jid in enumerate(junk):
            cid = f"a{i}j{j}"
            phase1.append(f"{cid} idcheck {table_for([nm])} {hx(jid)}:{hx(nm)}")
            meta[cid] = (nm, jid)
    model, impl, panics = vlib.correspond(rep, netprops.corpus("C20") + phase1, oracle=netprops.crash_oracle, tag="c20")

    def expected_set(out, proposed):
        if not out.startswith("OK ["):
            return None
        body = out[4:-1]
        xs = set()
        for f in body.split(",") if body else []:
            gid, _, rest = f.partition(">")
            exp = bytes.fromhex(rest.split("/")[0][1:]).decode()
            if rest.split("/")[1] == "0":
                continue  # the lower-case hint echoes the proposed id
            xs.add(exp)
        return xs

    phase2, expect = [], {}
    for i, nm in enumerate(names):
        a = expected_set(impl.get(f"a{i}j0", ""), junk[0])
        b = expected_set(impl.get(f"a{i}j1", ""), junk[1])
        if a is None or b is None:
            continue
        if a != b:
            rep.oracle_failures.append(("expected-depends-on-proposed-id", f"{nm!r}: expected ids {sorted(a)} for one wrong id, {sorted(b)} for another", f"a{i}j0 idcheck {table_for([nm])} {hx(junk[0])}:{hx(nm)}", impl.get(f"a{i}j0", "")))
        if not a:
            rep.oracle_failures.append(("no-expected-id", f"{nm!r}: a wrong id was rejected without any expected id", f"a{i}j0", impl.get(f"a{i}j0", "")))
        for k, x in enumerate(sorted(a)):
            if not x:
                continue
            cid = f"b{i}x{k}"
            phase2.append(f"{cid} idcheck {table_for([nm])} {hx(x)}:{hx(nm)}")
            expect[cid] = ("accept", nm, x)
            # ids one could read out of a PART of the name (what follows each dash, the words before it): accepted only
            # if the checker reports them
            parts = []
            if k == 0 and "-" in nm:
                for mdash in re.finditer("-", nm):
                    for piece in (nm[mdash.end():], nm[:mdash.start()]):
                        ws = re.findall(r"[A-Za-z0-9]+", re.sub(r"\([^)]*\)", "", piece))
                        if ws:
                            parts += ["".join(w.lower() for w in ws), "".join(w[0].lower() for w in ws), ws[0].lower(), ws[-1].lower()]
            for v, near in enumerate([x.upper() if x.upper() != x else x + "x", x + "2", x[:-1] or "q"] + sorted(set(parts))[:12]):
                if near and near not in a:
                    cid2 = f"b{i}x{k}n{v}"
                    phase2.append(f"{cid2} idcheck {table_for([nm])} {hx(near)}:{hx(nm)}")
                    expect[cid2] = ("reject", nm, near)
    # lists of 1-4 games (ids: expected ones and wrong ones mixed), and the shipped table
    lists = []
    for k in range(150 if tier == "quick" else 4000):
        n = rnd.choice([2, 2, 3, 4])
        pairs, used = [], []
        for _ in range(n):
            i = rnd.randrange(len(names))
            a = expected_set(impl.get(f"a{i}j0", ""), junk[0]) or {"x"}
            pid = rnd.choice(sorted(a) + ["wrong", "dod"]) or "e"
            pairs.append(f"{hx(pid)}:{hx(names[i])}")
            used.append(names[i])
        lists.append(f"l{k} idcheck {table_for(used)} " + ",".join(pairs))
    # lists of games that COLLIDE: names bucketed by an expected id they share (as reported by the checker itself in the
    # first phase), 2-4 of a bucket in every order of a small sample, each proposing the shared id, another expected id or a wrong one
    buckets = {}
    for i, nm in enumerate(names):
        for x in (expected_set(impl.get(f"a{i}j0", ""), junk[0]) or set()):
            if x:
                buckets.setdefault(x, []).append(nm)
    import itertools
    nl = 0
    for x in sorted(buckets):
        group = sorted(set(buckets[x]))
        if len(group) < 2:
            continue
        rep.count("colliding-bucket")
        picks = [group] if len(group) <= 4 else [rnd.sample(group, 4) for _ in range(2)]
        for pick in picks:
            orders = list(itertools.permutations(pick))
            for order in (orders if len(orders) <= 6 else rnd.sample(orders, 6 if tier == "quick" else 24)):
                pairs = [f"{hx(rnd.choice([x, x, 'wrong', x + '2']))}:{hx(nm)}" for nm in order]
                lists.append(f"lc{nl} idcheck {table_for(list(order))} " + ",".join(pairs))
                nl += 1
        if nl > (1500 if tier == "quick" else 40000):
            break
    rep.count("colliding-lists", nl)
    shipped_case = "shipped idcheck " + table_for([n for _, n in shipped]) + " " + ",".join(f"{hx(i)}:{hx(n)}" for i, n in shipped)

    def oracle2(case, out, model_out, panic):
        res = netprops.crash_oracle(case, out, model_out, panic)
        cid = case.split(" ", 1)[0]
        if res:
            return res
        if cid in expect:
            kind, nm, x = expect[cid]
            if kind == "accept" and out != "OK []":
                res.append(("reported-id-not-accepted", f"{nm!r}: id {x!r} is reported as expected but is rejected: {out[:200]}"))
            if kind == "reject" and out == "OK []":
                res.append(("unreported-id-accepted", f"{nm!r}: id {x!r} is accepted although it is not among the reported expected ids"))
        if cid == "shipped" and out != "OK []":
            res.append(("shipped-table-fails", f"the shipped definitions table does not pass: {out[:300]}"))
        return res

    vlib.correspond(rep, phase2 + lists + [shipped_case], oracle=oracle2, tag="c20")
    rep.extra_cov["names"] = len(names)
