"""C16 — master-server filters are encoded faithfully and paging is complete."""
import itertools, random
import vlib
from props import netprops

LEVEL = "proof"
RULE = ("filters: insertion sequences over the 18 filter kinds x 3 groups (quick: all single insertions, sampled pairs/triples, "
        "random sequences up to 8, whole groups of 9-18 kinds; thorough: exhaustive up to 3 insertions by kind/group with sampled arguments) x all regions; the "
        "request bytes the implementation sent are parsed by the reference grammar and compared with the denotation computed "
        "independently (last filter of a kind wins, per group). paging: page histories of 1-6 pages x 0-230 entries with the "
        "terminator at any page/position, or a last page that ends on its own seed instead of the terminator; result, seeds and request count compared with the reference. Ill-formed histories "
        "run for correspondence. Non-trivial = a delivery received.")
ASSUMPTIONS = ["filter string values contain no backslash / NUL, tags no comma (the grammar's domain)"]
TRUSTED = ["reference grammar reader (GdVerif/Spec/Master.lean, mirrored in harness/src/master.rs for canonical printing)",
           "hand-written Lean model of services/valve_master_server, checked against the code on every run"]

KEYS = ["secure", "map", "password", "empty", "noplayers", "full", "appid", "napp", "gametype", "name_match", "version_match",
        "collapse_addr_hash", "gameaddr", "white", "proxy", "dedicated", "linux", "gamedir"]
BOOL = {0, 2, 3, 4, 5, 11, 13, 14, 15, 16}
STR = {1, 9, 10, 12, 17}
NUM = {6, 7}
REGIONS = [0, 1, 2, 3, 4, 5, 6, 7, 255]
TEXTS = ["de_dust2", "", "a b", "é€😀", "x/y:z", "1v1", "<&>", "A" * 40, ",", "nand", "nor2"]
TAGS = [["a"], ["a", "b"], ["", "x"], ["tag one", "é"], [], ["nand"], ["a"] * 5]


def rand_arg(kind, rnd):
    if kind in BOOL:
        b = rnd.random() < 0.5
        return ("1" if b else "0"), ("1" if b else "0").encode()
    if kind in STR:
        t = rnd.choice(TEXTS).encode()
        return (t.hex() or "-"), t
    if kind in NUM:
        n = rnd.choice([0, 1, 10, 440, 730, 2**31, 2**32 - 1])
        return str(n), str(n).encode()
    tags = rnd.choice(TAGS)
    arg = "_" if not tags else ".".join((t.encode().hex() or "-") for t in tags)
    return arg, (",".join(tags).encode() if tags else None)


def show_kvs(d):
    items = sorted((k.encode(), v) for k, v in d.items() if v is not None)
    return "[" + ",".join(f"x{k.hex()}=x{v.hex()}" for k, v in items) + "]"


def filters_case(cid, region, ops, rnd):
    """ops: list of (group, kind). Returns (case line, expected canonical request)"""
    groups = {"p": {}, "a": {}, "o": {}}
    toks = []
    for g, k in ops:
        arg, val = rand_arg(k, rnd)
        toks.append(f"{g}{k}:{arg}")
        groups[g][KEYS[k]] = val
    spec = ",".join(toks) if toks else rnd.choice(["-", "+"])
    line = f"{cid} master s {region} {spec} ffffffff660a000000000000"
    exp = f"M{region}|x{b'0.0.0.0:0'.hex()}|P{show_kvs(groups['p'])}|A{show_kvs(groups['a'])}|O{show_kvs(groups['o'])}"
    return line, exp


def entry(ip, port):
    return bytes(ip) + port.to_bytes(2, "big")


def paging_case(cid, rnd, wellformed=True):
    npages = rnd.choice([1, 1, 2, 3, 4, 6])
    pages, listed, seeds = [], [], ["0.0.0.0:0"]
    pages_entries = []
    used = set()
    for p in range(npages):
        last = p == npages - 1
        n = rnd.choice([0, 1, 2, 5, 40, 229, 230]) if last else rnd.choice([1, 2, 5, 40, 230])
        es = []
        for _ in range(n):
            while True:
                ip = (rnd.randrange(1, 255), rnd.randrange(256), rnd.randrange(256), rnd.randrange(1, 255))
                port = rnd.choice([1, 80, 27015, 65535, rnd.randrange(1, 65536)])
                # addresses that share one half with the terminator 0.0.0.0:0 (only both halves zero end the list)
                k = rnd.random()
                if k < 0.06:
                    ip = (0, 0, 0, 0)
                elif k < 0.10:
                    port = 0
                elif k < 0.12:
                    ip = rnd.choice([(255, 255, 255, 255), (0, 0, 0, 1), (1, 0, 0, 0)])
                if (ip, port) not in used:
                    used.add((ip, port))
                    break
            es.append((ip, port))
        listed += es
        pages_entries.append(es)
        body = b"".join(entry(ip, port) for ip, port in es)
        if last:
            if n == 0 and rnd.random() < 0.5:
                pass  # empty final page
            elif p > 0 and wellformed and rnd.random() < 0.15:
                # the server has nothing newer: the page ends on the address the request was seeded with instead of
                # the terminator; the client stops there, and the page's entries are part of the list like any other
                prev = pages_entries[-2][-1]
                listed.append(prev)
                body += entry(*prev)
            else:
                body += entry((0, 0, 0, 0), 0)
        else:
            seeds.append("%d.%d.%d.%d:%d" % (*es[-1][0], es[-1][1]))
        pages.append(b"\xff\xff\xff\xff\x66\x0a" + body)
    if not wellformed:
        what = rnd.choice(["mid-terminator", "repeat-seed", "truncated", "bad-header", "silence", "odd"])
        i = rnd.randrange(len(pages))
        if what == "mid-terminator":
            pages[i] = pages[i][:6] + entry((0, 0, 0, 0), 0) + pages[i][6:]
        elif what == "repeat-seed" and len(pages) > 1:
            pages[-1] = pages[-2]
        elif what == "truncated":
            pages[i] = pages[i][: max(0, len(pages[i]) - rnd.choice([1, 2, 3, 5]))]
        elif what == "bad-header":
            pages[i] = rnd.choice([b"\xff\xff\xff\xfe\x66\x0a", b"\xff\xff\xff\xff\x66\x0b", b"\xff\xff", b""]) + pages[i][6:]
        elif what == "silence":
            pages[i] = None
        else:
            pages[i] = pages[i] + b"\x01"
    script = ",".join("~" if p is None else p.hex() for p in pages)
    region = rnd.choice(REGIONS)
    line = f"{cid} master q {region} - {script}"
    exp_res = "OK [" + ",".join("%d.%d.%d.%d:%d" % (*ip, port) for ip, port in listed) + "]"
    return line, exp_res, seeds


def run(rep, tier, seed, replay=None):
    if replay is not None:
        vlib.correspond(rep, replay, oracle=netprops.crash_oracle, trivial=netprops.trivial, tag="c16")
        return
    rnd = random.Random(seed)
    cases, fexp, pexp = [], {}, {}
    allops = [(g, k) for g in "pao" for k in range(18)]
    seqs = [[o] for o in allops]
    if tier == "thorough":
        seqs += [list(s) for s in itertools.product(allops, repeat=2)]
        seqs += [list(s) for s in itertools.product(allops, repeat=3) if rnd.random() < 0.15]
        nrand = 5000
    else:
        seqs += [list(rnd.sample(allops, 2)) for _ in range(300)] + [[rnd.choice(allops) for _ in range(2)] for _ in range(150)]
        seqs += [[rnd.choice(allops) for _ in range(3)] for _ in range(300)]
        nrand = 300
    # large groups: the count of a NAND / NOR group is a decimal number that may have two digits (10-18 kinds in one group)
    for g in "ao":
        for n in (9, 10, 11, 17, 18):
            seqs.append([(g, k) for k in rnd.sample(range(18), n)])
    seqs.append([(g, k) for g in "ao" for k in range(18)])
    seqs.append([(g, k) for g in "pao" for k in range(18)])
    seqs += [[]] * 4
    for _ in range(nrand):
        # same kind repeated in one group (replacement) and across groups
        k = rnd.randrange(18)
        seqs.append([(rnd.choice("pao"), rnd.choice([k, k, rnd.randrange(18)])) for _ in range(rnd.randrange(2, 9))])
    for i, ops in enumerate(seqs):
        cid = f"f{i}"
        line, exp = filters_case(cid, REGIONS[i % len(REGIONS)], ops, rnd)
        cases.append(line)
        fexp[cid] = exp
        rep.count(f"insertions:{min(len(ops), 4)}{'+' if len(ops) > 4 else ''}")
    for i in range(200 if tier == "quick" else 4000):
        cid = f"p{i}"
        line, exp_res, seeds = paging_case(cid, rnd, True)
        cases.append(line)
        pexp[cid] = (exp_res, seeds)
    # the `master` family's own generator (Lean, props/families/master.py): histories x filter sets x regions x both query modes
    fam_valids = {v.id: v for v in netprops.valid_cases("master", seed + 16, 150 if tier == "quick" else 3000)}
    cases += [v.line for v in fam_valids.values()]
    rep.count("family:master", len(fam_valids))
    illformed = []
    for i in range(150 if tier == "quick" else 3000):
        line, _, _ = paging_case(f"x{i}", rnd, False)
        illformed.append(line)

    def oracle(case, impl, model, panic):
        out = netprops.crash_oracle(case, impl, model, panic)
        if "@WRONGIP" in impl:
            out.append(("master-address", "request not addressed to the master server"))
        cid = case.split(" ", 1)[0]
        if out:
            return out
        tr = vlib.trace_of(impl)
        sends = [e.split(":", 1)[1] for e in tr if e.startswith("S")]
        if cid in fexp:
            if not sends or sends[0] != fexp[cid]:
                out.append(("filter-encoding", f"request {sends[:1]} does not denote the inserted filters; expected {fexp[cid]}"))
        elif cid in pexp:
            exp_res, seeds = pexp[cid]
            got = vlib.result_of(impl)
            if got != exp_res:
                out.append(("paging-result", f"result differs from the concatenation of the pages: got {got[:200]} expected {exp_res[:200]}"))
            got_seeds = []
            for s in sends:
                parts = s.split("|")
                got_seeds.append(bytes.fromhex(parts[1][1:]).decode("latin-1") if len(parts) > 1 else s)
            if got_seeds != seeds:
                out.append(("paging-seeds", f"follow-up requests seeded with {got_seeds}, expected {seeds}"))
        elif cid in fam_valids:
            v = fam_valids[cid]
            got = vlib.result_of(impl)
            if got != v.want:
                out.append(("paging-result", f"result differs from the history's listed addresses: got {got[:200]} expected {v.want[:200]}"))
            if sends != v.sent():
                out.append(("master-requests", f"requests {sends} differ from the expected {v.sent()}"))
        return out

    vlib.correspond(rep, netprops.corpus("C16") + cases + illformed, oracle=oracle, trivial=netprops.trivial, tag="c16")
