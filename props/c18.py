"""C18 — settings are validated; no accepted configuration can panic."""
import itertools, random
import vlib
from props import netprops, httpplan, cliplan, sockplan

LEVEL = "proof"
RULE = ("exhaustive matrix: (read, write, connect) in {None, 0, 1 ns, 1 ms, u64::MAX s}^3 x retries in {0, 1, 2, usize::MAX-1, "
        "usize::MAX} through TimeoutSettings::new and through serde (serde_json::from_str); command-line flags (clap try_parse_from) "
        "over {omitted, 0, 00, +0, 1, u64::MAX, 2^64, -1, 1.5, abc, empty, nan, inf, 1e30, 1e-10, 0.0}^3 x retries spellings; Default. Every accepted value is then "
        "used to open a real UDP and a real TCP socket (apply_timeout's unwraps and connect_timeout are live) and, with the extreme "
        "retry counts, for one scripted query per modelled protocol family; the extreme durations (u64::MAX s, 1 ns, None, mixed) "
        "on the largest answered exchanges of every family; extra request settings: all combinations of given / omitted fields through the "
        "setters, the four protocol conversions and into_extra; the HTTP client inside the model (`http-plan`, generator `httpdur`) with "
        "17 duration triples of every magnitude against a loopback listener that answers; the timeout flags of the real gamedig_cli binary (plan hook) "
        "against the model of main. Oracle: zero anywhere => InvalidInput on every path; otherwise "
        "accepted unchanged and usable. Non-trivial = every case (all are distinct configurations).")
ASSUMPTIONS = ["what clap's and serde's derive macros generate is modelled (field-wise construction), not verified",
               "std: set_read_timeout(Some(0)) is Err, connect_timeout(0) is Err, huge durations are clamped (exercised on real sockets)"]
TRUSTED = ["hand-written Lean model of TimeoutSettings and its uses, checked against the code on every run"]

UMAX = 18446744073709551615
DURS = ["-", "0:0", "0:1", "0:1000000", f"{UMAX}:0"]
RETRIES = [0, 1, 2, UMAX - 1, UMAX]
FLAGS = ["_", "0", "00", "+0", "1", str(UMAX), str(UMAX + 1), "-1", "1.5", "abc", "", "nan", "inf", "1e30", "1e-10", "0.0"]


def hexs(s):
    return s.encode().hex() or "-"


def run(rep, tier, seed, replay=None):
    if replay is not None:
        for o in httpplan.run(rep, [l for l in replay if httpplan.is_http(l)], "c18hp"):
            httpplan.c18_oracle(rep, o)
        cliplan.run(rep, [l for l in replay if cliplan.is_plan(l)], count="cli-flags")
        sockplan.run(rep, [l for l in replay if sockplan.is_sock(l)], "c18sk", oracles=(sockplan.c18_failures,), count="extreme-durations:sock")
        replay = [l for l in replay if not httpplan.is_http(l) and not cliplan.is_plan(l) and not sockplan.is_sock(l)]
        if replay:
            vlib.correspond(rep, replay, oracle=netprops.crash_oracle, tag="c18")
        return
    rnd = random.Random(seed)
    cases, exp = [], {}
    k = 0
    for r, w, c in itertools.product(DURS, repeat=3):
        for n in RETRIES:
            zero = "0:0" in (r, w, c)
            for path, order in (("settings-new", (r, w, c)), ("settings-serde", (c, r, w))):
                k += 1
                cid = f"s{k}"
                cases.append(f"{cid} {path} {order[0]} {order[1]} {order[2]} {n}")
                exp[cid] = "ERR InvalidInput" if zero else f"OK c{'-' if c == '-' else '+' + c} r{'-' if r == '-' else '+' + r} w{'-' if w == '-' else '+' + w} n{n} SOCK OK "
    # what the sockets and retry loops are handed: the *_or_default(s) helpers return the READ, WRITE, CONNECT durations
    # and the retry count of the settings (or the defaults) — each under its own name
    for r, w, c in itertools.product(DURS, repeat=3):
        if "0:0" in (r, w, c):
            continue
        k += 1
        cid = f"s{k}"
        n = RETRIES[k % len(RETRIES)]
        cases.append(f"{cid} settings-eff {r} {w} {c} {n}")
        exp[cid] = f"EFF r{'-' if r == '-' else '+' + r} w{'-' if w == '-' else '+' + w} c{'-' if c == '-' else '+' + c} n{n}"
    cases.append("seff settings-eff none")
    exp["seff"] = "EFF r+4:0 w+4:0 c+4:0 n0"
    # extra request settings: every combination of given / omitted fields through the public setters, what each protocol's
    # settings make of them (documented defaults: Valve players Try, rules Try, app-id check on; Unreal 2 mutators-and-rules
    # Enforce, players Try; Minecraft host name "gamedig", protocol version -1) and what into_extra gives back
    for h, pv, gp, gr, ck in itertools.product(["-", "6d63", "-e"], ["-", "47", "-1", "2147483647", "-2147483648"], "-ste", "-ste", "-TF"):
        k += 1
        cid = f"s{k}"
        hh = "-" if h == "-" else ("" if h == "-e" else h)
        harg = "-" if h == "-" else (hh or "-")  # an empty host name cannot be told from an omitted one on the case line
        if h == "-e":
            continue
        cases.append(f"{cid} extra-conv E{harg}:{pv}:{gp}:{gr}:{ck}")
        vp, vr, vc = (gp if gp != "-" else "t"), (gr if gr != "-" else "t"), (ck if ck != "-" else "T")
        ur, up = (gr if gr != "-" else "e"), (gp if gp != "-" else "t")
        mh = "x" + (hh if h != "-" else b"gamedig".hex())
        mpv = pv if pv != "-" else "-1"
        xh = "-" if h == "-" else "x" + hh
        exp[cid] = (f"X {xh}:{pv}:{gp}:{gr}:{ck} | valve {vp}{vr}{vc} u2 {ur}{up} mc {mh}/{mpv} | "
                    f"vx -:-:{vp}:{vr}:{vc} ux -:-:{up}:{ur}:-")
    flag_sets = list(itertools.product(FLAGS, repeat=3))
    if tier == "quick":
        flag_sets = rnd.sample(flag_sets, 250) + [("_", "_", "_"), ("0", "_", "_"), ("_", "0", "_"), ("_", "_", "0")]

    def flag_val(f):
        """what a flag value means: None = parse error, else seconds"""
        if f == "_":
            return 4
        t = f[1:] if f.startswith("+") else f
        if not t.isdigit() or not t.isascii():
            return None
        v = int(t)
        return v if v <= UMAX else None

    for c, r, w in flag_sets:
        for nflag in (["_", "0", str(UMAX), "x"] if tier == "thorough" else [rnd.choice(["_", "0", "3", str(UMAX), "x", str(UMAX + 1)])]):
            k += 1
            cid = f"s{k}"
            cases.append(f"{cid} settings-clap {'_' if c == '_' else hexs(c)} {'_' if r == '_' else hexs(r)} {'_' if w == '_' else hexs(w)} {'_' if nflag == '_' else hexs(nflag)}")
            vals = [flag_val(x) for x in (c, r, w)]
            nv = flag_val(nflag) if nflag != "_" else 0
            if any(v is None or v == 0 for v in vals) or nv is None:
                exp[cid] = "ERR InvalidInput"
            else:
                exp[cid] = f"OK c+{vals[0]}:0 r+{vals[1]}:0 w+{vals[2]}:0 n{nv} SOCK OK "
    cases.append("sdef settings-default")
    exp["sdef"] = "OK c+4:0 r+4:0 w+4:0 n0 SOCK OK "
    # extreme retry counts on one answered query per family
    base_want = {}
    for fam, d in netprops.FAMILIES.items():
        if "retries" not in d or d.get("nargs", 0) <= d["retries"]:
            continue  # entries without a retry argument (pure codec suites)
        cand = [x for x in netprops.valid_cases(fam, seed + 18, 12) if not x.notwf]
        # an exchange in which some retry loop runs out of attempts lasts (retries + 1) timeouts: with the largest
        # count that is 2^64 of them, by request, not a panic.  Keep the exchanges whose course does not depend on
        # the count: same model trace with r and r + 1 retries means no loop was exhausted.
        probe = []
        for i, v in enumerate(cand):
            for j in (0, 1):
                c = v.case()
                c.args[d["retries"]] = str(int(c.args[d["retries"]]) + j)
                probe.append(c.line(f"p{i}_{j}"))
        pm = vlib.run_model(probe)
        cand = [v for i, v in enumerate(cand) if pm.get(f"p{i}_0") is not None and pm.get(f"p{i}_0") == pm.get(f"p{i}_1")]
        for v in cand[:6]:
            for n in (UMAX, UMAX - 1):
                c = v.case()
                c.args[d["retries"]] = str(n)
                cid = f"{v.id}r{n % 7}"
                cases.append(c.line(cid))
                base_want[cid] = v.want

    # extreme accepted durations on answered queries of every family (single-datagram, split, multi-packet, challenged …
    # whatever the generator produces): a computation made with a duration (a deadline, a product) must not panic
    TDS = [f"{UMAX}:0,{UMAX}:0,{UMAX}:0", "0:1,0:1,0:1", f"{UMAX}:999999999,-,0:1", f"-,{UMAX}:0,-", f"0:1,{UMAX}:0,{UMAX}:999999999"]
    for fam, d in netprops.FAMILIES.items():
        if "retries" not in d or d.get("nargs", 0) <= d["retries"]:
            continue
        # (scripted sockets only: on the loopback HTTP entries a nanosecond is a real deadline — they follow below)
        vs = [x for x in netprops.valid_cases(fam, seed + 18, 60 if tier == "quick" else 400) if not x.notwf and not x.line.split(" ")[1].startswith("eco_http")]
        # the largest exchanges first (split / multi-packet replies), then the rest
        vs.sort(key=lambda x: -len(x.line))
        for i, v in enumerate(vs[: (10 if tier == "quick" else 80)]):
            c = v.case()
            c.opts = c.opts + ["td=" + TDS[i % len(TDS)]]
            cid = f"{v.id}td{i % len(TDS)}"
            cases.append(c.line(cid))
            base_want[cid] = v.want
            rep.count("extreme-durations:" + fam)

    # the largest retry counts where an attempt actually FAILS before the server answers (a lost first reply, a failed first
    # send), through the definition-driven generic query of every protocol — also the protocols that never retry: whatever a
    # query computes from the count after a failure must not overflow
    import importlib
    from props import dispatch_cases
    import netcases as _nc
    for fam in dispatch_cases.ARMS:
        if fam not in netprops.FAMILIES:
            continue
        d = netprops.FAMILIES[fam]
        fmod = importlib.import_module("props.families." + fam)
        vs = [x for x in netprops.valid_cases(fam, seed + 18, 60) if not x.notwf and x.want.startswith("OK")]
        if hasattr(fmod, "c10_eligible"):
            vs = [x for x in vs if fmod.c10_eligible(x)]
        for bi, v in enumerate(vs[: (2 if tier == "quick" else 12)]):
            for vec in ("SV", "FV"):
                if hasattr(fmod, "c10_build"):
                    line = fmod.c10_build(v, fmod.c10_units(v)[0], vec, 1, "x")
                    c = _nc.Case(line, d["nargs"])
                else:
                    c = v.case()
                    # (one socket, no silence of its own: with the largest retry count a server that stays silent is
                    # legitimately asked again for ever)
                    if len(c.script) != 1 or c.script[0] == "X" or any(d is None for d in c.script[0]):
                        continue
                    if vec == "SV":
                        c.script[0] = [None] + c.script[0]
                    else:
                        c.opts = [o for o in c.opts if not o.startswith("f=")] + ["f=1"]
                for n in (UMAX, UMAX - 1):
                    if "retries" in d:
                        c.args[d["retries"]] = "0"
                    dl = dispatch_cases.retarget(fam, c, f"{v.id}rx{vec}{n % 10}", k=1)
                    if dl is None:
                        continue
                    toks = dl.split(" ")
                    toks[4] = str(n)          # <id> dispatch <game> <port> <retries> <extra> …
                    cases.append(" ".join(toks))
                    rep.count("extreme-retries-after-a-failure:" + fam)

    # extra REQUEST settings of every size on answered queries: host names around every length the handshake encodes specially
    # (127/128, 255/256, 16383/16384 bytes, tens of kilobytes), made of 1-, 2-, 3- and 4-byte characters so that every such
    # byte offset falls inside a character for some of them; protocol versions at the i32 limits
    for fam in ("mcjava", "mcauto"):
        if fam not in netprops.FAMILIES:
            continue
        vs = [x for x in netprops.valid_cases(fam, seed + 18, 80 if tier == "quick" else 400) if not x.notwf and x.want.startswith("OK")]
        hosts = []
        for ch in ("a", "é", "€", "😀"):
            w = len(ch.encode())
            for target in (127, 128, 255, 256, 257, 16383, 16384, 40000):
                for lead in range(w):
                    hosts.append("x" * lead + ch * ((target - lead) // w + 1))
        for i, host in enumerate(hosts if tier == "thorough" else hosts[:: 2]):
            if not vs:
                break
            v = vs[i % len(vs)]
            c = v.case()
            c.args[2] = host.encode().hex()
            c.args[1] = ["-1", "2147483647", "-2147483648", "0", "760"][i % 5]
            cid = f"{v.id}hn{i}"
            cases.append(c.line(cid))
            rep.count("extreme-request-settings:" + fam)

    # the HTTP client (Eco) with the extreme durations, against a loopback HTTP server that answers: the client must not
    # compute anything with them that can overflow (implementation only; the HTTP client is a parameter of the model)
    http_lines, http_want = [], {}
    ecov = [v for v in netprops.valid_cases("eco", seed + 18, 30) if not v.notwf and v.want.startswith("OK") and v.line.split(" ")[1] == "eco"]
    # (durations a loopback exchange cannot exceed: huge ones, none, a few seconds)
    for i, td in enumerate([TDS[0], TDS[3], f"{UMAX}:0,{UMAX}:0,5:0", f"{UMAX}:0,5:0,{UMAX}:999999999", f"5:0,{UMAX}:999999999,{UMAX}:0",
                            f"{UMAX}:999999999,{UMAX}:999999999,{UMAX}:999999999", f"-,{UMAX}:0,{UMAX}:0", f"{UMAX // 2 + 1}:0,{UMAX // 2 + 1}:0,-"]):
        if not ecov:
            break
        v = ecov[i % len(ecov)]
        c = v.case()
        cid = f"{v.id}htd{i}"
        http_lines.append(f"{cid} eco_http {c.args[0]} {c.args[1]} {c.fmt_script()} td={td}")
        http_want[cid] = v.want

    def oracle(case, impl, model, panic):
        out = netprops.crash_oracle(case, impl, model, panic)
        cid = case.split(" ", 1)[0]
        if out:
            return out
        if cid in exp and impl != exp[cid]:
            sig = "zero-accepted" if exp[cid].startswith("ERR") else "settings-mangled"
            out.append((f"{sig}:{case.split(' ')[1]}", f"{case}: expected {exp[cid]!r} got {impl!r}"))
        if cid in base_want and vlib.result_of(impl) != base_want[cid]:
            out.append(("retries-extreme", f"result with an extreme retry count differs: {vlib.result_of(impl)[:120]}"))
        return out

    vlib.correspond(rep, [l for l in netprops.corpus("C18") if not httpplan.is_http(l) and not sockplan.is_sock(l)] + cases, oracle=oracle, tag="c18")
    himpl, hpanics = vlib.run_impl(http_lines, tag="c18h") if http_lines else ({}, {})
    for l in http_lines:
        cid = l.split(" ", 1)[0]
        out = himpl.get(cid, "")
        rep.seen(l[:200], out[:200])
        rep.count("extreme-durations:http")
        bad = netprops.crash_oracle(l, out, out, hpanics.get(cid, ""))
        if bad:
            rep.oracle_failures += [(sg, d, l[:2000], out[:300]) for sg, d in bad]
        elif vlib.result_of(out) != http_want[cid]:
            rep.oracle_failures.append(("extreme-durations:http-result", f"result differs with extreme durations: {out[:160]}", l[:2000], out[:300]))
    # the HTTP client inside the model: durations of every magnitude (1 ns write, u64::MAX s + 999999999 ns, none, mixed, no settings)
    # against a listener that answers, eco / get_json / get, both families: model = implementation, result = the document served
    for o in httpplan.run(rep, httpplan.gen("httpdur", seed + 18, 51 if tier == "quick" else 255) + [l for l in netprops.corpus("C18") if httpplan.is_http(l)],
                          "c18hp", count="extreme-durations:http-plan"):
        httpplan.c18_oracle(rep, o)
    # the flags of the real command-line tool (its timeout group is an Option: present iff one of its flags occurs): zero in every
    # spelling and malformed values end with a usage error, accepted values reach the library unchanged, omitted ones as 4 s / 0
    cliplan.run(rep, cliplan.gen_c18(seed + 18, tier), count="cli-flags")
    # ---- accepted nanosecond / microsecond read timeouts on a REAL socket whose datagrams are already queued when the receive
    # starts — from the peer and from a stranger (another port): whatever a receive computes from the time that has passed,
    # it must not panic; it returns a datagram or the receive-class error
    seq_lines = []
    for fam in ("v4", "v6"):
        for ns in (1, 1000, 999999, 50000000):
            for j in range(2 if tier == "quick" else 10):
                steps = ",".join(f"{rnd.choice([0, 10, 100, 1400])}:{rnd.choice(['-', '16', '2048'])}:{rnd.choice('msss')}" for _ in range(rnd.choice([2, 4])))
                seq_lines.append(f"sq{fam}{ns}_{j} realseq {fam} {ns} {steps}")
    simpl, spanics = vlib.run_impl(seq_lines, tag="c18s")
    for l in seq_lines:
        cid = l.split(" ", 1)[0]
        out = simpl.get(cid, "")
        rep.seen(l, out)
        rep.count("tiny-timeouts-on-real-sockets")
        bad = netprops.crash_oracle(l, out, out, spanics.get(cid, ""))
        if not bad and (not out.startswith(("OK ", "ERR ")) or any(not (x.endswith("/T") or x.startswith("E")) for x in out[3:].split(",") if out.startswith("OK "))):
            bad.append(("tiny-timeout:receive", f"a receive returned neither a datagram that was sent nor an error: {out[:160]}"))
        rep.oracle_failures += [(sg, d, l, out[:300]) for sg, d in bad]
    # socket.rs inside the model: UdpSocketImpl / TcpSocketImpl themselves on real loopback sockets with extreme accepted durations
    # (u64::MAX s + 999999999 ns, none, 1 ns, no settings), peers that answer / refuse: no panic, and the model's outcome wherever it
    # cannot depend on scheduling
    sockplan.run(rep, sockplan.gen_c18(tier) + [l for l in netprops.corpus("C18") if sockplan.is_sock(l)], "c18sk",
                 oracles=(sockplan.c18_failures,), count="extreme-durations:sock")
    rep.extra_cov["exhaustive"] = True
    rep.extra_cov["explanation"] = "the new/serde matrices are enumerated completely in both tiers; the flag matrix completely in the thorough tier"
