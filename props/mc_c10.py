"""C10 hooks shared by the Minecraft families (not a family module itself): each family has ONE retried unit — the whole
exchange on its socket (Java: handshake + status request + ping + read; Bedrock / legacy: ping + read)."""


def eligible(valid):
    """bases: single-connection cases whose fault-free run succeeds"""
    c = valid.case()
    return valid.want.startswith("OK") and not valid.notwf and len(c.script) == 1 and c.script[0] != "X" and len(c.script[0]) == 1


def build(family, nsends):
    """nsends = requests per attempt; a send fault (F) hits the FIRST request of an attempt, which ends the attempt"""
    def c10_build(valid, unit, v, r, new_id):
        c = valid.case()
        reply = c.script[0][0]
        newds, faults = [], []
        for e in v:
            if e == "S":
                newds.append(None)
                faults += [False] * nsends
            elif e == "F":
                faults.append(True)
            elif e == "M":
                newds.append(b"\xff\xff")
                faults += [False] * nsends
            else:
                newds.append(reply)
                faults += [False] * nsends
        c.script = [newds]
        c.args[family["retries"]] = str(r)
        c.opts = [o for o in c.opts if not o.startswith("f=")] + ["f=" + "".join("1" if f else "0" for f in faults)]
        return c.line(new_id)
    return c10_build


def attempts(valid, unit, sends, clean):
    """attempts seen on the wire = how often the first request of the exchange went out (failed sends included)"""
    first = valid.sent()[0]
    return sum(1 for (_, _, data, _) in sends if data == first)
