"""Re-targets a family's case line at the definition-driven dispatch:
`<id> dispatch <game id> <port|-> <retries|-> <extra|-> <script> [opts]` (lean/GdVerif/Run/Dispatch.lean, harness/src/dispatch.rs).
One game per arm of games/query.rs; the family's own arguments become the dispatch's: port (given, or omitted when it is the
game's default), retry count (timeout settings, or none when 0), gathering / request settings (extra settings)."""
import vlib
from props import netprops

# family -> (case arguments -> (game id, its default port, extra settings argument))
ARMS = {
    "gs1": lambda a: ("battlefield1942", 23000, "-"),
    "gs2": lambda a: ("hce", 2302, "-"),
    "gs3": lambda a: ("crysiswars", 64100, "-"),
    "quake": lambda a: ({"1": ("quake1", 27500), "2": ("quake2", 27910), "3": ("q3a", 27960)}[a[1]] + ("-",)),
    # unreal2 <port> <mutators-and-rules toggle, players toggle> <retries>
    "unreal2": lambda a: ("unrealtournament2004", 7778, f"E-:-:{a[1][1]}:{a[1][0]}:-"),
    "savage2": lambda a: ("savage2", 11235, "-"),
    "theship": lambda a: ("theship", 27015, "-"),
    "ffow": lambda a: ("ffow", 5478, "-"),
    "jc2m": lambda a: ("jc2m", 7777, "-"),
    "mindustry": lambda a: ("mindustry", 6567, "-"),
    # mcjava / mcauto <port> <protocol version> <host name hex> <retries>
    "mcjava": lambda a: ("minecraftjava", 25565, f"E{a[2] or '-'}:{a[1]}:-:-:-"),
    "mcauto": lambda a: ("minecraft", 25565, f"E{a[2] or '-'}:{a[1]}:-:-:-"),
    "mcbedrock": lambda a: ("minecraftbedrock", 19132, "-"),
    "mclegacy": lambda a: ({"16": ("minecraftlegacy16", 25565), "14": ("minecraftlegacy14", 25565),
                            "b18": ("minecraftlegacyb18", 25565)}.get(a[1], (None, 0)) + ("-",)),
}
# the Valve arm: the generator is run for the game's engine and gathering settings (as props/c14.py does)
VALVE_GAMES = [("teamfortress2", 27015, "S:440", "ttT"), ("counterstrike", 27015, "G:0", "ttT"), ("aapg", 27020, "S:203290", "esT")]


def retarget(fam, case, new_id, k=0):
    """the dispatch line for a family's case (a netcases.Case), or None when the family has no arm"""
    f = ARMS.get(fam)
    if f is None:
        return None
    d = netprops.FAMILIES[fam]
    game, default, extra = f(case.args)
    # an explicitly EMPTY host name ("-" on a family line) has no spelling in the extra-settings argument, where "-" means
    # "not given" (the default host name): such cases are not retargeted
    if game is None or (extra.startswith("E") and extra[1] in ":-" and fam in ("mcjava", "mcauto") and case.args[2] in ("", "-")):
        return None
    if extra.startswith("E") and extra[1] == ":":
        return None
    port, retries = case.args[d["port"]], case.args[d["retries"]]
    if int(port) == default and k % 2 == 0:
        port = "-"
    if retries == "0" and k % 3 == 0:
        retries = "-"
    return " ".join([new_id, "dispatch", game, port, retries, extra, case.fmt_script()] + case.opts)


def valve_lines(seed, n):
    """(game id, netcases.Case of a `valve` line generated for that game's engine and settings)"""
    out = []
    for game, default, engine, gather in VALVE_GAMES:
        for raw in vlib.model_gen("valvefor", seed, n, extra=[engine, gather]):
            out.append((game, default, netprops.Valid(raw, "valve").case()))
    return out


def retarget_valve(game, default, case, new_id, k=0):
    d = netprops.FAMILIES["valve"]
    port, retries = case.args[d["port"]], case.args[d["retries"]]
    if k % 2 == 0:
        port = "-"
    if retries == "0" and k % 3 == 0:
        retries = "-"
    return " ".join([new_id, "dispatch", game, port, retries, "-", case.fmt_script()] + case.opts)
