"""Translator of the glue of games/query.rs (part of tools/xlate.py; `gen_arms` is called on every run).

Reads, from the repository's current sources,
  * games/query.rs: the nested `match &game.protocol` of `query_with_timeout_and_extra_settings`, one ARM per leaf
    (composed pattern, callee, one term per argument), the `let`s before it, and the two wrappers `query` /
    `query_with_timeout`;
  * the signature of every callee (to know the parameter types the arguments are converted to);
  * the conversion impls `impl From<ExtraRequestSettings> for T`, the `default()` / `Default` of every such `T`, the
    `into_extra` helpers (protocols/valve|unreal2/types.rs, games/minecraft|eco/types.rs);
  * the `game_query_fn!` macro bodies of protocols/{valve,gamespy,quake,unreal2}/mod.rs and the `game!` macro's default
    request settings (games/definitions.rs)
and writes lean/GdVerif/Gen/Arms.lean (data over the vocabulary of Proto/ArmsTm.lean) and .work/arms.json (canonical
text of every arm, for the evidence).

A source shape outside the vocabulary raises ArmError: the translator reports it and FAILS; it never guesses.  In that
case Gen/Arms.lean is written with EMPTY tables, so the theorems of Props/C14_arms.lean stop checking as well."""
import json, os, re


class ArmError(Exception):
    pass


# --------------------------------------------------------------------------- a small Rust expression parser

TOKEN = re.compile(r"""
    (?P<ws>\s+|//[^\n]*|/\*.*?\*/)
  | (?P<str>b?"(?:[^"\\]|\\.)*")
  | (?P<chr>b?'(?:[^'\\]|\\.)')
  | (?P<num>\d[\d_]*(?:u8|u16|u32|u64|usize|i8|i16|i32|i64|isize)?)
  | (?P<id>\$?[A-Za-z_]\w*)
  | (?P<p>::|=>|->|\.\.|\|\||&&|==|!=|<=|>=|[#\[\](){}<>,;:.&*?|=!+\-/@'])
""", re.X | re.S)


def tokenize(src):
    out, i = [], 0
    while i < len(src):
        m = TOKEN.match(src, i)
        if not m:
            raise ArmError(f"cannot tokenize at `{src[i:i + 30]}`")
        i = m.end()
        if m.lastgroup == "ws":
            continue
        out.append((m.lastgroup, m.group(m.lastgroup)))
    return out


class P:
    """recursive descent over a token list; ASTs are tuples (see the module docstring of the translation below)"""

    def __init__(self, toks, what):
        self.t, self.i, self.what = toks, 0, what

    def peek(self, k=0):
        return self.t[self.i + k] if self.i + k < len(self.t) else ("eof", "")

    def at(self, v, k=0):
        return self.peek(k)[1] == v and self.peek(k)[0] in ("p", "id")

    def next(self):
        tok = self.peek()
        self.i += 1
        return tok

    def expect(self, v):
        if not self.at(v):
            raise ArmError(f"{self.what}: expected `{v}`, found `{self.peek()[1]}` (token {self.i})")
        return self.next()

    def ident(self):
        k, v = self.next()
        if k != "id":
            raise ArmError(f"{self.what}: expected an identifier, found `{v}`")
        return v

    # ---- expressions
    def expr(self, nostruct=False):
        if self.at("&"):
            self.next()
            if self.at("mut"):
                raise ArmError(f"{self.what}: `&mut` is outside the vocabulary")
            return ("ref", self.expr(nostruct))
        if self.at("&&"):
            self.next()
            return ("ref", ("ref", self.expr(nostruct)))
        if self.at("*"):
            self.next()
            return ("deref", self.expr(nostruct))
        if self.at("-"):
            self.next()
            e = self.expr(nostruct)
            if e[0] != "int":
                raise ArmError(f"{self.what}: unary minus on something that is not an integer literal")
            return ("int", -e[1])
        if self.at("||"):
            self.next()
            return ("closure", [], self.expr(nostruct))
        if self.at("|"):
            self.next()
            params = []
            while not self.at("|"):
                params.append(self.ident())
                if self.at(","):
                    self.next()
            self.next()
            return ("closure", params, self.expr(nostruct))
        return self.postfix(nostruct)

    def args(self):
        self.expect("(")
        out = []
        while not self.at(")"):
            out.append(self.expr())
            if self.at(","):
                self.next()
            elif not self.at(")"):
                raise ArmError(f"{self.what}: expected `,` or `)` in an argument list, found `{self.peek()[1]}`")
        self.next()
        return out

    def postfix(self, nostruct):
        e = self.primary(nostruct)
        while True:
            if self.at("."):
                self.next()
                name = self.ident()
                if self.at("::"):
                    raise ArmError(f"{self.what}: turbofish on `.{name}` is outside the vocabulary")
                if self.at("("):
                    e = ("mcall", e, name, self.args())
                else:
                    e = ("field", e, name)
            elif self.at("("):
                e = ("call", e, self.args())
            elif self.at("?"):
                self.next()
                e = ("try", e)
            else:
                return e

    def path(self):
        segs = [self.ident()]
        while self.at("::"):
            self.next()
            if self.at("<"):
                raise ArmError(f"{self.what}: generic arguments in a path are outside the vocabulary")
            segs.append(self.ident())
        return segs

    def primary(self, nostruct):
        k, v = self.peek()
        if k == "num":
            self.next()
            return ("int", int(re.sub(r"[a-z_]\w*$", "", v.replace("_", "")) or "0"))
        if k == "chr":
            raise ArmError(f"{self.what}: character literal {v} is outside the vocabulary")
        if k == "str":
            self.next()
            if v.startswith("b"):
                raise ArmError(f"{self.what}: byte string literal outside the vocabulary")
            return ("strlit", v[1:-1])
        if self.at("("):
            self.next()
            e = self.expr()
            self.expect(")")
            return e
        if self.at("{"):
            return self.block()
        if self.at("match"):
            self.next()
            scrut = self.expr(nostruct=True)
            self.expect("{")
            arms = []
            while not self.at("}"):
                attrs = []
                while self.at("#"):
                    attrs.append(self.attr())
                pat = self.expr(nostruct=True)
                if self.at("|") or self.at("if"):
                    raise ArmError(f"{self.what}: or-patterns / match guards are outside the vocabulary")
                self.expect("=>")
                body = self.expr()
                if self.at(","):
                    self.next()
                arms.append((attrs, pat, body))
            self.next()
            return ("match", scrut, arms)
        if k == "id":
            if v in ("if", "while", "loop", "for", "return", "unsafe", "move", "let"):
                raise ArmError(f"{self.what}: `{v}` is outside the vocabulary")
            if v in ("true", "false"):
                self.next()
                return ("bool", v == "true")
            segs = self.path()
            if self.at("!"):
                raise ArmError(f"{self.what}: macro invocation `{'::'.join(segs)}!` is outside the vocabulary")
            if self.at("{") and not nostruct:
                self.next()
                fields, base = [], None
                while not self.at("}"):
                    if self.at(".."):
                        self.next()
                        base = self.expr()
                    else:
                        f = self.ident()
                        if self.at(":"):
                            self.next()
                            fields.append((f, self.expr()))
                        else:
                            fields.append((f, ("path", [f])))
                    if self.at(","):
                        self.next()
                self.next()
                return ("struct", segs, fields, base)
            return ("path", segs)
        raise ArmError(f"{self.what}: unexpected `{v}`")

    def attr(self):
        self.expect("#")
        self.expect("[")
        depth, txt = 1, []
        while depth:
            k, v = self.next()
            if k == "eof":
                raise ArmError(f"{self.what}: unterminated attribute")
            depth += v == "["
            depth -= v == "]"
            if depth:
                txt.append(v)
        return re.sub(r"\s*([(),=])\s*", r"\1", " ".join(txt)).replace(",", ", ").replace("=", " = ")

    def block(self):
        self.expect("{")
        stmts, tail = [], None
        while not self.at("}"):
            if self.at("let"):
                self.next()
                if self.at("mut"):
                    raise ArmError(f"{self.what}: `let mut` is outside the vocabulary")
                name = self.ident()
                if self.at(":"):
                    raise ArmError(f"{self.what}: a type annotation on `let {name}` is outside the vocabulary")
                self.expect("=")
                e = self.expr()
                self.expect(";")
                stmts.append((name, e))
            else:
                e = self.expr()
                if self.at(";"):
                    raise ArmError(f"{self.what}: an expression statement is outside the vocabulary")
                tail = e
                if not self.at("}"):
                    raise ArmError(f"{self.what}: something follows the tail expression of a block")
        self.next()
        if tail is None:
            raise ArmError(f"{self.what}: a block without a tail expression")
        return ("block", stmts, tail)


def show(e):
    """canonical source text of an AST"""
    k = e[0]
    if k == "ref":
        return "&" + show(e[1])
    if k == "deref":
        return "*" + show(e[1])
    if k == "int":
        return str(e[1])
    if k == "bool":
        return "true" if e[1] else "false"
    if k == "strlit":
        return '"' + e[1] + '"'
    if k == "closure":
        return ("||" if not e[1] else "|" + ", ".join(e[1]) + "|") + " " + show(e[2])
    if k == "mcall":
        return f"{show(e[1])}.{e[2]}({', '.join(show(a) for a in e[3])})"
    if k == "field":
        return f"{show(e[1])}.{e[2]}"
    if k == "call":
        return f"{show(e[1])}({', '.join(show(a) for a in e[2])})"
    if k == "try":
        return show(e[1]) + "?"
    if k == "path":
        return "::".join(e[1])
    if k == "struct":
        inner = [f"{f}: {show(v)}" for f, v in e[2]] + ([".." + show(e[3])] if e[3] is not None else [])
        return "::".join(e[1]) + " { " + ", ".join(inner) + " }"
    if k == "block":
        return "{ " + " ".join(f"let {n} = {show(v)};" for n, v in e[1]) + (" " if e[1] else "") + show(e[2]) + " }"
    if k == "match":
        return f"match {show(e[1])} {{ " + ", ".join(
            "".join(f"#[{a}] " for a in attrs) + f"{show(p)} => {show(b)}" for attrs, p, b in e[2]) + " }"
    raise ArmError(f"cannot print {k}")


# --------------------------------------------------------------------------- reading items of a source file

def balanced(s, start, open_c, close_c):
    depth = 0
    for i in range(start, len(s)):
        if s[i] == open_c:
            depth += 1
        elif s[i] == close_c:
            depth -= 1
            if depth == 0:
                return s[start:i + 1]
    raise ArmError("unbalanced brackets")


def split_top(s, sep=","):
    out, depth, cur = [], 0, ""
    for c in s:
        if c in "(<[{":
            depth += 1
        elif c in ")>]}":
            depth -= 1
        if c == sep and depth == 0:
            out.append(cur)
            cur = ""
        else:
            cur += c
    if cur.strip():
        out.append(cur)
    return [x.strip() for x in out]


def strip_attrs(text):
    """a text without its `#[…]` attributes"""
    out, i = [], 0
    while i < len(text):
        if text.startswith("#[", i):
            i += 1 + len(balanced(text, i + 1, "[", "]"))
        else:
            out.append(text[i])
            i += 1
    return "".join(out)


def strip_macros(src):
    """a source text without its `macro_rules! name { … }` definitions"""
    while True:
        m = re.search(r"macro_rules!\s*\w+\s*\{", src)
        if not m:
            return src
        src = src[:m.start()] + src[m.end() - 1 + len(balanced(src, m.end() - 1, "{", "}")):]


def fn_items(src):
    """[(name, [(param, type)], return type, body text)] of every `fn` of a source text (macro bodies included)"""
    out = []
    for m in re.finditer(r"\bfn\s+(\w+)\s*\(", src):
        params = balanced(src, m.end() - 1, "(", ")")
        j = m.end() - 1 + len(params)
        k = src.find("{", j)
        semi = src.find(";", j)
        if k < 0 or (0 <= semi < k):
            continue
        ret = src[j:k].strip()
        body = balanced(src, k, "{", "}")
        ps = []
        for p in split_top(params[1:-1]):
            if not p:
                continue
            if ":" not in p:
                ps.append((p.replace(" ", ""), ""))   # self
            else:
                n, t = p.split(":", 1)
                ps.append((n.strip(), re.sub(r"\s+", "", t)))
        out.append((m.group(1), ps, re.sub(r"\s+", " ", ret), body, m.start()))
    return out


def the_fn(src, name, what):
    fs = [f for f in fn_items(src) if f[0] == name]
    if len(fs) != 1:
        raise ArmError(f"{what}: expected exactly one `fn {name}`, found {len(fs)}")
    return fs[0]


def parse_block_text(text, what):
    p = P(tokenize(text), what)
    b = p.block()
    if p.peek()[0] != "eof":
        raise ArmError(f"{what}: trailing tokens after the body")
    return b


# --------------------------------------------------------------------------- vocabulary

VARS = {"address": "address", "port": "port", "timeout_settings": "timeoutSettings", "extra_settings": "extraSettings",
        "game": "game", "socket_addr": "socketAddr", "engine": "engine", "group": "group", "value": "value",
        "default": "default", "self": "self_", "request_settings": "requestSettings",
        "$default_port": "mDefaultPort", "$engine": "mEngine", "$gathering_settings": "mGatheringSettings"}
FIELDS = {"default_port": "defaultPort", "request_settings": "requestSettings", "protocol": "protocol", "hostname": "hostname",
          "protocol_version": "protocolVersion", "gather_players": "gatherPlayers", "gather_rules": "gatherRules",
          "check_app_id": "checkAppId", "players": "players", "rules": "rules", "mutators_and_rules": "mutatorsAndRules"}
# qualified struct type -> (Lean constructor of Ty, file of its definition and impls)
TYS = {"ExtraRequestSettings": ("extra", "protocols/types.rs"),
       "valve::GatheringSettings": ("valveGather", "protocols/valve/types.rs"),
       "unreal2::GatheringSettings": ("unreal2Gather", "protocols/unreal2/types.rs"),
       "minecraft::RequestSettings": ("mcRequestSettings", "games/minecraft/types.rs"),
       "eco::EcoRequestSettings": ("ecoRequestSettings", "games/eco/types.rs")}
# how a bare struct name is qualified, by the directory of the file that mentions it
QUALIFY = [("protocols/valve/", "GatheringSettings", "valve::GatheringSettings"),
           ("protocols/unreal2/", "GatheringSettings", "unreal2::GatheringSettings"),
           ("games/minecraft/", "RequestSettings", "minecraft::RequestSettings"),
           ("games/eco/", "EcoRequestSettings", "eco::EcoRequestSettings")]
CTORS = {"Protocol::Valve": ("protocolValve", 1), "Protocol::Gamespy": ("protocolGamespy", 1), "Protocol::Quake": ("protocolQuake", 1),
         "Protocol::Unreal2": ("protocolUnreal2", 0), "Protocol::PROPRIETARY": ("protocolProprietary", 1),
         "Protocol::Epic": (None, 1),
         "GameSpyVersion::One": ("gsOne", 0), "GameSpyVersion::Two": ("gsTwo", 0), "GameSpyVersion::Three": ("gsThree", 0),
         "QuakeVersion::One": ("quakeOne", 0), "QuakeVersion::Two": ("quakeTwo", 0), "QuakeVersion::Three": ("quakeThree", 0),
         "ProprietaryProtocol::Savage2": ("propSavage2", 0), "ProprietaryProtocol::TheShip": ("propTheShip", 0),
         "ProprietaryProtocol::FFOW": ("propFfow", 0), "ProprietaryProtocol::JC2M": ("propJc2m", 0),
         "ProprietaryProtocol::Mindustry": ("propMindustry", 0), "ProprietaryProtocol::Minecraft": ("propMinecraft", 1),
         "ProprietaryProtocol::Eco": ("propEco", 0), "ProprietaryProtocol::Minetest": (None, 0),
         "Some": ("optSome", 1), "None": ("optNone", 0),
         "Server::Java": ("mcJava", 0), "Server::Bedrock": ("mcBedrock", 0), "Server::Legacy": ("mcLegacy", 1)}
# absolute path of a callee -> Lean constructor of Callee
CALLEES = {"protocols::valve::query": "valveQuery",
           "protocols::gamespy::one::query": "gs1Query", "protocols::gamespy::two::query": "gs2Query",
           "protocols::gamespy::three::query": "gs3Query",
           "protocols::quake::one::query": "quake1Query", "protocols::quake::two::query": "quake2Query",
           "protocols::quake::three::query": "quake3Query",
           "protocols::unreal2::query": "unreal2Query",
           "games::savage2::query_with_timeout": "savage2QueryWithTimeout", "games::theship::query_with_timeout": "theShipQueryWithTimeout",
           "games::ffow::query_with_timeout": "ffowQueryWithTimeout", "games::jc2m::query_with_timeout": "jc2mQueryWithTimeout",
           "games::mindustry::query": "mindustryQuery",
           "games::minecraft::protocol::query_java": "mcQueryJava", "games::minecraft::protocol::query_bedrock": "mcQueryBedrock",
           "games::minecraft::protocol::query_legacy_specific": "mcQueryLegacySpecific", "games::minecraft::protocol::query": "mcQueryAuto",
           "games::eco::query_with_timeout_and_extra_settings": "ecoQuery",
           "games::eco::query_with_timeout": "ecoQueryWithTimeout",
           "games::query::query_with_timeout_and_extra_settings": "generic"}
TOGGLES = {"Skip": "skip", "Try": "try_", "Enforce": "enforce"}
# features the harness builds the library with (harness/Cargo.toml) plus the library's defaults
ENABLED_FEATURES = {"serde", "clap", "games", "services", "game_defs"}
DISABLED_FEATURES = {"tls"}


class Ctx:
    """what the translation of one function body needs"""

    def __init__(self, X, rel, types, self_ty=None):
        self.X, self.rel, self.types, self.self_ty = X, rel, dict(types), self_ty
        self.bound = {}      # closure parameter -> number

    def child(self, **kw):
        c = Ctx(self.X, self.rel, self.types, self.self_ty)
        c.bound = dict(self.bound)
        for k, v in kw.items():
            setattr(c, k, v)
        return c


def qualify(ty, rel):
    """qualify the struct names of a type text by the file that mentions it"""
    for prefix, bare, q in QUALIFY:
        if rel.startswith(prefix):
            ty = re.sub(r"(?<![\w:])%s\b" % bare, q, ty)
    return ty


def opt_inner(t):
    m = re.fullmatch(r"Option<(.*)>", t or "")
    return m.group(1) if m else None


def lean_ty(t, what):
    if t not in TYS:
        raise ArmError(f"{what}: type `{t}` is not one of the struct types of the vocabulary {sorted(TYS)}")
    return TYS[t][0]


STRUCT_FIELDS = {}


def struct_fields(X, qname):
    """field name -> type of a struct of the vocabulary (and of `Game`), read from its definition"""
    if qname in STRUCT_FIELDS:
        return STRUCT_FIELDS[qname]
    rel = "games/types.rs" if qname == "Game" else TYS[qname][1]
    bare = qname.split("::")[-1]
    src = X.csrc(rel)
    m = re.search(r"\bpub\s+struct\s+%s\s*\{" % bare, src)
    if not m:
        raise ArmError(f"struct {bare}: definition not found in {rel}")
    body = balanced(src, m.end() - 1, "{", "}")[1:-1]
    body = strip_attrs(body)
    out = {}
    for item in split_top(body):
        fm = re.fullmatch(r"(?:pub(?:\([a-z]+\))?\s+)?(\w+)\s*:\s*(.+)", item.strip(), re.S)
        if not fm:
            raise ArmError(f"struct {bare}: field `{item.strip()[:40]}` not understood")
        out[fm.group(1)] = qualify(re.sub(r"\s+", "", fm.group(2)), rel)
    derives = " ".join(re.findall(r"#\[derive\(([^)]*)\)\]\s*(?:#\[[^\]]*\]\s*)*pub\s+struct\s+%s\b" % bare, src))
    STRUCT_FIELDS[qname] = out
    STRUCT_FIELDS[qname + "#derives"] = [d.strip() for d in derives.split(",")]
    return out


def type_of(e, cx):
    """type of an expression, as far as the translation needs it (None = unknown)"""
    k = e[0]
    if k == "path" and len(e[1]) == 1:
        return cx.types.get(e[1][0])
    if k == "ref":
        t = type_of(e[1], cx)
        return "&" + t if t else None
    if k == "deref":
        t = type_of(e[1], cx)
        return t[1:] if t and t.startswith("&") else None
    if k == "mcall" and e[2] == "clone" and not e[3]:
        t = type_of(e[1], cx)
        return t.lstrip("&") if t else None
    if k == "field":
        t = type_of(e[1], cx)
        if not t:
            return None
        t = t.lstrip("&")
        if t == "Game" or t in TYS:
            return struct_fields(cx.X, t).get(e[2])
    return None


def tr(e, exp, cx, what):
    """AST -> term of the vocabulary (a tuple tree rendered by `lean_tm`); `exp` = expected type text or None"""
    k = e[0]
    if k == "ref":
        return tr(e[1], exp[1:] if exp and exp.startswith("&") else exp, cx, what)
    if k == "deref":
        return tr(e[1], exp, cx, what)
    if k == "mcall" and e[2] == "clone" and not e[3]:
        return tr(e[1], exp, cx, what)
    if k == "int":
        return ("int", e[1])
    if k == "bool":
        return ("bool", e[1])
    if k == "path":
        segs = e[1]
        if len(segs) == 1:
            v = segs[0]
            if v in cx.bound:
                return ("var", f"(.bound {cx.bound[v]})")
            if v == "None":
                return ("none_",)
            if v in VARS and v in cx.types:
                return ("var", "." + VARS[v])
            raise ArmError(f"{what}: `{v}` is not a variable in scope of the vocabulary")
        if segs[-2:-1] == ["GatherToggle"] and segs[-1] in TOGGLES:
            return ("tog", TOGGLES[segs[-1]])
        raise ArmError(f"{what}: path `{'::'.join(segs)}` is outside the vocabulary")
    if k == "field":
        if e[2] not in FIELDS:
            raise ArmError(f"{what}: field `.{e[2]}` is outside the vocabulary")
        t = type_of(e[1], cx)
        if t is not None and (t.lstrip("&") == "Game" or t.lstrip("&") in TYS) and e[2] not in struct_fields(cx.X, t.lstrip("&")):
            raise ArmError(f"{what}: `{t.lstrip('&')}` has no field `{e[2]}`")
        return ("field", tr(e[1], None, cx, what), FIELDS[e[2]])
    if k == "call" and e[1][0] == "path":
        segs, args = e[1][1], e[2]
        name = "::".join(segs)
        if name == "Some" and len(args) == 1:
            return ("some_", tr(args[0], opt_inner(exp), cx, what))
        if name == "Option::from" and len(args) == 1:
            t = type_of(args[0], cx)
            if t is None:
                raise ArmError(f"{what}: `Option::from({show(args[0])})`: the type of the argument is not known to the translator")
            if t.startswith("Option<"):
                return tr(args[0], exp, cx, what)
            return ("some_", tr(args[0], opt_inner(exp), cx, what))
        if segs[-2:] == ["SocketAddr", "new"] and len(args) == 2:
            return ("sockAddr", tr(args[0], "IpAddr", cx, what), tr(args[1], "u16", cx, what))
        if segs[-1] == "default" and not args and len(segs) >= 2:
            return ("defaultOf", lean_ty(resolve_struct(segs[:-1], cx, what), what))
        if segs[-1] == "from" and len(args) == 1 and len(segs) >= 2:
            return ("into", tr(args[0], "ExtraRequestSettings", cx, what), conv_target(resolve_struct(segs[:-1], cx, what), cx, what))
        if name in ("String::from",) and len(args) == 1 and args[0][0] == "strlit":
            return ("str", rust_str_bytes(args[0][1], what))
        raise ArmError(f"{what}: call of `{name}` with {len(args)} argument(s) is outside the vocabulary")
    if k == "mcall":
        recv, m, args = e[1], e[2], e[3]
        if m in ("to_string", "to_owned", "into") and not args and recv[0] == "strlit":
            return ("str", rust_str_bytes(recv[1], what))
        if m == "map" and len(args) == 1:
            f = args[0]
            if f[0] == "path" and f[1][-1] in ("into", "from") and len(f[1]) >= 2:
                if f[1][-1] == "into" and f[1][:-1] not in (["ExtraRequestSettings"], ["Into"]):
                    raise ArmError(f"{what}: `.map({show(f)})` is outside the vocabulary")
                if f[1][-1] == "from":
                    target = resolve_struct(f[1][:-1], cx, what)
                else:
                    target = opt_inner(exp)
                    if target is None:
                        raise ArmError(f"{what}: `.map({show(f)})`: the target type is not fixed by the context (expected `{exp}`)")
                rt = type_of(recv, cx)
                return ("mapInto", tr(recv, "Option<ExtraRequestSettings>", cx, what), conv_target(target, cx, what))
            if f[0] == "closure" and len(f[1]) == 1:
                c2 = cx.child()
                n = len(c2.bound)
                c2.bound[f[1][0]] = n
                rt = opt_inner(type_of(recv, cx) or "")
                if rt:
                    c2.types[f[1][0]] = rt
                return ("mapFn", tr(recv, None, cx, what), n, tr(f[2], opt_inner(exp), c2, what))
            raise ArmError(f"{what}: `.map({show(f)})` is outside the vocabulary")
        if m == "into" and not args:
            if exp is None:
                raise ArmError(f"{what}: `.into()`: the target type is not fixed by the context")
            return ("into", tr(recv, "ExtraRequestSettings", cx, what), conv_target(exp, cx, what))
        if m == "or" and len(args) == 1:
            return ("or_", tr(recv, exp, cx, what), tr(args[0], exp, cx, what))
        if m == "or_else" and len(args) == 1 and args[0][0] == "closure" and not args[0][1]:
            return ("orElse", tr(recv, exp, cx, what), tr(args[0][2], exp, cx, what))
        if m == "unwrap_or" and len(args) == 1:
            return ("unwrapOr", tr(recv, f"Option<{exp}>" if exp else None, cx, what), tr(args[0], exp, cx, what))
        if m == "unwrap_or_default" and not args:
            if exp is None or exp not in TYS:
                raise ArmError(f"{what}: `.unwrap_or_default()` at type `{exp}` is outside the vocabulary")
            return ("unwrapOrDefault", tr(recv, f"Option<{exp}>", cx, what), lean_ty(exp, what))
        raise ArmError(f"{what}: method `.{m}` with {len(args)} argument(s) is outside the vocabulary")
    if k == "struct":
        q = resolve_struct(e[1], cx, what)
        fields = struct_fields(cx.X, q)
        items = []
        for f, v in e[2]:
            if f not in fields or f not in FIELDS:
                raise ArmError(f"{what}: `{q}` has no field `{f}` in the vocabulary")
            items.append((FIELDS[f], tr(v, fields[f], cx, what)))
        if e[3] is None:
            if sorted(f for f, _ in e[2]) != sorted(fields):
                raise ArmError(f"{what}: struct literal of `{q}` gives {sorted(f for f, _ in e[2])}, the struct has {sorted(fields)}")
            return ("struct", lean_ty(q, what), items)
        return ("update", lean_ty(q, what), items, tr(e[3], q, cx, what))
    if k == "block":
        c2 = cx.child()
        binds = []
        for name, v in e[1]:
            if name not in VARS:
                raise ArmError(f"{what}: `let {name}` binds a name outside the vocabulary")
            t = tr(v, None, c2, what)
            vt = type_of(v, c2)
            if v[0] == "call" and v[1][0] == "path" and v[1][1][-1] == "default":
                vt = resolve_struct(v[1][1][:-1], c2, what)
            c2.types[name] = vt or "?"
            binds.append((VARS[name], t))
        out = tr(e[2], exp, c2, what)
        for name, t in reversed(binds):
            out = ("letIn", "." + name, t, out)
        return out
    raise ArmError(f"{what}: `{show(e)[:80]}` is outside the vocabulary")


def resolve_struct(segs, cx, what):
    """a path naming a struct type -> its qualified name"""
    if segs == ["Self"]:
        if cx.self_ty is None:
            raise ArmError(f"{what}: `Self` outside an impl")
        return cx.self_ty
    name = "::".join(segs[-2:]) if len(segs) >= 2 and "::".join(segs[-2:]) in TYS else qualify(segs[-1], cx.rel)
    if name not in TYS:
        raise ArmError(f"{what}: `{'::'.join(segs)}` does not name a struct type of the vocabulary")
    return name


def conv_target(q, cx, what):
    q = q.lstrip("&")
    if q not in TYS or q == "ExtraRequestSettings":
        raise ArmError(f"{what}: no `From<ExtraRequestSettings>` target `{q}` in the vocabulary")
    cx.X.need_conv.add(q)
    return TYS[q][0]


def rust_str_bytes(body, what):
    if "\\" in body:
        raise ArmError(f"{what}: escape in a string literal")
    return list(body.encode("utf-8"))


# --------------------------------------------------------------------------- rendering

def lean_tm(t):
    k = t[0]
    if k == "var":
        return f"(.var {t[1]})"
    if k == "field":
        return f"(.field {lean_tm(t[1])} .{t[2]})"
    if k == "some_":
        return f"(.some_ {lean_tm(t[1])})"
    if k == "none_":
        return ".none_"
    if k in ("mapInto", "into"):
        return f"(.{k} {lean_tm(t[1])} .{t[2]})"
    if k == "mapFn":
        return f"(.mapFn {lean_tm(t[1])} {t[2]} {lean_tm(t[3])})"
    if k in ("or_", "orElse", "unwrapOr", "sockAddr"):
        return f"(.{k} {lean_tm(t[1])} {lean_tm(t[2])})"
    if k == "unwrapOrDefault":
        return f"(.unwrapOrDefault {lean_tm(t[1])} .{t[2]})"
    if k == "defaultOf":
        return f"(.defaultOf .{t[1]})"
    if k == "struct":
        return f"(.struct .{t[1]} {lean_fields(t[2])})"
    if k == "update":
        return f"(.update .{t[1]} {lean_fields(t[2])} {lean_tm(t[3])})"
    if k == "tog":
        return f"(.tog .{t[1]})"
    if k == "bool":
        return f"(.bool {'true' if t[1] else 'false'})"
    if k == "int":
        return f"(.int ({t[1]}))"
    if k == "str":
        return f"(.str [{', '.join(str(b) for b in t[1])}])"
    if k == "letIn":
        return f"(.letIn {t[1]} {lean_tm(t[2])} {lean_tm(t[3])})"
    raise ArmError(f"cannot render {k}")


def lean_fields(items):
    out = ".nil"
    for f, v in reversed(items):
        out = f"(.cons .{f} {lean_tm(v)} {out})"
    return out


def lean_pat(p):
    if p[0] == "wild":
        return ".wild"
    if p[0] == "bind":
        return f"(.bind .{p[1]})"
    if p[0] == "ctor0":
        return f"(.ctor0 .{p[1]})"
    return f"(.ctor1 .{p[1]} {lean_pat(p[2])})"


def lean_string(s):
    return '"' + s.replace("\\", "\\\\").replace('"', '\\"') + '"'


# --------------------------------------------------------------------------- the translation proper

class X:
    """one run: access to the sources"""

    def __init__(self, src_dir, csrc):
        self.src_dir, self._csrc = src_dir, csrc
        self.need_conv = set()

    def csrc(self, rel):
        return self._csrc(rel)

    def exists(self, rel):
        return os.path.exists(os.path.join(self.src_dir, rel))


def use_map(src):
    """name -> absolute module path, from the `use crate::…;` declarations of a file (cfg attributes ignored: a name is
    resolved the same way whenever it exists)"""
    out = {}
    for m in re.finditer(r"\buse\s+crate::([^;]+);", src):
        def walk(prefix, text):
            text = text.strip()
            bm = re.fullmatch(r"((?:\w+::)*)\{(.*)\}", text, re.S)
            if bm:
                for part in split_top(bm.group(2)):
                    walk(prefix + [s for s in bm.group(1).split("::") if s], part)
            else:
                segs = [s for s in text.split("::") if s]
                out[segs[-1]] = prefix + segs
        walk([], m.group(1))
    return out


def module_file(X_, segs):
    """file of the module `crate::segs`"""
    base = "/".join(segs)
    for cand in (base + "/mod.rs", base + ".rs"):
        if X_.exists(cand):
            return cand
    # a module re-exported by its parent (`pub use protocols::*;` of protocols/gamespy/mod.rs)
    if len(segs) >= 2:
        parent = module_file(X_, segs[:-1])
        if parent:
            psrc = X_.csrc(parent)
            for gm in re.finditer(r"\bpub\s+use\s+(\w+)::\*\s*;", psrc):
                cand = module_file(X_, segs[:-1] + [gm.group(1), segs[-1]])
                if cand:
                    return cand
    return None


def find_fn(X_, segs, what):
    """(file, fn item) of the function `crate::segs`"""
    mf = module_file(X_, segs[:-1])
    if mf is None:
        raise ArmError(f"{what}: module `{'::'.join(segs[:-1])}` not found")
    seen, todo = set(), [mf]
    while todo:
        f = todo.pop(0)
        if f in seen:
            continue
        seen.add(f)
        src = strip_macros(X_.csrc(f))
        # top-level items only (methods of an `impl` are indented)
        tops = {m.end() for m in re.finditer(r"^pub\s+(?:const\s+)?(?=fn\s+%s\b)" % segs[-1], src, re.M)}
        hits = [it for it in fn_items(src) if it[0] == segs[-1] and it[4] in tops]
        if len(hits) == 1:
            return f, hits[0]
        if len(hits) > 1:
            raise ArmError(f"{what}: several `fn {segs[-1]}` in {f}")
        d = os.path.dirname(f)
        for gm in re.finditer(r"\bpub\s+use\s+(\w+)::\*\s*;", src):
            for cand in (f"{d}/{gm.group(1)}.rs", f"{d}/{gm.group(1)}/mod.rs"):
                if X_.exists(cand):
                    todo.append(cand)
    raise ArmError(f"{what}: `pub fn {segs[-1]}` not found under `{'::'.join(segs[:-1])}`")


def cfg_state(attr, what):
    """'on' / 'off' of a `cfg(…)` attribute under the harness's feature set"""
    m = re.fullmatch(r"cfg\((.*)\)", attr.replace(" ", ""))
    if not m:
        raise ArmError(f"{what}: attribute `#[{attr}]` on a match arm is outside the vocabulary")

    def ev(t):
        fm = re.fullmatch(r'feature="(\w+)"', t)
        if fm:
            if fm.group(1) in DISABLED_FEATURES:
                return False
            if fm.group(1) in ENABLED_FEATURES:
                return True
            raise ArmError(f"{what}: feature `{fm.group(1)}` is not known to the translator")
        am = re.fullmatch(r"(all|any|not)\((.*)\)", t)
        if am:
            vals = [ev(x) for x in split_top(am.group(2))]
            return all(vals) if am.group(1) == "all" else any(vals) if am.group(1) == "any" else not vals[0]
        raise ArmError(f"{what}: cfg predicate `{t}` is outside the vocabulary")
    return "on" if ev(m.group(1)) else "off"


def pat_of(e, what, allow_unknown=False):
    """pattern AST (parsed as an expression) -> pattern term"""
    if e[0] == "ref":
        return pat_of(e[1], what, allow_unknown)
    if e[0] == "path":
        segs = e[1]
        if len(segs) == 1 and segs[0] == "_":
            return ("wild",)
        if len(segs) == 1 and segs[0][0].islower():
            return ("bind", segs[0])
        key = segs[-1] if segs[-1] in ("None",) else "::".join(segs[-2:])
        if key not in CTORS or CTORS[key][1] != 0:
            raise ArmError(f"{what}: pattern `{'::'.join(segs)}` is not a unit variant of the vocabulary")
        if CTORS[key][0] is None and not allow_unknown:
            raise ArmError(f"{what}: variant `{key}` has no model (it is expected behind a disabled feature only)")
        return ("ctor0", CTORS[key][0] or key)
    if e[0] == "call" and e[1][0] == "path" and len(e[2]) == 1:
        segs = e[1][1]
        key = segs[-1] if segs[-1] in ("Some",) else "::".join(segs[-2:])
        if key not in CTORS or CTORS[key][1] != 1:
            raise ArmError(f"{what}: pattern `{'::'.join(segs)}(…)` is not a one-field variant of the vocabulary")
        if CTORS[key][0] is None and not allow_unknown:
            raise ArmError(f"{what}: variant `{key}` has no model (it is expected behind a disabled feature only)")
        return ("ctor1", CTORS[key][0] or key, pat_of(e[2][0], what, allow_unknown))
    raise ArmError(f"{what}: pattern `{show(e)}` is outside the vocabulary")


def binders(p):
    if p[0] == "bind":
        return [p[1]]
    if p[0] == "ctor1":
        return binders(p[2])
    return []


def subst(p, v, q):
    if p[0] == "bind" and p[1] == v:
        return q
    if p[0] == "ctor1":
        return ("ctor1", p[1], subst(p[2], v, q))
    return p


def unblock(e):
    while e[0] == "block" and not e[1]:
        e = e[2]
    return e


def flatten(match, what):
    """leaves of a nested match: [(attrs, composed pattern, composed pattern source, leaf body)]"""
    out = []
    for attrs, pat_src, body in match[2]:
        state = [cfg_state(a, what) for a in attrs]
        off = "off" in state
        pat = pat_of(pat_src, what, allow_unknown=off)
        body = unblock(body)
        if body[0] == "match":
            sc = body[1]
            if sc[0] != "path" or len(sc[1]) != 1 or binders(pat) != [sc[1][0]]:
                raise ArmError(f"{what}: inner `match {show(sc)}` does not scrutinise exactly the variable its enclosing pattern `{show(pat_src)}` binds")
            for a2, p2, p2src, b2 in flatten(body, what):
                out.append((attrs + a2, subst(pat, sc[1][0], p2), show(pat_src).replace(sc[1][0], p2src, 1) if False else compose_src(pat_src, sc[1][0], p2src), b2))
        else:
            out.append((attrs, pat, show(pat_src), body))
    return out


def compose_src(pat_src, var, inner_text):
    return re.sub(r"\b%s\b" % re.escape(var), lambda _: inner_text, show(pat_src), count=1)


BIND_VARS = {"engine": ("engine", "&Engine"), "group": ("group", "&LegacyGroup")}


def gen_arms_data(X_):
    what = "games/query.rs"
    src = X_.csrc(what)
    uses = use_map(src)
    name, params, ret, body_text, _ = the_fn(src, "query_with_timeout_and_extra_settings", what)
    want = [("game", "&Game"), ("address", "&IpAddr"), ("port", "Option<u16>"), ("timeout_settings", "Option<TimeoutSettings>"),
            ("extra_settings", "Option<ExtraRequestSettings>")]
    if params != want:
        raise ArmError(f"{what}: parameters of query_with_timeout_and_extra_settings are {params}, expected {want}")
    body = parse_block_text(body_text, what)
    cx = Ctx(X_, what, dict(want))
    lets = []
    for lname, v in body[1]:
        if lname not in VARS:
            raise ArmError(f"{what}: `let {lname}` binds a name outside the vocabulary")
        t = tr(v, None, cx, f"{what}: let {lname}")
        if t[0] != "sockAddr":
            raise ArmError(f"{what}: `let {lname} = {show(v)}` is not a `SocketAddr::new(…)`")
        cx.types[lname] = "SocketAddr"
        lets.append((lname, t, show(v)))
    tail = body[2]
    if not (tail[0] == "call" and tail[1] == ("path", ["Ok"]) and len(tail[2]) == 1 and tail[2][0][0] == "match"):
        raise ArmError(f"{what}: the body does not end in `Ok(match … {{ … }})`")
    m = tail[2][0]
    if show(m[1]) != "&game.protocol":
        raise ArmError(f"{what}: the match scrutinises `{show(m[1])}`, expected `&game.protocol`")
    arms, skipped = [], []
    for attrs, pat, pat_text, leaf in flatten(m, what):
        text = "".join(f"#[{a}] " for a in attrs) + f"{pat_text} => {show(leaf)}"
        if any(cfg_state(a, what) == "off" for a in attrs):
            skipped.append(dict(cfg="; ".join(attrs), text=text))
            continue
        w = f"{what}: arm `{pat_text}`"
        if not (leaf[0] == "try" and leaf[1][0] == "mcall" and leaf[1][2] == "map" and [show(a) for a in leaf[1][3]] == ["Box::new"]
                and leaf[1][1][0] == "call" and leaf[1][1][1][0] == "path"):
            raise ArmError(f"{w}: the body is not `<callee>(…).map(Box::new)?`: `{show(leaf)[:100]}`")
        call = leaf[1][1]
        arms.append(translate_call(X_, cx, uses, call, pat, pat_text, text, lets, w))
    # the two wrappers
    wrappers = []
    for wname, wparams in (("query", want[:3]), ("query_with_timeout", want[:4])):
        _, ps, _, btext, _ = the_fn(src, wname, what)
        if ps != wparams:
            raise ArmError(f"{what}: parameters of {wname} are {ps}, expected {wparams}")
        b = unblock(parse_block_text(btext, f"{what}: fn {wname}"))
        if not (b[0] == "call" and b[1][0] == "path"):
            raise ArmError(f"{what}: fn {wname}: the body is not one call")
        wcx = Ctx(X_, what, dict(wparams))
        a = translate_call(X_, wcx, dict(uses, query_with_timeout_and_extra_settings=["games", "query", "query_with_timeout_and_extra_settings"]),
                           b, ("wild",), "_", f"fn {wname} => {show(b)}", [], f"{what}: fn {wname}")
        wrappers.append(dict(name=wname, callee=a["callee"], args=a["args"], text=a["text"]))
    return arms, skipped, wrappers


def translate_call(X_, cx, uses, call, pat, pat_text, text, lets, w):
    segs = call[1][1]
    if segs[0] not in uses:
        raise ArmError(f"{w}: `{segs[0]}` of the callee `{'::'.join(segs)}` is not imported by a `use crate::…`")
    absolute = uses[segs[0]] + segs[1:]
    key = "::".join(absolute)
    if key not in CALLEES:
        raise ArmError(f"{w}: callee `{key}` is not one of the functions of the vocabulary")
    cfile, (_, cparams, _, _, _) = find_fn(X_, absolute, w)
    if len(cparams) != len(call[2]):
        raise ArmError(f"{w}: `{key}` takes {len(cparams)} arguments, the call gives {len(call[2])}")
    c2 = cx.child()
    for b in binders(pat):
        if b not in BIND_VARS:
            raise ArmError(f"{w}: the pattern binds `{b}`, a name outside the vocabulary")
        c2.types[b] = BIND_VARS[b][1]
    args = []
    for (pn, pt), a in zip(cparams, call[2]):
        args.append(tr(a, qualify(pt, cfile), c2, f"{w}: argument `{pn}` of `{key}`"))
    return dict(pat=rename_binds(pat), callee=CALLEES[key], path=key, file=cfile, params=[f"{n}: {qualify(t, cfile)}" for n, t in cparams],
                lets=[(VARS[n], t) for n, t, _ in lets], let_texts=[f"let {n} = {s};" for n, _, s in lets], args=args,
                arg_texts=[show(a) for a in call[2]], text=text, pattern=pat_text)


def rename_binds(p):
    if p[0] == "bind":
        return ("bind", VARS[p[1]])
    if p[0] == "ctor1":
        return ("ctor1", p[1], rename_binds(p[2]))
    return p


def impl_blocks(src, header_re):
    for m in re.finditer(header_re, src):
        yield m, balanced(src, src.find("{", m.end() - 1), "{", "}")


def gen_convs(X_):
    """(convs, defaults, into_extras): bodies of `impl From<ExtraRequestSettings> for T`, of `T::default()` and of
    `T::into_extra(self)`, for every struct type of the vocabulary"""
    convs, defaults, into_extras = [], [], []
    for q, (lname, rel) in TYS.items():
        src = X_.csrc(rel)
        bare = q.split("::")[-1]
        fields = struct_fields(X_, q)
        # ---- Default
        inherent = None
        for m, blk in impl_blocks(src, r"\bimpl\s+%s\s*\{" % bare):
            for it in fn_items(blk):
                if it[0] == "default" and not it[1]:
                    inherent = it
        trait = None
        for m, blk in impl_blocks(src, r"\bimpl\s+Default\s+for\s+%s\s*\{" % bare):
            for it in fn_items(blk):
                if it[0] == "default":
                    trait = it
        w = f"{rel}: {bare}::default"
        cx = Ctx(X_, rel, {}, self_ty=q)
        dterm, dtext = None, None
        if trait is not None:
            b = unblock(parse_block_text(trait[3], w))
            if show(b) == "Self::default()":
                if inherent is None:
                    raise ArmError(f"{w}: `impl Default` calls `Self::default()` but there is no inherent `default`")
            else:
                if inherent is not None:
                    raise ArmError(f"{w}: both an inherent `default()` and an `impl Default` with its own body: which one a call means is outside the vocabulary")
                dterm, dtext = tr(b, q, cx, w), show(b)
        if inherent is not None:
            b = unblock(parse_block_text(inherent[3], w))
            dterm, dtext = tr(b, q, cx, w), show(b)
            if trait is None:
                raise ArmError(f"{w}: an inherent `default()` without `impl Default` (what `unwrap_or_default` means is outside the vocabulary)")
        if dterm is None:
            if "Default" not in STRUCT_FIELDS[q + "#derives"]:
                raise ArmError(f"{w}: no `default()`, no `impl Default`, no `derive(Default)`")
            items = []
            for f, t in fields.items():
                if not t.startswith("Option<"):
                    raise ArmError(f"{w}: derived `Default` of field `{f}: {t}` is outside the vocabulary")
                items.append((FIELDS[f], ("none_",)))
            dterm, dtext = ("struct", lname, items), "#[derive(Default)] " + ", ".join(f"{f}: None" for f in fields)
        defaults.append(dict(ty=lname, name=q, term=dterm, text=dtext))
        if q == "ExtraRequestSettings":
            continue
        # ---- From<ExtraRequestSettings>
        hits = list(impl_blocks(src, r"\bimpl\s+From<ExtraRequestSettings>\s+for\s+%s\s*\{" % bare))
        w = f"{rel}: impl From<ExtraRequestSettings> for {bare}"
        if len(hits) != 1:
            raise ArmError(f"{w}: expected exactly one, found {len(hits)}")
        its = [it for it in fn_items(hits[0][1]) if it[0] == "from"]
        if len(its) != 1 or its[0][1] != [("value", "ExtraRequestSettings")]:
            raise ArmError(f"{w}: expected `fn from(value: ExtraRequestSettings)`")
        b = parse_block_text(its[0][3], w)
        cx = Ctx(X_, rel, {"value": "ExtraRequestSettings"}, self_ty=q)
        convs.append(dict(ty=lname, name=q, term=tr(b, q, cx, w), text=show(b)))
        # ---- into_extra
        for m, blk in impl_blocks(src, r"\bimpl\s+%s\s*\{" % bare):
            for it in fn_items(blk):
                if it[0] == "into_extra":
                    w = f"{rel}: {bare}::into_extra"
                    if it[1] != [("self", "")]:
                        raise ArmError(f"{w}: expected `fn into_extra(self)`")
                    b = parse_block_text(it[3], w)
                    cx = Ctx(X_, rel, {"self": q}, self_ty=q)
                    into_extras.append(dict(ty=lname, name=q, term=tr(b, "ExtraRequestSettings", cx, w), text=show(b)))
    return convs, defaults, into_extras


def gen_mod_arms(X_):
    """the `@gen` rule of every `game_query_fn!`: the call it expands to, over the macro's parameters"""
    out = []
    for fam, rel, versions in (("valve", "protocols/valve/mod.rs", [None]), ("gamespy", "protocols/gamespy/mod.rs", ["one", "two", "three"]),
                               ("quake", "protocols/quake/mod.rs", ["one", "two", "three"]), ("unreal2", "protocols/unreal2/mod.rs", [None])):
        src = X_.csrc(rel)
        w = f"{rel}: game_query_fn!"
        m = re.search(r"macro_rules!\s*game_query_fn\s*\{", src)
        if not m:
            raise ArmError(f"{w}: not found")
        blk = balanced(src, m.end() - 1, "{", "}")
        gens = [g for g in re.finditer(r"\(@gen\s+([^)]*)\)\s*=>\s*\{", blk)]
        if len(gens) != 1:
            raise ArmError(f"{w}: expected exactly one `@gen` rule, found {len(gens)}")
        mparams = [p.strip().split(":")[0].strip() for p in split_top(gens[0].group(1))]
        rule = balanced(blk, gens[0].end() - 1, "{", "}")
        its = [it for it in fn_items(rule) if it[0] == "query"]
        if len(its) != 1:
            raise ArmError(f"{w}: the `@gen` rule does not define exactly one `fn query`")
        _, ps, ret, btext, _ = its[0]
        if ps != [("address", "&std::net::IpAddr"), ("port", "Option<u16>")]:
            raise ArmError(f"{w}: parameters of the generated `query` are {ps}")
        for ver in versions:
            vtext = btext
            vparam = next((p for p in mparams if p in ("$gamespy_ver", "$quake_ver")), None)
            if ver is not None:
                if vparam is None:
                    raise ArmError(f"{w}: no version parameter among {mparams}")
                vtext = vtext.replace(vparam, ver)
            b = parse_block_text(vtext, w)
            post = None
            types = {"address": "&IpAddr", "port": "Option<u16>"}
            for p in mparams:
                if p in VARS:
                    types[p] = {"$default_port": "u16", "$engine": "Engine", "$gathering_settings": "valve::GatheringSettings"}[p]
            cx = Ctx(X_, rel, types)
            if b[1]:
                # let valve_response = <call>?; Ok(Response::new_from_valve_response(valve_response))
                if len(b[1]) != 1 or b[1][0][1][0] != "try" or show(b[2]) != f"Ok(crate::protocols::valve::game::Response::new_from_valve_response({b[1][0][0]}))":
                    raise ArmError(f"{w}: body `{show(b)[:120]}` is outside the vocabulary")
                call, post = b[1][0][1][1], "new_from_valve_response"
            else:
                call = b[2]
            if not (call[0] == "call" and call[1][0] == "path" and call[1][1][0] == "crate"):
                raise ArmError(f"{w}: the body is not a call of a `crate::…` path")
            uses = {"crate": []}
            a = translate_call(X_, cx, uses, call, ("wild",), "_", f"{fam}::game_query_fn!({', '.join(p for p in mparams if p != '$doc')})"
                               + (f" [{vparam} = {ver}]" if ver else "") + f" => {show(b)}", [], w)
            a.update(family=fam, version=ver, post=post)
            out.append(a)
    # the `game!` macro's default request settings
    dsrc = X_.csrc("games/definitions.rs")
    m = re.search(r"macro_rules!\s*game\s*\{", dsrc)
    if not m:
        raise ArmError("games/definitions.rs: macro game! not found")
    blk = balanced(dsrc, m.end() - 1, "{", "}")
    rules = re.findall(r"\(([^)]*)\)\s*=>\s*\{", blk)
    dm = re.search(r"game!\(\s*\$name,\s*\$default_port,\s*\$protocol,\s*([^;]*?)\s*\)\s*\}?\s*;", blk)
    if len(rules) != 2 or not dm:
        raise ArmError("games/definitions.rs: macro game!: expected a 3-parameter rule delegating to the 4-parameter rule")
    e = P(tokenize(dm.group(1)), "game! default request settings").expr()
    if not (e[0] == "mcall" and e[2] == "into_extra" and not e[3]):
        raise ArmError(f"games/definitions.rs: macro game!: default request settings `{show(e)}` are not `<settings>.into_extra()`")
    uses_d = re.search(r"use\s+crate::protocols::\{[^}]*valve::GatheringSettings", dsrc) or re.search(r"valve::\{?[^;]*GatheringSettings", dsrc)
    if not uses_d:
        raise ArmError("games/definitions.rs: `GatheringSettings` is not imported from protocols::valve")
    cx = Ctx(X_, "protocols/valve/types.rs", {})
    game_default = dict(term=tr(e[1], "valve::GatheringSettings", cx, "game! default request settings"), text=show(e))
    return out, game_default


def gen_valve_mod_default(X_):
    """the gathering settings `valve::game_query_mod!` gives a module that names none (its 4-parameter rule)"""
    rel = "protocols/valve/mod.rs"
    src = X_.csrc(rel)
    m = re.search(r"macro_rules!\s*game_query_mod\s*\{", src)
    if not m:
        raise ArmError(f"{rel}: macro game_query_mod! not found")
    blk = balanced(src, m.end() - 1, "{", "}")
    dm = re.search(r"game_query_mod!\(\s*\$mod_name,\s*\$pretty_name,\s*\$engine,\s*\$default_port,\s*([^;]*?)\s*\)\s*;", blk)
    if len(re.findall(r"\(\$mod_name:\s*ident,[^)]*\)\s*=>", blk)) != 2 or not dm:
        raise ArmError(f"{rel}: macro game_query_mod!: expected a 4-parameter rule delegating to the 5-parameter rule")
    e = P(tokenize(dm.group(1)), "game_query_mod! default gathering settings").expr()
    return dict(term=tr(e, "valve::GatheringSettings", Ctx(X_, rel, {}), "game_query_mod! default gathering settings"), text=show(e))


def gen_hand_wrappers(X_):
    """`query(address, port)` of the hand-written modules savage2 / theship / ffow / jc2m / eco (and eco's
    `query_with_timeout`): bodies that are one call of the module's fuller function"""
    out = []
    for mod, fns in (("savage2", ["query"]), ("theship", ["query"]), ("ffow", ["query"]), ("jc2m", ["query"]),
                     ("eco", ["query", "query_with_timeout"])):
        rel = f"games/{mod}/protocol.rs"
        src = strip_macros(X_.csrc(rel))
        for fn in fns:
            w = f"{rel}: fn {fn}"
            _, ps, _, btext, _ = the_fn(src, fn, w)
            want = [("address", "&IpAddr"), ("port", "Option<u16>")] + ([("timeout_settings", "&Option<TimeoutSettings>")] if fn == "query_with_timeout" else [])
            if ps != want:
                raise ArmError(f"{w}: parameters are {ps}, expected {want}")
            b = unblock(parse_block_text(btext, w))
            if not (b[0] == "call" and b[1][0] == "path" and len(b[1][1]) == 1):
                raise ArmError(f"{w}: the body is not one call of a function of the same module: `{show(b)[:100]}`")
            callee = b[1][1][0]
            a = translate_call(X_, Ctx(X_, rel, dict(want)), {callee: ["games", mod, callee]}, b, ("wild",), "_",
                               f"games::{mod}::{fn} => {show(b)}", [], w)
            out.append(dict(module=mod, name=fn, callee=a["callee"], path=a["path"], args=a["args"], text=a["text"]))
    return out


def gen_arms(V, src_dir, gen_dir, csrc, write_if_changed):
    """writes Gen/Arms.lean and .work/arms.json; returns the list of errors (empty = translated)"""
    X_ = X(src_dir, csrc)
    errors = []
    arms, skipped, wrappers, convs, defaults, into_extras, mod_arms, game_default = [], [], [], [], [], [], [], None
    mod_default, hand = None, []
    try:
        arms, skipped, wrappers = gen_arms_data(X_)
        convs, defaults, into_extras = gen_convs(X_)
        mod_arms, game_default = gen_mod_arms(X_)
        mod_default = gen_valve_mod_default(X_)
        hand = gen_hand_wrappers(X_)
        missing = X_.need_conv - {c["name"] for c in convs}
        if missing:
            raise ArmError(f"conversions used by an arm but not found: {sorted(missing)}")
    except ArmError as e:
        errors.append(f"arms: {e}")
    except Exception as e:   # a translator defect must not pass silently either
        errors.append(f"arms: translator error {type(e).__name__}: {e}")
    if errors:
        arms, skipped, wrappers, convs, defaults, into_extras, mod_arms, game_default = [], [], [], [], [], [], [], None
        mod_default, hand = None, []
    L = ["/- GENERATED by tools/xlate.py (xlate_arms.gen_arms) from crates/lib/src on every run — do not edit.",
         "   games/query.rs: one `Arm` per leaf of the nested `match &game.protocol` of query_with_timeout_and_extra_settings",
         "   (composed pattern, callee, `let`s in scope, one term per argument), the two wrappers; the conversion impls",
         "   `From<ExtraRequestSettings> for T`, `T::default()`, `T::into_extra(self)`; the `game_query_fn!` bodies; the",
         "   `game!` macro's default request settings.  Vocabulary: Proto/ArmsTm.lean; semantics: Proto/ArmsSem.lean;",
         "   theorems: Props/C14_arms.lean.  When the translator meets a shape outside the vocabulary it fails and writes",
         "   EMPTY tables here. -/",
         "import GdVerif.Proto.ArmsTm", "namespace Gd.Gen.Arms", "open Gd.Arms", "",
         f"/-- the translator understood the sources -/", f"def translated : Bool := {'false' if errors else 'true'}", "",
         "def arms : List Arm := ["]
    items = []
    for a in arms:
        lets = "[" + ", ".join(f"(.{n}, {lean_tm(t)})" for n, t in a["lets"]) + "]"
        items.append(f"  -- {a['text']}\n  ⟨{lean_pat(a['pat'])}, .{a['callee']}, {lean_string(a['path'])},\n   {lets},\n   ["
                     + ",\n    ".join(lean_tm(t) for t in a["args"]) + f"],\n   {lean_string(a['text'])}⟩")
    L.append(",\n".join(items))
    L += ["]", "", "def skippedArms : List SkippedArm := ["]
    L.append(",\n".join(f"  ⟨{lean_string(s['cfg'])}, {lean_string(s['text'])}⟩" for s in skipped))
    L += ["]", "", "def wrappers : List Wrapper := ["]
    L.append(",\n".join(f"  ⟨{lean_string(w['name'])}, .{w['callee']}, [" + ", ".join(lean_tm(t) for t in w["args"]) + f"], {lean_string(w['text'])}⟩"
                        for w in wrappers))
    L += ["]", "", "/-- `impl From<ExtraRequestSettings> for T`: body of `from(value)` -/", "def convs : List (Ty × Tm) := ["]
    L.append(",\n".join(f"  -- {c['name']}: {c['text']}\n  (.{c['ty']}, {lean_tm(c['term'])})" for c in convs))
    L += ["]", "", "/-- `T::default()` (inherent and `Default`) -/", "def defaults : List (Ty × Tm) := ["]
    L.append(",\n".join(f"  -- {c['name']}: {c['text']}\n  (.{c['ty']}, {lean_tm(c['term'])})" for c in defaults))
    L += ["]", "", "/-- `T::into_extra(self)` -/", "def intoExtras : List (Ty × Tm) := ["]
    L.append(",\n".join(f"  -- {c['name']}: {c['text']}\n  (.{c['ty']}, {lean_tm(c['term'])})" for c in into_extras))
    L += ["]", "", "/-- the `@gen` rule of every `game_query_fn!` (family, version, callee, arguments over the macro's parameters,",
          "post-processing of the result) -/", "def modArms : List (String × Option String × Callee × List Tm × Option String) := ["]
    L.append(",\n".join(f"  -- {a['text']}\n  ({lean_string(a['family'])}, {'some ' + lean_string(a['version']) if a['version'] else 'none'}, .{a['callee']}, ["
                        + ", ".join(lean_tm(t) for t in a["args"]) + f"], {'some ' + lean_string(a['post']) if a['post'] else 'none'})" for a in mod_arms))
    L += ["]", "", "/-- the settings whose `into_extra()` the `game!` macro gives a definition that names none -/",
          f"-- {game_default['text']}" if game_default else "-- (not translated)",
          f"def gameDefaultSettings : Option Tm := {'some ' + lean_tm(game_default['term']) if game_default else 'none'}",
          "", "/-- the gathering settings `valve::game_query_mod!` gives a module that names none -/",
          f"-- {mod_default['text']}" if mod_default else "-- (not translated)",
          f"def valveModDefaultSettings : Option Tm := {'some ' + lean_tm(mod_default['term']) if mod_default else 'none'}",
          "", "/-- `query` of the hand-written modules (and eco's `query_with_timeout`): (module, function, callee, arguments) -/",
          "def handWrappers : List (String × String × Callee × List Tm) := [",
          ",\n".join(f"  -- {h['text']}\n  ({lean_string(h['module'])}, {lean_string(h['name'])}, .{h['callee']}, [" + ", ".join(lean_tm(t) for t in h["args"]) + "])"
                     for h in hand),
          "]",
          "", "end Gd.Gen.Arms", ""]
    write_if_changed(os.path.join(gen_dir, "Arms.lean"), "\n".join(L))
    os.makedirs(os.path.join(V, ".work"), exist_ok=True)

    def plain(a):
        return {k: v for k, v in a.items() if k in ("callee", "path", "file", "params", "let_texts", "arg_texts", "text", "pattern", "family", "version", "post", "name", "ty", "cfg")}
    json.dump(dict(translated=not errors, errors=errors, arms=[plain(a) for a in arms], skipped=skipped, wrappers=[plain(w) for w in wrappers],
                   convs=[plain(c) for c in convs], defaults=[plain(c) for c in defaults], into_extras=[plain(c) for c in into_extras],
                   mod_arms=[plain(a) for a in mod_arms], game_default=game_default["text"] if game_default else None,
                   valve_mod_default=mod_default["text"] if mod_default else None, hand_wrappers=[plain(h) for h in hand]),
              open(os.path.join(V, ".work", "arms.json"), "w"), indent=1)
    return errors
