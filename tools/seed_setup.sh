#!/bin/sh
# tools/seed_setup.sh <round> : one scratch worktree /tmp/seed<round>-Cxx per property with PROPERTY.txt (the
# property's text only) and AVOID.txt (one line per change already kept for it, so that the next author goes elsewhere)
set -e
R=$1
for P in $(python3 -c "
import json
for l in open('/verif/properties.jsonl'):
    print(json.loads(l)['id'])"); do
  W=/tmp/seed$R-$P
  [ -d $W ] && continue
  git -C /repo worktree add --detach $W HEAD >/dev/null 2>&1
  python3 - $P $W <<'PY'
import json, sys, glob
P, W = sys.argv[1], sys.argv[2]
for l in open('/verif/properties.jsonl'):
    d = json.loads(l)
    if d['id'] == P:
        open(W + '/PROPERTY.txt', 'w').write(json.dumps(d, indent=1, ensure_ascii=False) + "\n")
with open(W + '/AVOID.txt', 'w') as f:
    f.write("Changes already written for this property (do something in ANOTHER part of the code / of another kind):\n")
    for m in sorted(glob.glob(f'/verif/seeded/{P}-*/meta.json')):
        j = json.load(open(m))
        f.write("- " + j['summary'][:400].replace("\n", " ") + "\n")
PY
done
ls -d /tmp/seed$R-* | wc -l
