#!/usr/bin/env python3
"""tools/coverage.py [Cxx ...] — which lines of crates/lib/src do the quick checks' case streams reach?

Builds the harness a second time with the nightly toolchain and `-C instrument-coverage` (target directory
.work/cov-target, the registered checks are not affected), runs the quick tier of the given checks (default: all)
against that binary (`--no-build`: model, proofs and translator as they are), merges the profiles and writes
  .work/coverage/summary.txt   per-file line / region coverage of crates/lib/src
  .work/coverage/uncovered.txt the uncovered lines, file by file (tests, capture/, tls-only code excluded)
Not part of any registered check: it measures the generators (what the correspondence can see), so that blind
spots are found before a regression hides in one."""
import glob, json, os, re, subprocess, sys

VERIF = os.path.dirname(os.path.dirname(os.path.abspath(__file__)))
REPO = os.path.realpath(os.path.join(VERIF, "repo-link"))
WORK = os.path.join(VERIF, ".work")
COV = os.path.join(WORK, "coverage")
TARGET = os.path.join(WORK, "cov-target")
TOOLS = os.path.expanduser("~/.rustup/toolchains/nightly-x86_64-unknown-linux-gnu/lib/rustlib/x86_64-unknown-linux-gnu/bin")


def main():
    report_only = "--report-only" in sys.argv
    pids = [a for a in sys.argv[1:] if not a.startswith("--")] or ["C%02d" % i for i in range(1, 21)]
    os.makedirs(COV, exist_ok=True)
    if report_only:
        pids = []
    for f in glob.glob(os.path.join(COV, "*.profraw")):
        os.remove(f)
    env = dict(os.environ, CARGO_NET_OFFLINE="true", CARGO_TARGET_DIR=TARGET,
               RUSTFLAGS="--cfg gamedig_verif -C instrument-coverage",
               LLVM_PROFILE_FILE=os.path.join(COV, "build-%p-%m.profraw"))  # build scripts are instrumented too
    if not report_only:
        r = subprocess.run(["cargo", "+nightly", "build", "--offline"], cwd=os.path.join(VERIF, "harness"), env=env)
        if r.returncode != 0:
            sys.exit("instrumented build failed")
    binary = os.path.join(TARGET, "debug", "gdharness")
    env2 = dict(os.environ, VERIF_HARNESS_BIN=binary, LLVM_PROFILE_FILE=os.path.join(COV, "gd-%p-%m.profraw"))
    for pid in pids:
        p = subprocess.run([os.path.join(VERIF, "check"), pid, "--no-build"], cwd=VERIF, env=env2, stdout=subprocess.PIPE,
                           stderr=subprocess.STDOUT, text=True)
        print(pid, p.stdout.strip().split("\n")[-1][:160], flush=True)
    # evidence files were rewritten by runs against another binary: restore the committed ones
    subprocess.run(["git", "checkout", "--", "evidence"], cwd=VERIF)
    raws = glob.glob(os.path.join(COV, "*.profraw"))
    prof = os.path.join(COV, "merged.profdata")
    if not report_only:
        subprocess.run([os.path.join(TOOLS, "llvm-profdata"), "merge", "-sparse", "-o", prof] + raws, check=True)
    src = os.path.join(REPO, "crates", "lib", "src")
    ignore = r"(/\.cargo/|/rustc/|verif_hook\.rs|/capture/|/harness/src/|protocols/epic|games/minetest|minetest_master_server|/id-tests/)"
    rep = subprocess.run([os.path.join(TOOLS, "llvm-cov"), "report", binary, "-instr-profile=" + prof,
                          "-ignore-filename-regex=" + ignore], stdout=subprocess.PIPE, text=True).stdout
    open(os.path.join(COV, "summary.txt"), "w").write(rep)
    exp = subprocess.run([os.path.join(TOOLS, "llvm-cov"), "export", binary, "-instr-profile=" + prof, "-format=lcov",
                          "-ignore-filename-regex=" + ignore], stdout=subprocess.PIPE, text=True).stdout
    unc, cur = {}, None
    for l in exp.split("\n"):
        if l.startswith("SF:"):
            cur = os.path.realpath(l[3:])
        elif l.startswith("DA:") and cur and cur.startswith(src):
            n, c = l[3:].split(",")[:2]
            if c == "0":
                unc.setdefault(cur, []).append(int(n))
    with open(os.path.join(COV, "uncovered.txt"), "w") as f:
        for path in sorted(unc):
            lines = open(path).read().split("\n")
            # skip #[cfg(test)] modules
            cut = next((i for i, t in enumerate(lines) if t.strip() == "#[cfg(test)]"), len(lines))
            todo = [n for n in unc[path] if n <= cut]
            if not todo:
                continue
            f.write(f"== {os.path.relpath(path, src)} ({len(todo)} lines)\n")
            for n in todo:
                f.write(f"{n:5}: {lines[n - 1]}\n")
    for f in raws:
        os.remove(f)
    print(rep.split("\n")[-2] if rep else "no report")
    print("written:", os.path.join(COV, "summary.txt"), os.path.join(COV, "uncovered.txt"))


if __name__ == "__main__":
    main()
