#!/usr/bin/env python3
"""Self-test of the arms translation (C14): mutate games/query.rs in a SCRATCH copy of crates/lib/src, translate the mutated
source, and check that the proof stage of C14 (Props/C14_arms.lean over the regenerated Gen/Arms.lean) no longer checks —
or that the translator itself refuses the source.  The repository is never touched; lean/GdVerif/Gen/Arms.lean is
overwritten for the duration of one build and regenerated from the real source afterwards (under the `lake` lock).

    python3 tools/arms_selftest.py            all mutations; prints one line per mutation and a JSON summary; exit 0 iff
                                              every mutation is caught and the restored tree builds again

Mutations (each one is a change that compiles, or nearly compiles, in Rust and changes what an arm passes on):
  drop-or-else        Valve arm: `.or_else(|| Option::from(game.request_settings.clone()))` removed (the definition's
                      gathering settings are no longer used when the caller gives none)
  swap-arguments      TheShip arm: `port` and `timeout_settings` exchanged
  port-to-default     Savage2 arm: `port` replaced by `Some(game.default_port)` (the caller's port is dropped)
  drop-map-into       Minecraft Java arm: extra settings no longer passed (`None` instead of the converted settings)
  retries-dropped     GameSpy 3 arm: `None` instead of `timeout_settings`
  unknown-shape       Unreal2 arm: a method outside the vocabulary (`.filter(…)`): the translator must refuse"""
import json, os, re, shutil, sys, tempfile

HERE = os.path.dirname(os.path.abspath(__file__))
sys.path.insert(0, HERE)
import vlib, xlate_arms

SRC = os.path.join(vlib.REPO, "crates", "lib", "src")
GEN = os.path.join(vlib.LEAN, "GdVerif", "Gen")


def sub1(pattern, repl):
    def f(text):
        out, n = re.subn(pattern, repl, text, count=1, flags=re.S)
        if n != 1:
            raise RuntimeError(f"mutation does not apply: /{pattern}/")
        return out
    return f


MUTATIONS = [
    ("drop-or-else", sub1(r"\s*\.or_else\(\|\|\s*Option::from\(game\.request_settings\.clone\(\)\)\)", "")),
    ("swap-arguments", sub1(r"theship::query_with_timeout\(address,\s*port,\s*timeout_settings\)", "theship::query_with_timeout(address, timeout_settings, port)")),
    ("port-to-default", sub1(r"savage2::query_with_timeout\(address,\s*port,\s*timeout_settings\)", "savage2::query_with_timeout(address, Some(game.default_port), timeout_settings)")),
    ("drop-map-into", sub1(r"(minecraft::protocol::query_java\(\s*&socket_addr,\s*timeout_settings,\s*)extra_settings\.map\(ExtraRequestSettings::into\)", r"\1None")),
    ("retries-dropped", sub1(r"protocols::gamespy::three::query\(&socket_addr,\s*timeout_settings\)", "protocols::gamespy::three::query(&socket_addr, None)")),
    ("unknown-shape", sub1(r"(extra_settings)(\s*\.map\(ExtraRequestSettings::into\)\s*\.unwrap_or_default\(\))", r"\1.filter(|e| e.hostname.is_none())\2")),
]


def csrc_of(src_dir):
    cache = {}

    def csrc(rel):
        if rel not in cache:
            fp = os.path.join(src_dir, rel)
            if not os.path.exists(fp):
                raise xlate_arms.ArmError(f"file {rel} does not exist")
            text = open(fp).read()
            i = text.find("#[cfg(test)]")
            text = text if i < 0 else text[:i]
            cache[rel] = re.sub(r"//[^\n]*", "", text)
        return cache[rel]
    return csrc


def write(path, text):
    os.makedirs(os.path.dirname(path), exist_ok=True)
    old = open(path).read() if os.path.exists(path) else None
    if old != text:
        open(path, "w").write(text)


def failing(out):
    """names of the theorems / lemmas whose check failed, from lake's output"""
    bad = []
    for m in re.finditer(r"error: (\S*?)(GdVerif/[A-Za-z0-9_/]+\.lean):(\d+):\d+:", out):
        fp = os.path.join(vlib.LEAN, m.group(2))
        if not os.path.exists(fp):
            continue
        lines = open(fp).read().split("\n")
        for k in range(min(int(m.group(3)), len(lines)) - 1, -1, -1):
            mm = re.match(r"^(?:theorem|def|example|lemma)\s+([A-Za-z0-9_.']+)?", lines[k])
            if mm:
                name = mm.group(1) or f"example@{os.path.basename(fp)}:{k + 1}"
                if name not in bad:
                    bad.append(name)
                break
    return bad


def run(names=None):
    results = []
    scratch = tempfile.mkdtemp(prefix="arms-selftest-", dir="/var/tmp")
    real = os.path.join(GEN, "Arms.lean")
    saved = open(real).read()
    try:
        with vlib.Lock("lake"):
            for name, mutate in MUTATIONS:
                if names and name not in names:
                    continue
                src2 = os.path.join(scratch, name, "src")
                shutil.copytree(SRC, src2)
                q = os.path.join(src2, "games", "query.rs")
                try:
                    mutated = mutate(open(q).read())
                    open(q, "w").write(mutated)
                except RuntimeError as e:
                    results.append(dict(mutation=name, caught=None, how="mutation does not apply to the current source (skipped)", detail=str(e)))
                    continue
                gen2 = os.path.join(scratch, name, "gen")
                errors = xlate_arms.gen_arms(os.path.join(scratch, name), src2, gen2, csrc_of(src2), write)
                if errors:
                    results.append(dict(mutation=name, caught=True, how="translator refuses the source", detail=errors[0][:300]))
                    continue
                open(real, "w").write(open(os.path.join(gen2, "Arms.lean")).read())
                rc, out = vlib.sh(["lake", "build", "GdVerif.Props.C14_arms"], cwd=vlib.LEAN, timeout=1800)
                bad = failing(out)
                results.append(dict(mutation=name, caught=rc != 0, how="proof stage of C14 breaks" if rc != 0 else "NOT CAUGHT: Props/C14_arms.lean still checks",
                                    detail=", ".join(bad[:8])))
            # restore: the real source's translation, and a green build
            open(real, "w").write(saved)
            rc, out = vlib.sh(["lake", "build", "GdVerif.Props.C14_arms", "gdmodel"], cwd=vlib.LEAN, timeout=1800)
            restored = rc == 0
    finally:
        if open(real).read() != saved:
            open(real, "w").write(saved)
        shutil.rmtree(scratch, ignore_errors=True)
    return results, restored


if __name__ == "__main__":
    res, restored = run(sys.argv[1:] or None)
    for r in res:
        print(f"{r['mutation']:18s} {'caught' if r['caught'] else 'skipped' if r['caught'] is None else 'MISSED'}  {r['how']}: {r['detail']}")
    print("restored tree builds:", restored)
    print(json.dumps(dict(results=res, restored=restored)))
    sys.exit(0 if restored and all(r["caught"] is not False for r in res) else 1)
