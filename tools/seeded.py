#!/usr/bin/env python3
"""Seeded changes: realistic regressions written by people who saw only a property's text.

  tools/seeded.py verify <dir> <worktree>   confirm a candidate in a scratch worktree of /repo:
                                            the patch applies to /repo's HEAD, the repository's own tests
                                            still pass with it, the demonstration fails with it and passes
                                            without it.  <dir> holds patch.diff, demo/, meta.json.
  tools/seeded.py run [<id> ...]            for each seeded/<id>/: git -C /repo apply patch.diff, run the
                                            quick check of the property it targets (and any listed under
                                            "also"), undo with git -C /repo checkout -- . ; writes
                                            seeded/RESULTS.md.  Never leaves /repo modified.

Nothing here is part of a registered check; it is how the checks themselves are tested.
"""
import json, os, re, subprocess, sys, time

VERIF = os.path.dirname(os.path.dirname(os.path.abspath(__file__)))
REPO = os.path.realpath(os.path.join(VERIF, "repo-link"))
SEEDED = os.path.join(VERIF, "seeded")
ENV = dict(os.environ, CARGO_NET_OFFLINE="true")


def sh(cmd, cwd=None, env=None, timeout=3600):
    p = subprocess.run(cmd, cwd=cwd, env=env or ENV, shell=isinstance(cmd, str), stdout=subprocess.PIPE,
                       stderr=subprocess.STDOUT, text=True, timeout=timeout)
    return p.returncode, p.stdout


def suite(wt):
    """the repository's own tests; returns (passed, failed names)"""
    rc, out = sh("cargo test --workspace --no-fail-fast --offline", cwd=wt)
    passed = sum(int(m.group(1)) for m in re.finditer(r"test result: \w+\. (\d+) passed", out) )
    failed = sorted(set(re.findall(r"^test (\S+) \.\.\. FAILED", out, re.M)))
    return passed, failed, out


def demo(wt, d):
    """runs the demonstration of a candidate in worktree wt: Rust integration tests (copied into the crate named by
    meta.demo_crate, default the library) and/or demo/demo.sh <worktree> (exit 0 = property held)"""
    meta = json.load(open(os.path.join(d, "meta.json")))
    crate_dir, pkg, feats = {"id-tests": ("crates/id-tests", "gamedig-id-tests", "")}.get(
        meta.get("demo_crate", "lib"), ("crates/lib", "gamedig", "--features serde,clap"))
    tests = os.path.join(wt, crate_dir, "tests")
    existed = os.path.isdir(tests)
    os.makedirs(tests, exist_ok=True)
    names = []
    for f in os.listdir(os.path.join(d, "demo")):
        if f.endswith(".rs"):
            sh(["cp", os.path.join(d, "demo", f), os.path.join(tests, f)])
            names.append(f[:-3])
    env = dict(ENV, RUSTFLAGS="--cfg gamedig_verif")
    res = {}
    for n in names:
        rc, out = sh(f"cargo test --offline -p {pkg} {feats} --test {n} -- --test-threads=1", cwd=wt, env=env)
        m = re.search(r"test result: (\w+)\. (\d+) passed; (\d+) failed", out)
        res[n] = dict(rc=rc, summary=m.group(0) if m else out[-600:])
    for n in names:
        os.remove(os.path.join(tests, n + ".rs"))
    if not existed and not os.listdir(tests):
        os.rmdir(tests)
    script = os.path.join(d, "demo", "demo.sh")
    if os.path.exists(script):
        rc, out = sh(["sh", script, wt], cwd=os.path.join(d, "demo"), timeout=900)
        res["demo.sh"] = dict(rc=rc, summary=out.strip().split("\n")[-1][-300:] if out.strip() else "")
    return res


def verify(d, wt):
    head = sh(["git", "-C", REPO, "rev-parse", "HEAD"])[1].strip()
    sh(["git", "-C", wt, "checkout", "-q", "--", "."])
    sh(["git", "-C", wt, "clean", "-qfd", "--", "crates"])
    sh(["git", "-C", wt, "checkout", "-q", "--detach", head])
    patch = os.path.join(d, "patch.diff")
    out = {"repo_head": head}
    out["demo_without_patch"] = demo(wt, d)
    rc, o = sh(["git", "-C", wt, "apply", patch])
    if rc != 0:
        rc, o = sh(["git", "-C", wt, "apply", "-3", patch])
    out["applies"] = rc == 0
    if rc != 0:
        out["apply_error"] = o[-500:]
        print(json.dumps(out, indent=1))
        return 1
    passed, failed, _ = suite(wt)
    out["suite_with_patch"] = dict(passed=passed, failed=failed)
    out["demo_with_patch"] = demo(wt, d)
    # a refreshed diff against the current HEAD (what `git -C /repo apply` will be given)
    out["fresh_patch"] = sh(["git", "-C", wt, "diff"])[1]
    sh(["git", "-C", wt, "checkout", "-q", "--", "."])
    ok = (failed == ["errors::kind::tests::test_display"] and passed >= 57
          and all(v["rc"] == 0 for v in out["demo_without_patch"].values())
          and any(v["rc"] != 0 for v in out["demo_with_patch"].values()))
    out["confirmed"] = ok
    fresh = out.pop("fresh_patch")
    print(json.dumps(out, indent=1))
    if ok:
        with open(os.path.join(d, "patch.fresh.diff"), "w") as f:
            f.write(fresh)
    return 0 if ok else 1


def clean_repo():
    rc, o = sh(["git", "-C", REPO, "status", "--porcelain", "--untracked-files=no"])
    return o.strip() == ""


def run(ids):
    if not clean_repo():
        print("refusing: /repo has uncommitted changes")
        return 2
    ids = ids or sorted(x for x in os.listdir(SEEDED) if os.path.isfile(os.path.join(SEEDED, x, "patch.diff")))
    rows = []
    for i in ids:
        d = os.path.join(SEEDED, i)
        meta = json.load(open(os.path.join(d, "meta.json")))
        props = [meta["property"]] + meta.get("also", [])
        rc, o = sh(["git", "-C", REPO, "apply", os.path.join(d, "patch.diff")])
        if rc != 0:
            rows.append((i, meta["property"], "patch no longer applies", "", ""))
            continue
        try:
            for p in props:
                t = time.time()
                rc, o = sh([os.path.join(VERIF, "check"), p], cwd=VERIF)
                line = next((l for l in o.split("\n") if l.startswith("VIOLATION")), "")
                rep = ""
                m = re.search(r"replay=(\S+)", line)
                if m and os.path.exists(m.group(1)):
                    keep = os.path.join(d, f"replay_{p}.txt")
                    sh(["cp", m.group(1), keep])
                    rep = os.path.relpath(keep, VERIF)
                verdict = "caught" if rc == 1 and line else ("MISSED" if rc == 0 else f"check error rc={rc}")
                if line.endswith("no-failing-input-found"):
                    verdict += " (no failing input)"
                rows.append((i, p, verdict, rep, f"{time.time() - t:.0f} s"))
                print(i, p, verdict, line[:160], flush=True)
        finally:
            sh(["git", "-C", REPO, "checkout", "--", "."])
    # evidence files were rewritten by runs on a modified tree: refresh them on the clean tree
    for p in sorted(set(r[1] for r in rows)):
        sh([os.path.join(VERIF, "check"), p], cwd=VERIF)
    store = os.path.join(SEEDED, "results.json")
    allres = json.load(open(store)) if os.path.exists(store) else {}
    for i in ids:
        allres[i] = [dict(check=r[1], verdict=r[2], replay=r[3], time=r[4]) for r in rows if r[0] == i]
    json.dump(allres, open(store, "w"), indent=1, sort_keys=True)
    with open(os.path.join(SEEDED, "RESULTS.md"), "w") as f:
        f.write("# Seeded changes against the quick checks\n\n"
                "Each change was written by someone who saw only the property's text; it compiles and passes the repository's\n"
                "57 tests. `tools/seeded.py run` applies it to /repo, runs the check, undoes it.  `first run` is what the checks\n"
                "said before anything was strengthened for that change (from meta.json).\n\n"
                "| seeded change | what it breaks | check | verdict now | first run | replay kept |\n|---|---|---|---|---|---|\n")
        for i in sorted(allres):
            meta = json.load(open(os.path.join(SEEDED, i, "meta.json")))
            for r in allres[i]:
                f.write(f"| {i} | {meta['summary'][:160].replace('|', '/')} | {r['check']} | {r['verdict']} | {meta.get('first_run', 'caught')} | {r['replay']} |\n")
    return 0


if __name__ == "__main__":
    if len(sys.argv) >= 4 and sys.argv[1] == "verify":
        sys.exit(verify(os.path.abspath(sys.argv[2]), os.path.abspath(sys.argv[3])))
    if len(sys.argv) >= 2 and sys.argv[1] == "run":
        sys.exit(run(sys.argv[2:]))
    print(__doc__)
    sys.exit(2)
