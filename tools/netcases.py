"""Case-line helpers for the network entries: parsing, formatting, hostile mutations, permutations."""
import itertools, random

BOUNDARY = [0x00, 0x01, 0x7f, 0x80, 0xfe, 0xff, 0x1b, 0x5c, 0x0a, 0x40, 0x41]


class Case:
    """`<id> <entry> <args…> <script> [opts…]` — `nargs` = number of entry arguments before the script."""

    def __init__(self, line, nargs):
        toks = line.split(" ")
        self.id, self.entry = toks[0], toks[1]
        self.args = toks[2:2 + nargs]
        self.script = self.parse_script(toks[2 + nargs])
        self.opts = toks[3 + nargs:]
        self.nargs = nargs

    @staticmethod
    def parse_script(s):
        if s == "_":
            return []
        conns = []
        for c in s.split("/"):
            if c == "X":
                conns.append("X")
            elif c == ".":
                conns.append([])
            else:
                conns.append([None if d == "~" else bytes.fromhex("" if d == "-" else d) for d in c.split(",")])
        return conns

    def fmt_script(self):
        if not self.script:
            return "_"
        out = []
        for c in self.script:
            if c == "X":
                out.append("X")
            elif not c:
                out.append(".")
            else:
                out.append(",".join("~" if d is None else (d.hex() or "-") for d in c))
        return "/".join(out)

    def line(self, new_id=None):
        return " ".join([new_id or self.id, self.entry] + self.args + [self.fmt_script()] + self.opts)

    def clone(self):
        c = Case.__new__(Case)
        c.id, c.entry, c.args, c.opts, c.nargs = self.id, self.entry, list(self.args), list(self.opts), self.nargs
        c.script = [x if x == "X" else list(x) for x in self.script]
        return c


def mutate(case, rnd):
    """One structured mutation of a (valid) case. Returns (new case, description)."""
    c = case.clone()
    conns = [i for i, x in enumerate(c.script) if x != "X"]
    if not conns:
        c.script.append([rnd.randbytes(rnd.randrange(0, 9))])
        return c, "garbage-conn"
    ci = rnd.choice(conns)
    ds = c.script[ci]
    data_idx = [i for i, d in enumerate(ds) if d is not None]
    op = rnd.choice(["trunc", "trunc", "setbyte", "setbyte", "setbyte", "setbyte", "drop", "dup", "swap", "silence",
                     "garbage", "empty", "extend", "setword", "cutconn", "refuse", "incbyte"])
    if op in ("trunc", "setbyte", "extend", "setword", "incbyte") and not data_idx:
        op = "garbage"
    if op == "trunc":
        i = rnd.choice(data_idx)
        d = ds[i]
        ds[i] = d[:rnd.randrange(0, len(d) + 1)] if rnd.random() < 0.7 else d[:max(0, len(d) - rnd.choice([1, 2, 3, 4]))]
    elif op == "setbyte":
        i = rnd.choice(data_idx)
        d = bytearray(ds[i])
        if d:
            # bias towards the head of the datagram, where headers / counts / lengths live
            pos = min(len(d) - 1, int(rnd.expovariate(1 / 12.0))) if rnd.random() < 0.6 else rnd.randrange(len(d))
            d[pos] = rnd.choice(BOUNDARY)
        ds[i] = bytes(d)
    elif op == "incbyte":
        i = rnd.choice(data_idx)
        d = bytearray(ds[i])
        if d:
            pos = min(len(d) - 1, int(rnd.expovariate(1 / 12.0))) if rnd.random() < 0.6 else rnd.randrange(len(d))
            d[pos] = (d[pos] + rnd.choice([1, -1, 2, 16, 128])) % 256
        ds[i] = bytes(d)
    elif op == "setword":
        i = rnd.choice(data_idx)
        d = bytearray(ds[i])
        if len(d) >= 4:
            pos = rnd.randrange(len(d) - 3)
            d[pos:pos + 4] = rnd.choice([b"\xff\xff\xff\xff", b"\x00\x00\x00\x00", b"\xff\xff\xff\x7f", b"\x00\x00\x00\x80", b"\xfe\xff\xff\xff"])
        ds[i] = bytes(d)
    elif op == "drop" and ds:
        del ds[rnd.randrange(len(ds))]
    elif op == "dup" and ds:
        i = rnd.randrange(len(ds))
        ds.insert(rnd.randrange(len(ds) + 1), ds[i])
    elif op == "swap" and len(ds) >= 2:
        i, j = rnd.sample(range(len(ds)), 2)
        ds[i], ds[j] = ds[j], ds[i]
    elif op == "silence":
        ds.insert(rnd.randrange(len(ds) + 1), None)
    elif op == "garbage":
        g = bytes(rnd.choice([0x00, 0x01, 0x1b, 0x5c, 0x7f, 0x80, 0xfe, 0xff]) for _ in range(rnd.randrange(0, 65)))
        ds.insert(rnd.randrange(len(ds) + 1), g)
    elif op == "empty":
        ds.insert(rnd.randrange(len(ds) + 1), b"")
    elif op == "extend":
        i = rnd.choice(data_idx)
        ds[i] = ds[i] + bytes(rnd.choice(BOUNDARY) for _ in range(rnd.randrange(1, 9)))
    elif op == "cutconn" and ds:
        del ds[rnd.randrange(len(ds)):]
    elif op == "refuse":
        c.script[ci] = "X"
    return c, op


def permutations_of_group(case, conn, start, count, rnd, max_exhaustive=5, sample=60):
    """All (or sampled) permutations of deliveries [start, start+count) of a connection."""
    group = case.script[conn][start:start + count]
    idx = list(range(count))
    if count <= max_exhaustive:
        perms = list(itertools.permutations(idx))
    else:
        perms = set()
        perms.add(tuple(reversed(idx)))
        while len(perms) < sample:
            p = idx[:]
            rnd.shuffle(p)
            perms.add(tuple(p))
        perms = list(perms)
    out = []
    for p in perms:
        if list(p) == idx:
            continue
        c = case.clone()
        c.script[conn][start:start + count] = [group[k] for k in p]
        out.append((c, "perm:" + "".join(map(str, p))))
    return out


def permuted_duplications_of_group(case, conn, start, count, rnd, samples=24):
    """A fragment duplicated once inside a PERMUTED arrival of the group (all such arrivals when the group has at most 3
    fragments, sampled otherwise): reordering and duplication together."""
    group = case.script[conn][start:start + count]
    idx = list(range(count))
    arrivals = set()
    if count <= 3:
        for p in itertools.permutations(idx):
            for k in range(count):
                for pos in range(count + 1):
                    arrivals.add(tuple(list(p[:pos]) + [k] + list(p[pos:])))
    else:
        while len(arrivals) < samples:
            p = idx[:]
            rnd.shuffle(p)
            pos = rnd.randrange(count + 1)
            arrivals.add(tuple(p[:pos] + [rnd.randrange(count)] + p[pos:]))
    out = []
    for a in sorted(arrivals):
        c = case.clone()
        c.script[conn][start:start + count] = [group[k] for k in a]
        out.append((c, "dup-perm:" + "".join(map(str, a))))
    return out


def duplications_of_group(case, conn, start, count):
    """Each fragment duplicated once, the copy inserted at every position of the group."""
    group = case.script[conn][start:start + count]
    out = []
    for k in range(count):
        for pos in range(count + 1):
            g = group[:pos] + [group[k]] + group[pos:]
            c = case.clone()
            c.script[conn][start:start + count] = g
            out.append((c, f"dup:{k}@{pos}"))
    return out
