#!/usr/bin/env python3
"""Regenerates /verif/MANIFEST.json from the table below (one place to edit)."""
import json, os, sys
V = os.path.dirname(os.path.dirname(os.path.abspath(__file__)))
sys.path.insert(0, V)
ALL = ["C%02d" % i for i in range(1, 21)]
from props import claims  # noqa

checks, na = [], []
for pid in ALL:
    c = claims.CLAIMS.get(pid)
    if c is None:
        na.append({"property_id": pid, "reason": claims.NOT_YET.get(pid, "check not built yet (work in progress, see DESIGN.md §9); nothing is claimed for it")})
        continue
    checks.append({
        "property_id": pid,
        "quick_cmd": f"./check {pid} --tier quick",
        "thorough_cmd": f"./check {pid} --tier thorough",
        "evidence_file": f"evidence/{pid}.json",
        "replay_cmd_template": f"./check {pid} --replay {{path}}",
        "engine": "lean-model",
        "level_claimed": {"category": c["category"], "text": c["text"], "design_ref": c.get("design_ref", f"DESIGN.md §5 {pid}")},
        "level_note": c["note"],
        "technique": c["technique"],
    })
claimed = [c["property_id"] for c in checks]
m = {
    "version": 1,
    "setup_cmd": "./setup.sh",
    "hooks": {
        "guard": "--cfg gamedig_verif",
        "enable": "RUSTFLAGS=\"--cfg gamedig_verif\" (set in /verif/harness/.cargo/config.toml); the harness crate depends on /repo/crates/lib by path and is rebuilt by every check",
        "baseline_off_cmd": "cd /repo && cargo test --workspace --no-fail-fast --offline",
        "source_commits": claims.HOOK_COMMITS,
        "add_only": True,
    },
    "engines": [
        {"name": "lean-model", "path": "lean", "serves_properties": claimed, "kind_free_text": "Lean 4 project: hand-written executable model of the code (GdVerif/Buffer, Net, Proto/*), generated tables (Gen/*), property theorems (GdVerif/Props/Cxx.lean), line-protocol driver gdmodel"},
        {"name": "harness", "path": "harness", "serves_properties": claimed, "kind_free_text": "Rust crate running the real gamedig code (path dependency on /repo, --cfg gamedig_verif) on the same case lines as the model"},
        {"name": "check", "path": "check", "serves_properties": claimed, "kind_free_text": "Python orchestrator: rebuild, proof stage + axiom audit, correspondence diff, property oracle, known-findings filter, evidence"},
    ],
    "checks": checks,
    "not_applicable": na,
    "notes": claims.NOTES,
}
json.dump(m, open(os.path.join(V, "MANIFEST.json"), "w"), indent=1)
print("claimed:", " ".join(claimed))
