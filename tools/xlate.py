#!/usr/bin/env python3
"""Translator: regenerates lean/GdVerif/Gen/*.lean from the repository's current sources on every run.

  Gen/AllocSites.lean  — every allocation-size expression in crates/lib/src (C13)

Each generated file is only rewritten when its content changes (so that lake does not rebuild needlessly)."""
import os, re, sys, zlib

V = os.path.dirname(os.path.dirname(os.path.abspath(__file__)))
REPO = os.path.realpath(os.path.join(V, "repo-link"))
SRC = os.path.join(REPO, "crates", "lib", "src")
GEN = os.path.join(V, "lean", "GdVerif", "Gen")


def write_if_changed(path, text):
    old = open(path).read() if os.path.exists(path) else None
    if old != text:
        os.makedirs(os.path.dirname(path), exist_ok=True)
        open(path, "w").write(text)


def strip_tests(src):
    i = src.find("#[cfg(test)]")
    return src if i < 0 else src[:i]


def balanced(s, start, open_c, close_c):
    """text of the bracket group starting at s[start] == open_c"""
    depth = 0
    for i in range(start, len(s)):
        if s[i] == open_c:
            depth += 1
        elif s[i] == close_c:
            depth -= 1
            if depth == 0:
                return s[start:i + 1]
    return s[start:]


ALLOC_PATTERNS = [
    (re.compile(r"\b(Vec|String|HashMap|VecDeque|Players)::with_capacity\s*\("), "("),
    (re.compile(r"\bvec!\s*\["), "["),
    (re.compile(r"\.reserve(?:_exact)?\s*\("), "("),
    (re.compile(r"\.resize\s*\("), "("),
    (re.compile(r"\.read_to_end\s*\("), "("),
    (re.compile(r"\.read_to_string\s*\("), "("),
    (re.compile(r"\.repeat\s*\("), "("),
    (re.compile(r"\.take\s*\("), "("),
]


def alloc_sites():
    sites = []
    for root, _, files in os.walk(SRC):
        rel_root = os.path.relpath(root, SRC)
        if rel_root.startswith("capture") or rel_root.startswith("errors"):
            continue
        for f in sorted(files):
            if not f.endswith(".rs") or f == "verif_hook.rs":
                continue
            rel = os.path.normpath(os.path.join(rel_root, f))
            src = strip_tests(open(os.path.join(root, f)).read())
            # drop comments
            src = re.sub(r"//[^\n]*", "", src)
            fn_starts = [(m.start(), m.group(1)) for m in re.finditer(r"\bfn\s+([A-Za-z0-9_]+)", src)]
            for pat, br in ALLOC_PATTERNS:
                for m in pat.finditer(src):
                    grp = balanced(src, m.end() - 1, br, ")" if br == "(" else "]")
                    expr = re.sub(r"\s+", " ", src[m.start():m.end() - 1] + grp).strip()
                    if expr.startswith("vec!") and ";" not in grp:
                        continue  # literal list: fixed, small
                    if expr.startswith(".take") and not re.search(r"\.read_to_end|Read", src[m.end():m.end() + 200]) and "limit" not in grp:
                        continue  # iterator take, not a reader limit
                    fn, fn_pos = "?", 0
                    for pos, name in fn_starts:
                        if pos < m.start():
                            fn, fn_pos = name, pos
                    # provenance: the defining `let` (or parameter type) of every variable in the size expression
                    prov = []
                    body = src[fn_pos:m.start()]
                    for ident in sorted(set(re.findall(r"\b[a-z_][a-z0-9_]*\b", grp))):
                        if ident in ("as", "usize", "mut", "unwrap_or", "len", "min", "max", "saturating_sub", "new", "u64", "buffer", "buf", "self"):
                            continue
                        lets = list(re.finditer(r"\blet\s+(?:mut\s+)?%s\b[^;]*;" % re.escape(ident), body))
                        if lets:
                            prov.append(re.sub(r"\s+", " ", lets[-1].group(0)))
                        else:
                            pm = re.search(r"\b%s\s*:\s*[^,)]+" % re.escape(ident), body[:body.find("{")] if "{" in body else body)
                            if pm:
                                prov.append("param " + re.sub(r"\s+", " ", pm.group(0)))
                    # guards: every `if` condition between the function head and the site that mentions a variable of
                    # the size expression (a removed or weakened bound check changes the site's identity)
                    guards = []
                    for ident in sorted(set(re.findall(r"\b[a-z_][a-z0-9_]*\b", grp))):
                        if ident in ("as", "usize", "mut", "unwrap_or", "len", "min", "max", "saturating_sub", "new", "u64", "buffer", "buf", "self"):
                            continue
                        for gm in re.finditer(r"\bif\s+([^{};]*\b%s\b[^{};]*)\{" % re.escape(ident), body):
                            g = "if " + re.sub(r"\s+", " ", gm.group(1)).strip()
                            if g not in guards:
                                guards.append(g)
                    if guards:
                        prov.append("GUARD " + " ; ".join(guards))
                        seen = set(re.findall(r"\b[a-z_][a-z0-9_]*\b", grp))
                        for ident in sorted(set(re.findall(r"\b[a-z_][a-z0-9_]*\b", " ".join(guards))) - seen):
                            lets = list(re.finditer(r"\blet\s+(?:mut\s+)?%s\b[^;]*;" % re.escape(ident), body))
                            if lets and ident not in ("r", "length"):
                                prov.append(re.sub(r"\s+", " ", lets[-1].group(0)))
                    # constants mentioned by the expression or its provenance
                    consts = []
                    for cname in sorted(set(re.findall(r"\b[A-Z][A-Z0-9_]{3,}\b", expr + " " + " ".join(prov)))):
                        cm = re.search(r"\b(?:const|static)\s+%s\s*:\s*[A-Za-z0-9_]+\s*=\s*([^;]+);" % cname, src)
                        if cm:
                            consts.append(f"{cname} = " + re.sub(r"\s+", " ", cm.group(1)).strip())
                    sites.append((rel, fn, expr + (" WHERE " + " ; ".join(prov) if prov else "") + (" CONST " + " ; ".join(consts) if consts else "")))
    return sorted(set(sites))


def site_id(site):
    return zlib.crc32(("|".join(site)).encode()) & 0xFFFFFFFF


def gen_alloc_sites():
    sites = alloc_sites()
    lines = ["/- GENERATED by tools/xlate.py from crates/lib/src on every run — do not edit.",
             "   Every allocation-size expression of the library (tests, capture/ and errors/ excluded):",
             "   (file, enclosing fn, expression) and its id = crc32 of `file|fn|expression`. -/",
             "namespace Gd.Gen", "",
             "/-- ids of all allocation sites found in the current source -/",
             "def allocSiteIds : List Nat := ["]
    lines += [f"  {site_id(s)}, -- {s[0]} :: {s[1]} :: {s[2]}" for s in sites]
    if sites:
        lines[-1] = lines[-1].replace(",", "", 1) if False else lines[-1]
    lines += ["  0]", "", "end Gd.Gen", ""]
    write_if_changed(os.path.join(GEN, "AllocSites.lean"), "\n".join(lines))
    return sites


# --------------------------------------------------------------------------- C15: CommonResponse / CommonPlayer views

ACCESSORS_R = ["name", "description", "game_mode", "game_version", "map", "players_maximum", "players_online",
               "players_bots", "has_password", "players"]
ACCESSORS_P = ["name", "score"]


def impl_blocks(src):
    for m in re.finditer(r"impl(?:<[^>]*>)?\s+(CommonResponse|CommonPlayer)\s+for\s+([A-Za-z0-9_]+)(?:<[^>]*>)?\s*\{", src):
        i, depth = m.end(), 1
        while depth and i < len(src):
            if src[i] == "{":
                depth += 1
            elif src[i] == "}":
                depth -= 1
            i += 1
        yield m.group(1), m.group(2), src[m.end():i - 1]


def fn_bodies(block):
    out = {}
    for m in re.finditer(r"fn\s+([a-z_]+)\s*\(\s*&self\s*\)\s*->\s*[^{]+\{", block):
        i, depth = m.end(), 1
        while depth and i < len(block):
            if block[i] == "{":
                depth += 1
            elif block[i] == "}":
                depth -= 1
            i += 1
        out[m.group(1)] = re.sub(r"\s+", "", block[m.end():i - 1])
    return out


PATH = r"self((?:\.[a-z_][a-z0-9_]*)+)"


def view_expr(body, src=""):
    """(kind, path) — kinds mirror GdVerif/Proto/Views.lean ViewExpr"""
    m = re.fullmatch(r"Some\(%s\.as_str\(\)\)" % PATH, body) or re.fullmatch(r"%s\.as_ref\(\)\.map\([A-Za-z]+::as_str\)" % PATH, body)
    if m:
        # an enum rendered through its `as_str`: carry the variant ↦ text table along
        fm = re.search(r"fn\s+as_str\s*\(&self\)[^{]*\{\s*match\s+self\s*\{(.*?)\}\s*\}", src, re.S)
        arms = re.findall(r"Self::([A-Za-z0-9_]+)\s*=>\s*\"([^\"]*)\"", fm.group(1)) if fm else []
        return ("enumStr", m.group(1)[1:] + "|" + ",".join(f"{a}={b}" for a, b in arms))
    m = re.fullmatch(r"Some\(&?%s(?:\.into\(\))?\)" % PATH, body)
    if m:
        return ("someField", m.group(1)[1:])
    m = re.fullmatch(r"%s\.as_deref\(\)" % PATH, body)
    if m:
        return ("optField", m.group(1)[1:])
    m = re.fullmatch(r"%s\.try_into\(\)\.unwrap_or\(0\)" % PATH, body)
    if m:
        return ("tryIntoOr0", m.group(1)[1:])
    m = re.fullmatch(r"Some\(%s\.iter\(\)\.map\(\|([a-z]+)\|\2as(?:_|&dynCommonPlayer|&dyncrate::protocols::types::CommonPlayer)\)\.collect\(\),?\)" % PATH, body)
    if m:
        return ("playersAll", m.group(1)[1:])
    m = re.fullmatch(r"%s\.as_ref\(\)\.map\(\|([a-z]+)\|\2\.iter\(\)\.map\(\|([a-z]+)\|\3as&dynCommonPlayer\)\.collect\(\)\)" % PATH, body)
    if m:
        return ("playersOpt", m.group(1)[1:])
    m = re.fullmatch(r"&?%s(?:\.into\(\))?" % PATH, body)
    if m:
        return ("field", m.group(1)[1:])
    return ("unparsed", body)


def original_wraps_self(body):
    # GenericResponse::X(self) | GenericResponse::X(Versioned…::Y(self)) | …::Quake(P::version(self))
    return bool(re.fullmatch(r"(?:[A-Za-z_:]+::)?Generic(?:Response|Player)::[A-Za-z0-9]+\((?:[A-Za-z_:]+\()?self\)?\)", body))


def views():
    out = []
    for root, _, files in os.walk(SRC):
        rel_root = os.path.relpath(root, SRC)
        if rel_root.startswith("capture"):
            continue
        for f in sorted(files):
            if not f.endswith(".rs"):
                continue
            rel = os.path.normpath(os.path.join(rel_root, f))
            src = strip_tests(open(os.path.join(root, f)).read())
            src = re.sub(r"//[^\n]*", "", src)
            for trait, ty, block in impl_blocks(src):
                bodies = fn_bodies(block)
                accs = ACCESSORS_R if trait == "CommonResponse" else ACCESSORS_P
                table = []
                for a in accs:
                    table.append((a, view_expr(bodies[a], src) if a in bodies else ("default", "")))
                extra = sorted(set(bodies) - set(accs) - {"as_original"})
                orig = original_wraps_self(bodies.get("as_original", ""))
                out.append(dict(file=rel, trait=trait, type=ty, table=table, original_wraps_self=orig,
                                extra=extra, as_json_overridden=("as_json" in bodies)))
    return sorted(out, key=lambda d: (d["file"], d["trait"], d["type"]))


def lean_str(s):
    return '"' + s.replace("\\", "\\\\").replace('"', '\\"') + '"'


def gen_views():
    vs = views()
    L = ["/- GENERATED by tools/xlate.py from every `impl CommonResponse for T` / `impl CommonPlayer for T` in crates/lib/src",
         "   on every run — do not edit. -/", "import GdVerif.Proto.Views", "namespace Gd.Gen", "open Gd.Views", "",
         "def implViews : List ImplView := ["]
    items = []
    for v in vs:
        tbl = ", ".join(f"({lean_str(a)}, ViewExpr.{k} {lean_str(p)})" if k != "default" else f"({lean_str(a)}, ViewExpr.default)"
                        for a, (k, p) in v["table"])
        items.append(f"  ⟨{lean_str(v['file'])}, {lean_str(v['trait'])}, {lean_str(v['type'])}, [{tbl}], "
                     f"{'true' if v['original_wraps_self'] else 'false'}, {'true' if v['as_json_overridden'] else 'false'}, "
                     f"[{', '.join(lean_str(e) for e in v['extra'])}]⟩")
    L.append(",\n".join(items))
    L += ["]", "", "end Gd.Gen", ""]
    write_if_changed(os.path.join(GEN, "Views.lean"), "\n".join(L))
    import json
    os.makedirs(os.path.join(V, ".work"), exist_ok=True)
    json.dump(vs, open(os.path.join(V, ".work", "views.json"), "w"), indent=1)
    return vs


# --------------------------------------------------------------------------- C14: game tables

def macro_args(src, start):
    """top-level comma-separated arguments of the macro call whose '(' is at src[start-1]"""
    i, depth, cur, parts, instr = start, 1, "", [], False
    while depth and i < len(src):
        c = src[i]
        if c == '"' and src[i - 1] != "\\":
            instr = not instr
        if not instr:
            if c in "({[":
                depth += 1
            elif c in ")}]":
                depth -= 1
                if depth == 0:
                    break
            if c == "," and depth == 1:
                parts.append(re.sub(r"\s+", " ", cur.strip()))
                cur = ""
                i += 1
                continue
        cur += c
        i += 1
    if cur.strip():
        parts.append(re.sub(r"\s+", " ", cur.strip()))
    return parts


def num(s):
    return int(s.replace("_", ""))


def engine_arg(e):
    """Rust engine expression -> the line protocol's engine argument"""
    e = re.sub(r"\s+", "", e)
    m = re.fullmatch(r"Engine::new\(([0-9_]+)\)", e)
    if m:
        return f"S:{num(m.group(1))}"
    m = re.fullmatch(r"Engine::new_with_dedicated\(([0-9_]+),([0-9_]+)\)", e)
    if m:
        return f"S:{num(m.group(1))}:{num(m.group(2))}"
    m = re.fullmatch(r"Engine::new_gold_src\((true|false)\)", e)
    if m:
        return "G:1" if m.group(1) == "true" else "G:0"
    return "?" + e


def gather_arg(g):
    if g is None:
        return "ttT"
    g = re.sub(r"\s+", "", g).replace(".into_extra()", "")
    if g == "GatheringSettings::default()":
        return "ttT"
    m = re.fullmatch(r"GatheringSettings\{players:GatherToggle::(\w+),rules:GatherToggle::(\w+),check_app_id:(true|false),?\}", g)
    if m:
        t = {"Skip": "s", "Try": "t", "Enforce": "e"}
        return t[m.group(1)] + t[m.group(2)] + ("T" if m.group(3) == "true" else "F")
    return "?" + g


def game_tables():
    gdir = os.path.join(SRC, "games")
    src = re.sub(r"//[^\n]*", "", open(os.path.join(gdir, "definitions.rs")).read())
    consts = {}
    defs = []
    for m in re.finditer(r'"([a-z0-9]+)"\s*=>\s*game!\(', src):
        a = macro_args(src, m.end())
        proto_src = re.sub(r"\s+", "", a[2])
        engine, proto = "-", "?" + proto_src
        pm = re.fullmatch(r"Protocol::Valve\((.*)\)", proto_src)
        if pm:
            proto, engine = "valve", engine_arg(pm.group(1))
        elif proto_src.startswith("Protocol::Gamespy(GameSpyVersion::"):
            proto = "gs" + {"One": "1", "Two": "2", "Three": "3"}[proto_src[len("Protocol::Gamespy(GameSpyVersion::"):-1]]
        elif proto_src.startswith("Protocol::Quake(QuakeVersion::"):
            proto = "quake" + {"One": "1", "Two": "2", "Three": "3"}[proto_src[len("Protocol::Quake(QuakeVersion::"):-1]]
        elif proto_src == "Protocol::Unreal2":
            proto = "unreal2"
        elif proto_src.startswith("Protocol::PROPRIETARY(ProprietaryProtocol::"):
            proto = "prop:" + proto_src[len("Protocol::PROPRIETARY(ProprietaryProtocol::"):-1]
        port = a[1]
        if not re.fullmatch(r"[0-9_]+", port):
            # a constant such as crate::games::mindustry::DEFAULT_PORT
            cm = re.fullmatch(r"crate::games::([a-z0-9_]+)::([A-Z_]+)", port)
            val = None
            if cm:
                for cand in ("mod.rs", "protocol.rs", "types.rs"):
                    fp = os.path.join(gdir, cm.group(1), cand)
                    if os.path.exists(fp):
                        km = re.search(r"const\s+%s\s*:\s*u16\s*=\s*([0-9_]+)" % cm.group(2), open(fp).read())
                        if km:
                            val = km.group(1)
            port = val or "0"
        defs.append(dict(id=m.group(1), name=a[0].strip('"'), port=num(port), proto=proto, engine=engine,
                         gather=gather_arg(a[3] if len(a) > 3 else None) if proto == "valve" else "-"))
    mods = []
    for fam in ("valve", "gamespy", "quake", "unreal2"):
        msrc = re.sub(r"//[^\n]*", "", open(os.path.join(gdir, fam + ".rs")).read())
        for m in re.finditer(r"game_query_mod!\(", msrc):
            a = macro_args(msrc, m.end())
            if fam == "valve":
                mods.append(dict(id=a[0], name=a[1].strip('"'), port=num(a[3]), proto="valve", engine=engine_arg(a[2]),
                                 gather=gather_arg(a[4] if len(a) > 4 else None)))
            elif fam == "gamespy":
                mods.append(dict(id=a[0], name=a[1].strip('"'), port=num(a[3]), proto="gs" + {"one": "1", "two": "2", "three": "3"}[a[2]],
                                 engine="-", gather="-"))
            elif fam == "quake":
                mods.append(dict(id=a[0], name=a[1].strip('"'), port=num(a[3]), proto="quake" + {"one": "1", "two": "2", "three": "3"}[a[2]],
                                 engine="-", gather="-"))
            else:
                mods.append(dict(id=a[0], name=a[1].strip('"'), port=num(a[2]), proto="unreal2", engine="-", gather="-"))
    # hand-written modules: default port = the `port.unwrap_or(<n>)` of their query function
    for mod, proto in (("theship", "prop:TheShip"), ("ffow", "prop:FFOW"), ("jc2m", "prop:JC2M"), ("savage2", "prop:Savage2"),
                       ("eco", "prop:Eco"), ("mindustry", "prop:Mindustry"), ("battalion1944", "valve")):
        cands = [os.path.join(gdir, mod + ".rs"), os.path.join(gdir, mod, "protocol.rs"), os.path.join(gdir, mod, "mod.rs")]
        port, engine = None, "-"
        for fp in cands:
            if not os.path.exists(fp):
                continue
            text = open(fp).read()
            pm = re.search(r"port\.unwrap_or\(([0-9_]+|[A-Z_]+)\)", text)
            if pm and port is None:
                v = pm.group(1)
                if not v[0].isdigit():
                    km = None
                    for fp2 in cands:
                        if os.path.exists(fp2):
                            km = km or re.search(r"const\s+%s\s*:\s*u16\s*=\s*([0-9_]+)" % v, open(fp2).read())
                    v = km.group(1) if km else "0"
                port = num(v)
            em = re.search(r"Engine::new(?:_with_dedicated|_gold_src)?\([^)]*\)", text)
            if em and proto == "valve":
                engine = engine_arg(em.group(0))
        mods.append(dict(id=mod, name="(hand-written module)", port=port or 0, proto=proto, engine=engine,
                         gather="ttT" if proto == "valve" else "-"))
    mods += minecraft_module_rows(gdir, defs)
    for r in defs + mods:
        r.setdefault("port2", r["port"])
        r["hand"] = r["name"] == "(hand-written module)"
    return defs, mods


def rs_fn_bodies(src):
    """name -> body text of every `fn name(…) … { … }` of a source file"""
    out = {}
    for m in re.finditer(r"\bfn\s+(\w+)\s*\(", src):
        i = src.find("{", m.end())
        if i < 0:
            continue
        depth, j = 1, i + 1
        while depth and j < len(src):
            depth += {"{": 1, "}": -1}.get(src[j], 0)
            j += 1
        out[m.group(1)] = src[i:j]
    return out


def minecraft_module_rows(gdir, defs):
    """games/minecraft/mod.rs has one function per variant; the row of a definition is the function a caller of the module
    uses for that game (`query`, `query_java`, `query_bedrock`, `query_legacy_specific`) with the default port that function
    applies (`port_or_java_default` / `port_or_bedrock_default`).  `query` (auto-detect) probes Java, Bedrock and the legacy
    variants through the module's own functions: port = the default of the Java (and legacy) probes, port2 = the default of
    the Bedrock probe."""
    fp = os.path.join(gdir, "minecraft", "mod.rs")
    if not os.path.exists(fp):
        return []
    bodies = rs_fn_bodies(re.sub(r"//[^\n]*", "", open(fp).read()))
    defaults = {}
    for name, body in bodies.items():
        m = re.fullmatch(r"port_or_(\w+)_default", name)
        km = re.search(r"port\.unwrap_or\(([0-9_]+)\)", body)
        if m and km:
            defaults[m.group(1)] = num(km.group(1))

    def port_of(fn):
        m = re.search(r"port_or_(\w+)_default\(port\)", bodies.get(fn, ""))
        return defaults.get(m.group(1), 0) if m else 0
    rows = []
    for d in defs:
        if not d["proto"].startswith("prop:Minecraft("):
            continue
        v = d["proto"][len("prop:Minecraft("):-1]
        fn = {"None": "query", "Some(Server::Java)": "query_java", "Some(Server::Bedrock)": "query_bedrock"}.get(v)
        if fn is None and v.startswith("Some(Server::Legacy("):
            fn = "query_legacy_specific"
        if fn is None or fn not in bodies:
            continue
        if fn == "query":
            calls = re.findall(r"\b(query_\w+)\(address, port", bodies["query"])
            ports = [port_of(c) for c in calls]
            ok = calls == ["query_java", "query_bedrock", "query_legacy"] and ports[0] == ports[2]
            port, port2 = (ports[0], ports[1]) if ok else (0, 0)
        else:
            port = port2 = port_of(fn)
        rows.append(dict(id=d["id"], name="(hand-written module)", port=port, port2=port2, proto=d["proto"], engine="-", gather="-"))
    return rows


def proto_tag(d):
    """the row's protocol and parameters as a term of the generated `ProtoTag` type (typed twin of proto/engine/gather)"""
    p = d["proto"]
    if p == "valve":
        m = re.fullmatch(r"S:(\d+)(?::(\d+))?", d["engine"])
        if m:
            eng = f"(.source {m.group(1)} {'(some ' + m.group(2) + ')' if m.group(2) else 'none'})"
        elif d["engine"] in ("G:0", "G:1"):
            eng = f"(.goldSrc {'true' if d['engine'] == 'G:1' else 'false'})"
        else:
            return ".other"
        g = d["gather"]
        if not re.fullmatch(r"[ste][ste][TF]", g):
            return ".other"
        t = {"s": ".skip", "t": ".try_", "e": ".enforce"}
        return f".valve {eng} {t[g[0]]} {t[g[1]]} {'true' if g[2] == 'T' else 'false'}"
    simple = {"gs1": ".gs1", "gs2": ".gs2", "gs3": ".gs3", "quake1": ".quake1", "quake2": ".quake2", "quake3": ".quake3",
              "unreal2": ".unreal2", "prop:Savage2": ".savage2", "prop:TheShip": ".theShip", "prop:FFOW": ".ffow",
              "prop:JC2M": ".jc2m", "prop:Mindustry": ".mindustry", "prop:Eco": ".eco",
              "prop:Minecraft(None)": ".minecraft .auto", "prop:Minecraft(Some(Server::Java))": ".minecraft .java",
              "prop:Minecraft(Some(Server::Bedrock))": ".minecraft .bedrock",
              "prop:Minecraft(Some(Server::Legacy(LegacyGroup::V1_6)))": ".minecraft .legacy16",
              "prop:Minecraft(Some(Server::Legacy(LegacyGroup::V1_4)))": ".minecraft .legacy14",
              "prop:Minecraft(Some(Server::Legacy(LegacyGroup::VB1_8)))": ".minecraft .legacyB18"}
    return simple.get(p, ".other")


def gen_games():
    defs, mods = game_tables()

    def row(d):
        tag = proto_tag(d)
        ok = (not (d["proto"].startswith("?") or d["engine"].startswith("?") or d["gather"].startswith("?")) and d["port"] != 0
              and d["port2"] != 0 and tag != ".other")
        return (f"  ⟨{lean_str(d['id'])}, {lean_str(d['name'])}, {d['port']}, {lean_str(d['proto'])}, {lean_str(d['engine'])}, "
                f"{lean_str(d['gather'])}, {'true' if ok else 'false'}, {d['port2']}, {'true' if d['hand'] else 'false'}, {tag}⟩")
    L = ["/- GENERATED by tools/xlate.py on every run — do not edit.",
         "   defs: the GAMES table of games/definitions.rs;  mods: every game_query_mod! invocation of",
         "   games/{valve,gamespy,quake,unreal2}.rs and the hand-written game modules (default port = their",
         "   `port.unwrap_or(n)`; the minecraft module: one row per definition id, the module function for that variant).",
         "   engine/gather use the line protocol's argument syntax; `tag` is their typed twin. -/",
         "namespace Gd.Gen", "",
         "/-- `GatherToggle` -/", "inductive Tog | skip | try_ | enforce", "  deriving Repr, DecidableEq", "",
         "/-- `valve::Engine`: `Engine::new(a)` = `source a none`, `Engine::new_with_dedicated(a, d)` = `source a (some d)`,",
         "`Engine::new_gold_src(f)` = `goldSrc f` -/",
         "inductive EngineTag", "  | source (appid : Nat) (dedicated : Option Nat)", "  | goldSrc (force : Bool)", "  deriving Repr, DecidableEq", "",
         "/-- the argument of `ProprietaryProtocol::Minecraft`: `None` = auto, `Some(Server::…)` -/",
         "inductive McTag | auto | java | bedrock | legacy16 | legacy14 | legacyB18", "  deriving Repr, DecidableEq", "",
         "/-- the `Protocol` of a row with its parameters (typed twin of the `proto` / `engine` / `gather` texts; for Valve rows the",
         "gathering settings are the row's `GatheringSettings { players, rules, check_app_id }`) -/",
         "inductive ProtoTag",
         "  | valve (engine : EngineTag) (players rules : Tog) (checkAppId : Bool)",
         "  | gs1 | gs2 | gs3 | quake1 | quake2 | quake3 | unreal2",
         "  | savage2 | theShip | ffow | jc2m | mindustry | eco",
         "  | minecraft (k : McTag)",
         "  /-- a protocol or an expression outside the translator's grammar -/",
         "  | other",
         "  deriving Repr, DecidableEq", "",
         "structure GameRow where", "  id : String", "  name : String", "  port : Nat", "  proto : String", "  engine : String",
         "  gather : String",
         "  /-- every expression of the row was in the translator's grammar -/", "  understood : Bool",
         "  /-- second default port of the row: for the Minecraft auto-detect module function the default of its Bedrock probe;",
         "  equal to `port` for every other row -/", "  port2 : Nat",
         "  /-- a hand-written game module (not a `game_query_mod!` invocation) -/", "  hand : Bool",
         "  tag : ProtoTag",
         "  deriving Repr, DecidableEq", "",
         "def gameDefs : List GameRow := [", ",\n".join(row(d) for d in defs), "]", "",
         "def gameMods : List GameRow := [", ",\n".join(row(d) for d in mods), "]", "",
         "/-- (id, name) of every shipped definition, as byte strings (for the id-naming checker, C20) -/",
         "def shippedIds : List (List UInt8 × List UInt8) := [",
         ",\n".join("  ([" + ", ".join(str(b) for b in d["id"].encode()) + "], [" + ", ".join(str(b) for b in d["name"].encode()) + "])" for d in defs),
         "]", "", "end Gd.Gen", ""]
    write_if_changed(os.path.join(GEN, "Games.lean"), "\n".join(L))
    import json
    os.makedirs(os.path.join(V, ".work"), exist_ok=True)
    json.dump(dict(defs=defs, mods=mods), open(os.path.join(V, ".work", "games.json"), "w"), indent=1)
    # harness dispatch table for the dedicated modules
    H = ["// GENERATED by tools/xlate.py on every run — do not edit.", "// Dispatch from a module name to the game's dedicated query function.",
         "#![allow(clippy::all)]", "use std::net::IpAddr;", "",
         "pub fn valve_module(id: &str, ip: &IpAddr, port: Option<u16>) -> Option<gamedig::GDResult<gamedig::protocols::valve::game::Response>> {",
         "    Some(match id {"]
    for d in mods:
        if d["proto"] == "valve" and d["name"] != "(hand-written module)":
            H.append(f'        "{d["id"]}" => gamedig::games::{d["id"]}::query(ip, port),')
    H += ['        "battalion1944" => gamedig::games::battalion1944::query(ip, port),', "        _ => return None,", "    })", "}", ""]
    # every other dedicated module: result in the protocol-independent canonical form (sorted JSON of as_original()) for the
    # three-path oracle, and printed per family (harness/src/dispatch.rs) for the correspondence with the dispatch model
    for fn, ty, conv in (("any_module", "crate::games::AnyResp", "crate::games::canon_any"),
                         ("disp_module", "crate::dispatch::DispResp", "crate::dispatch::canon")):
        H += [f"pub fn {fn}(id: &str, ip: &IpAddr, port: Option<u16>) -> Option<gamedig::GDResult<{ty}>> {{",
              f"    use {conv} as c;", "    Some(match id {"]
        for d in mods:
            if d["proto"] != "valve" and d["name"] != "(hand-written module)":
                H.append(f'        "{d["id"]}" => gamedig::games::{d["id"]}::query(ip, port).map(|r| c(&r)),')
        for mod in ("theship", "ffow", "jc2m", "savage2"):
            H.append(f'        "{mod}" => gamedig::games::{mod}::query(ip, port).map(|r| c(&r)),')
        H += ['        "mindustry" => gamedig::games::mindustry::query(ip, port, &None).map(|r| c(&r)),',
              '        "minecraft" => gamedig::games::minecraft::query(ip, port).map(|r| c(&r)),',
              '        "minecraftjava" => gamedig::games::minecraft::query_java(ip, port, None).map(|r| c(&r)),',
              '        "minecraftbedrock" | "minecraftpocket" => gamedig::games::minecraft::query_bedrock(ip, port).map(|r| c(&r)),',
              '        "minecraftlegacy16" => gamedig::games::minecraft::query_legacy_specific(gamedig::games::minecraft::LegacyGroup::V1_6, ip, port).map(|r| c(&r)),',
              '        "minecraftlegacy14" => gamedig::games::minecraft::query_legacy_specific(gamedig::games::minecraft::LegacyGroup::V1_4, ip, port).map(|r| c(&r)),',
              '        "minecraftlegacyb18" => gamedig::games::minecraft::query_legacy_specific(gamedig::games::minecraft::LegacyGroup::VB1_8, ip, port).map(|r| c(&r)),',
              "        _ => return None,", "    })", "}", ""]
    write_if_changed(os.path.join(V, "harness", "src", "gen_games.rs"), "\n".join(H))
    return defs, mods


def gen_root():
    """lean/GdVerif.lean imports every module of the project, so that one `lake build GdVerif` checks them together
    (catches name collisions between families)"""
    mods = []
    base = os.path.join(V, "lean", "GdVerif")
    for root, _, files in os.walk(base):
        for f in sorted(files):
            if f.endswith(".lean"):
                rel = os.path.relpath(os.path.join(root, f), os.path.join(V, "lean"))[:-5].replace(os.sep, ".")
                mods.append(rel)
    write_if_changed(os.path.join(V, "lean", "GdVerif.lean"),
                     "-- GENERATED by tools/xlate.py: every module of the project\n" + "\n".join("import " + m for m in sorted(mods)) + "\n")


if __name__ == "__main__":
    sites = gen_alloc_sites()
    gen_root()
    gen_games()
    vs = gen_views()
    if "--views" in sys.argv:
        for v in vs:
            print(v["file"], v["trait"], v["type"], v["original_wraps_self"], v["extra"])
            for a, e in v["table"]:
                print("   ", a, e)
    if "--list" in sys.argv:
        for s in sites:
            print(site_id(s), *s, sep="\t")
