#!/usr/bin/env python3
"""Translator: regenerates lean/GdVerif/Gen/*.lean from the repository's current sources on every run.

  Gen/AllocSites.lean  — every allocation-size expression in crates/lib/src (C13)
  Gen/Games.lean       — the definitions table and the game modules (C14, C20)
  Gen/Views.lean       — the accessor bodies of every CommonResponse / CommonPlayer impl (C15)
  Gen/Consts.lean      — constants and small tables: request bytes, packet kinds, buffer sizes, ports, field names … (Cnn_consts)
  Gen/Arms.lean        — the arms of games/query.rs, the conversion impls, the game_query_fn! bodies (tools/xlate_arms.py; C14_arms)

Each generated file is only rewritten when its content changes (so that lake does not rebuild needlessly)."""
import os, re, sys, zlib

V = os.path.dirname(os.path.dirname(os.path.abspath(__file__)))
REPO = os.path.realpath(os.path.join(V, "repo-link"))
SRC = os.path.join(REPO, "crates", "lib", "src")
GEN = os.path.join(V, "lean", "GdVerif", "Gen")


def write_if_changed(path, text):
    old = open(path).read() if os.path.exists(path) else None
    if old != text:
        os.makedirs(os.path.dirname(path), exist_ok=True)
        open(path, "w").write(text)


def strip_tests(src):
    i = src.find("#[cfg(test)]")
    return src if i < 0 else src[:i]


def balanced(s, start, open_c, close_c):
    """text of the bracket group starting at s[start] == open_c"""
    depth = 0
    for i in range(start, len(s)):
        if s[i] == open_c:
            depth += 1
        elif s[i] == close_c:
            depth -= 1
            if depth == 0:
                return s[start:i + 1]
    return s[start:]


ALLOC_PATTERNS = [
    (re.compile(r"\b(Vec|String|HashMap|VecDeque|Players)::with_capacity\s*\("), "("),
    (re.compile(r"\bvec!\s*\["), "["),
    (re.compile(r"\.reserve(?:_exact)?\s*\("), "("),
    (re.compile(r"\.resize\s*\("), "("),
    (re.compile(r"\.read_to_end\s*\("), "("),
    (re.compile(r"\.read_to_string\s*\("), "("),
    (re.compile(r"\.repeat\s*\("), "("),
    (re.compile(r"\.take\s*\("), "("),
]


def alloc_sites():
    sites = []
    for root, _, files in os.walk(SRC):
        rel_root = os.path.relpath(root, SRC)
        if rel_root.startswith("capture") or rel_root.startswith("errors"):
            continue
        for f in sorted(files):
            if not f.endswith(".rs") or f == "verif_hook.rs":
                continue
            rel = os.path.normpath(os.path.join(rel_root, f))
            src = strip_tests(open(os.path.join(root, f)).read())
            # drop comments
            src = re.sub(r"//[^\n]*", "", src)
            fn_starts = [(m.start(), m.group(1)) for m in re.finditer(r"\bfn\s+([A-Za-z0-9_]+)", src)]
            for pat, br in ALLOC_PATTERNS:
                for m in pat.finditer(src):
                    grp = balanced(src, m.end() - 1, br, ")" if br == "(" else "]")
                    expr = re.sub(r"\s+", " ", src[m.start():m.end() - 1] + grp).strip()
                    if expr.startswith("vec!") and ";" not in grp:
                        continue  # literal list: fixed, small
                    if expr.startswith(".take") and not re.search(r"\.read_to_end|Read", src[m.end():m.end() + 200]) and "limit" not in grp:
                        continue  # iterator take, not a reader limit
                    fn, fn_pos = "?", 0
                    for pos, name in fn_starts:
                        if pos < m.start():
                            fn, fn_pos = name, pos
                    # provenance: the defining `let` (or parameter type) of every variable in the size expression
                    prov = []
                    body = src[fn_pos:m.start()]
                    for ident in sorted(set(re.findall(r"\b[a-z_][a-z0-9_]*\b", grp))):
                        if ident in ("as", "usize", "mut", "unwrap_or", "len", "min", "max", "saturating_sub", "new", "u64", "buffer", "buf", "self"):
                            continue
                        lets = list(re.finditer(r"\blet\s+(?:mut\s+)?%s\b[^;]*;" % re.escape(ident), body))
                        if lets:
                            prov.append(re.sub(r"\s+", " ", lets[-1].group(0)))
                        else:
                            pm = re.search(r"\b%s\s*:\s*[^,)]+" % re.escape(ident), body[:body.find("{")] if "{" in body else body)
                            if pm:
                                prov.append("param " + re.sub(r"\s+", " ", pm.group(0)))
                    # guards: every `if` condition between the function head and the site that mentions a variable of
                    # the size expression (a removed or weakened bound check changes the site's identity)
                    guards = []
                    for ident in sorted(set(re.findall(r"\b[a-z_][a-z0-9_]*\b", grp))):
                        if ident in ("as", "usize", "mut", "unwrap_or", "len", "min", "max", "saturating_sub", "new", "u64", "buffer", "buf", "self"):
                            continue
                        for gm in re.finditer(r"\bif\s+([^{};]*\b%s\b[^{};]*)\{" % re.escape(ident), body):
                            g = "if " + re.sub(r"\s+", " ", gm.group(1)).strip()
                            if g not in guards:
                                guards.append(g)
                    if guards:
                        prov.append("GUARD " + " ; ".join(guards))
                        seen = set(re.findall(r"\b[a-z_][a-z0-9_]*\b", grp))
                        for ident in sorted(set(re.findall(r"\b[a-z_][a-z0-9_]*\b", " ".join(guards))) - seen):
                            lets = list(re.finditer(r"\blet\s+(?:mut\s+)?%s\b[^;]*;" % re.escape(ident), body))
                            if lets and ident not in ("r", "length"):
                                prov.append(re.sub(r"\s+", " ", lets[-1].group(0)))
                    # constants mentioned by the expression or its provenance
                    consts = []
                    for cname in sorted(set(re.findall(r"\b[A-Z][A-Z0-9_]{3,}\b", expr + " " + " ".join(prov)))):
                        cm = re.search(r"\b(?:const|static)\s+%s\s*:\s*[A-Za-z0-9_]+\s*=\s*([^;]+);" % cname, src)
                        if cm:
                            consts.append(f"{cname} = " + re.sub(r"\s+", " ", cm.group(1)).strip())
                    sites.append((rel, fn, expr + (" WHERE " + " ; ".join(prov) if prov else "") + (" CONST " + " ; ".join(consts) if consts else "")))
    return sorted(set(sites))


def site_id(site):
    return zlib.crc32(("|".join(site)).encode()) & 0xFFFFFFFF


def gen_alloc_sites():
    sites = alloc_sites()
    lines = ["/- GENERATED by tools/xlate.py from crates/lib/src on every run — do not edit.",
             "   Every allocation-size expression of the library (tests, capture/ and errors/ excluded):",
             "   (file, enclosing fn, expression) and its id = crc32 of `file|fn|expression`. -/",
             "namespace Gd.Gen", "",
             "/-- ids of all allocation sites found in the current source -/",
             "def allocSiteIds : List Nat := ["]
    lines += [f"  {site_id(s)}, -- {s[0]} :: {s[1]} :: {s[2]}" for s in sites]
    if sites:
        lines[-1] = lines[-1].replace(",", "", 1) if False else lines[-1]
    lines += ["  0]", "", "end Gd.Gen", ""]
    write_if_changed(os.path.join(GEN, "AllocSites.lean"), "\n".join(lines))
    return sites


# --------------------------------------------------------------------------- C15: CommonResponse / CommonPlayer views

ACCESSORS_R = ["name", "description", "game_mode", "game_version", "map", "players_maximum", "players_online",
               "players_bots", "has_password", "players"]
ACCESSORS_P = ["name", "score"]


def impl_blocks(src):
    for m in re.finditer(r"impl(?:<[^>]*>)?\s+(CommonResponse|CommonPlayer)\s+for\s+([A-Za-z0-9_]+)(?:<[^>]*>)?\s*\{", src):
        i, depth = m.end(), 1
        while depth and i < len(src):
            if src[i] == "{":
                depth += 1
            elif src[i] == "}":
                depth -= 1
            i += 1
        yield m.group(1), m.group(2), src[m.end():i - 1]


def fn_bodies(block):
    out = {}
    for m in re.finditer(r"fn\s+([a-z_]+)\s*\(\s*&self\s*\)\s*->\s*[^{]+\{", block):
        i, depth = m.end(), 1
        while depth and i < len(block):
            if block[i] == "{":
                depth += 1
            elif block[i] == "}":
                depth -= 1
            i += 1
        out[m.group(1)] = re.sub(r"\s+", "", block[m.end():i - 1])
    return out


PATH = r"self((?:\.[a-z_][a-z0-9_]*)+)"


def view_expr(body, src=""):
    """(kind, path) — kinds mirror GdVerif/Proto/Views.lean ViewExpr"""
    m = re.fullmatch(r"Some\(%s\.as_str\(\)\)" % PATH, body) or re.fullmatch(r"%s\.as_ref\(\)\.map\([A-Za-z]+::as_str\)" % PATH, body)
    if m:
        # an enum rendered through its `as_str`: carry the variant ↦ text table along
        fm = re.search(r"fn\s+as_str\s*\(&self\)[^{]*\{\s*match\s+self\s*\{(.*?)\}\s*\}", src, re.S)
        arms = re.findall(r"Self::([A-Za-z0-9_]+)\s*=>\s*\"([^\"]*)\"", fm.group(1)) if fm else []
        return ("enumStr", m.group(1)[1:] + "|" + ",".join(f"{a}={b}" for a, b in arms))
    m = re.fullmatch(r"Some\(&?%s(?:\.into\(\))?\)" % PATH, body)
    if m:
        return ("someField", m.group(1)[1:])
    m = re.fullmatch(r"%s\.as_deref\(\)" % PATH, body)
    if m:
        return ("optField", m.group(1)[1:])
    m = re.fullmatch(r"%s\.try_into\(\)\.unwrap_or\(0\)" % PATH, body)
    if m:
        return ("tryIntoOr0", m.group(1)[1:])
    m = re.fullmatch(r"Some\(%s\.iter\(\)\.map\(\|([a-z]+)\|\2as(?:_|&dynCommonPlayer|&dyncrate::protocols::types::CommonPlayer)\)\.collect\(\),?\)" % PATH, body)
    if m:
        return ("playersAll", m.group(1)[1:])
    m = re.fullmatch(r"%s\.as_ref\(\)\.map\(\|([a-z]+)\|\2\.iter\(\)\.map\(\|([a-z]+)\|\3as&dynCommonPlayer\)\.collect\(\)\)" % PATH, body)
    if m:
        return ("playersOpt", m.group(1)[1:])
    m = re.fullmatch(r"&?%s(?:\.into\(\))?" % PATH, body)
    if m:
        return ("field", m.group(1)[1:])
    return ("unparsed", body)


def original_wraps_self(body):
    # GenericResponse::X(self) | GenericResponse::X(Versioned…::Y(self)) | …::Quake(P::version(self))
    return bool(re.fullmatch(r"(?:[A-Za-z_:]+::)?Generic(?:Response|Player)::[A-Za-z0-9]+\((?:[A-Za-z_:]+\()?self\)?\)", body))


def views():
    out = []
    for root, _, files in os.walk(SRC):
        rel_root = os.path.relpath(root, SRC)
        if rel_root.startswith("capture"):
            continue
        for f in sorted(files):
            if not f.endswith(".rs"):
                continue
            rel = os.path.normpath(os.path.join(rel_root, f))
            src = strip_tests(open(os.path.join(root, f)).read())
            src = re.sub(r"//[^\n]*", "", src)
            for trait, ty, block in impl_blocks(src):
                bodies = fn_bodies(block)
                accs = ACCESSORS_R if trait == "CommonResponse" else ACCESSORS_P
                table = []
                for a in accs:
                    table.append((a, view_expr(bodies[a], src) if a in bodies else ("default", "")))
                extra = sorted(set(bodies) - set(accs) - {"as_original"})
                orig = original_wraps_self(bodies.get("as_original", ""))
                out.append(dict(file=rel, trait=trait, type=ty, table=table, original_wraps_self=orig,
                                extra=extra, as_json_overridden=("as_json" in bodies)))
    return sorted(out, key=lambda d: (d["file"], d["trait"], d["type"]))


def lean_str(s):
    return '"' + s.replace("\\", "\\\\").replace('"', '\\"') + '"'


def gen_views():
    vs = views()
    L = ["/- GENERATED by tools/xlate.py from every `impl CommonResponse for T` / `impl CommonPlayer for T` in crates/lib/src",
         "   on every run — do not edit. -/", "import GdVerif.Proto.Views", "namespace Gd.Gen", "open Gd.Views", "",
         "def implViews : List ImplView := ["]
    items = []
    for v in vs:
        tbl = ", ".join(f"({lean_str(a)}, ViewExpr.{k} {lean_str(p)})" if k != "default" else f"({lean_str(a)}, ViewExpr.default)"
                        for a, (k, p) in v["table"])
        items.append(f"  ⟨{lean_str(v['file'])}, {lean_str(v['trait'])}, {lean_str(v['type'])}, [{tbl}], "
                     f"{'true' if v['original_wraps_self'] else 'false'}, {'true' if v['as_json_overridden'] else 'false'}, "
                     f"[{', '.join(lean_str(e) for e in v['extra'])}]⟩")
    L.append(",\n".join(items))
    L += ["]", "", "end Gd.Gen", ""]
    write_if_changed(os.path.join(GEN, "Views.lean"), "\n".join(L))
    import json
    os.makedirs(os.path.join(V, ".work"), exist_ok=True)
    json.dump(vs, open(os.path.join(V, ".work", "views.json"), "w"), indent=1)
    return vs


# --------------------------------------------------------------------------- C14: game tables

def macro_args(src, start):
    """top-level comma-separated arguments of the macro call whose '(' is at src[start-1]"""
    i, depth, cur, parts, instr = start, 1, "", [], False
    while depth and i < len(src):
        c = src[i]
        if c == '"' and src[i - 1] != "\\":
            instr = not instr
        if not instr:
            if c in "({[":
                depth += 1
            elif c in ")}]":
                depth -= 1
                if depth == 0:
                    break
            if c == "," and depth == 1:
                parts.append(re.sub(r"\s+", " ", cur.strip()))
                cur = ""
                i += 1
                continue
        cur += c
        i += 1
    if cur.strip():
        parts.append(re.sub(r"\s+", " ", cur.strip()))
    return parts


def num(s):
    return int(s.replace("_", ""))


def engine_arg(e):
    """Rust engine expression -> the line protocol's engine argument"""
    e = re.sub(r"\s+", "", e)
    m = re.fullmatch(r"Engine::new\(([0-9_]+)\)", e)
    if m:
        return f"S:{num(m.group(1))}"
    m = re.fullmatch(r"Engine::new_with_dedicated\(([0-9_]+),([0-9_]+)\)", e)
    if m:
        return f"S:{num(m.group(1))}:{num(m.group(2))}"
    m = re.fullmatch(r"Engine::new_gold_src\((true|false)\)", e)
    if m:
        return "G:1" if m.group(1) == "true" else "G:0"
    return "?" + e


def gather_arg(g):
    if g is None:
        return "ttT"
    g = re.sub(r"\s+", "", g).replace(".into_extra()", "")
    if g == "GatheringSettings::default()":
        return "ttT"
    m = re.fullmatch(r"GatheringSettings\{players:GatherToggle::(\w+),rules:GatherToggle::(\w+),check_app_id:(true|false),?\}", g)
    if m:
        t = {"Skip": "s", "Try": "t", "Enforce": "e"}
        return t[m.group(1)] + t[m.group(2)] + ("T" if m.group(3) == "true" else "F")
    return "?" + g


def game_tables():
    gdir = os.path.join(SRC, "games")
    src = re.sub(r"//[^\n]*", "", open(os.path.join(gdir, "definitions.rs")).read())
    consts = {}
    defs = []
    for m in re.finditer(r'"([a-z0-9]+)"\s*=>\s*game!\(', src):
        a = macro_args(src, m.end())
        proto_src = re.sub(r"\s+", "", a[2])
        engine, proto = "-", "?" + proto_src
        pm = re.fullmatch(r"Protocol::Valve\((.*)\)", proto_src)
        if pm:
            proto, engine = "valve", engine_arg(pm.group(1))
        elif proto_src.startswith("Protocol::Gamespy(GameSpyVersion::"):
            proto = "gs" + {"One": "1", "Two": "2", "Three": "3"}[proto_src[len("Protocol::Gamespy(GameSpyVersion::"):-1]]
        elif proto_src.startswith("Protocol::Quake(QuakeVersion::"):
            proto = "quake" + {"One": "1", "Two": "2", "Three": "3"}[proto_src[len("Protocol::Quake(QuakeVersion::"):-1]]
        elif proto_src == "Protocol::Unreal2":
            proto = "unreal2"
        elif proto_src.startswith("Protocol::PROPRIETARY(ProprietaryProtocol::"):
            proto = "prop:" + proto_src[len("Protocol::PROPRIETARY(ProprietaryProtocol::"):-1]
        port = a[1]
        if not re.fullmatch(r"[0-9_]+", port):
            # a constant such as crate::games::mindustry::DEFAULT_PORT
            cm = re.fullmatch(r"crate::games::([a-z0-9_]+)::([A-Z_]+)", port)
            val = None
            if cm:
                for cand in ("mod.rs", "protocol.rs", "types.rs"):
                    fp = os.path.join(gdir, cm.group(1), cand)
                    if os.path.exists(fp):
                        km = re.search(r"const\s+%s\s*:\s*u16\s*=\s*([0-9_]+)" % cm.group(2), open(fp).read())
                        if km:
                            val = km.group(1)
            port = val or "0"
        defs.append(dict(id=m.group(1), name=a[0].strip('"'), port=num(port), proto=proto, engine=engine,
                         gather=gather_arg(a[3] if len(a) > 3 else None) if proto == "valve" else "-"))
    mods = []
    for fam in ("valve", "gamespy", "quake", "unreal2"):
        msrc = re.sub(r"//[^\n]*", "", open(os.path.join(gdir, fam + ".rs")).read())
        for m in re.finditer(r"game_query_mod!\(", msrc):
            a = macro_args(msrc, m.end())
            if fam == "valve":
                mods.append(dict(id=a[0], name=a[1].strip('"'), port=num(a[3]), proto="valve", engine=engine_arg(a[2]),
                                 gather=gather_arg(a[4] if len(a) > 4 else None)))
            elif fam == "gamespy":
                mods.append(dict(id=a[0], name=a[1].strip('"'), port=num(a[3]), proto="gs" + {"one": "1", "two": "2", "three": "3"}[a[2]],
                                 engine="-", gather="-"))
            elif fam == "quake":
                mods.append(dict(id=a[0], name=a[1].strip('"'), port=num(a[3]), proto="quake" + {"one": "1", "two": "2", "three": "3"}[a[2]],
                                 engine="-", gather="-"))
            else:
                mods.append(dict(id=a[0], name=a[1].strip('"'), port=num(a[2]), proto="unreal2", engine="-", gather="-"))
    # hand-written modules: default port = the `port.unwrap_or(<n>)` of their query function
    for mod, proto in (("theship", "prop:TheShip"), ("ffow", "prop:FFOW"), ("jc2m", "prop:JC2M"), ("savage2", "prop:Savage2"),
                       ("eco", "prop:Eco"), ("mindustry", "prop:Mindustry"), ("battalion1944", "valve")):
        cands = [os.path.join(gdir, mod + ".rs"), os.path.join(gdir, mod, "protocol.rs"), os.path.join(gdir, mod, "mod.rs")]
        port, engine = None, "-"
        for fp in cands:
            if not os.path.exists(fp):
                continue
            text = open(fp).read()
            pm = re.search(r"port\.unwrap_or\(([0-9_]+|[A-Z_]+)\)", text)
            if pm and port is None:
                v = pm.group(1)
                if not v[0].isdigit():
                    km = None
                    for fp2 in cands:
                        if os.path.exists(fp2):
                            km = km or re.search(r"const\s+%s\s*:\s*u16\s*=\s*([0-9_]+)" % v, open(fp2).read())
                    v = km.group(1) if km else "0"
                port = num(v)
            em = re.search(r"Engine::new(?:_with_dedicated|_gold_src)?\([^)]*\)", text)
            if em and proto == "valve":
                engine = engine_arg(em.group(0))
        mods.append(dict(id=mod, name="(hand-written module)", port=port or 0, proto=proto, engine=engine,
                         gather="ttT" if proto == "valve" else "-"))
    mods += minecraft_module_rows(gdir, defs)
    for r in defs + mods:
        r.setdefault("port2", r["port"])
        r["hand"] = r["name"] == "(hand-written module)"
    return defs, mods


def rs_fn_bodies(src):
    """name -> body text of every `fn name(…) … { … }` of a source file"""
    out = {}
    for m in re.finditer(r"\bfn\s+(\w+)\s*\(", src):
        i = src.find("{", m.end())
        if i < 0:
            continue
        depth, j = 1, i + 1
        while depth and j < len(src):
            depth += {"{": 1, "}": -1}.get(src[j], 0)
            j += 1
        out[m.group(1)] = src[i:j]
    return out


def minecraft_module_rows(gdir, defs):
    """games/minecraft/mod.rs has one function per variant; the row of a definition is the function a caller of the module
    uses for that game (`query`, `query_java`, `query_bedrock`, `query_legacy_specific`) with the default port that function
    applies (`port_or_java_default` / `port_or_bedrock_default`).  `query` (auto-detect) probes Java, Bedrock and the legacy
    variants through the module's own functions: port = the default of the Java (and legacy) probes, port2 = the default of
    the Bedrock probe."""
    fp = os.path.join(gdir, "minecraft", "mod.rs")
    if not os.path.exists(fp):
        return []
    bodies = rs_fn_bodies(re.sub(r"//[^\n]*", "", open(fp).read()))
    defaults = {}
    for name, body in bodies.items():
        m = re.fullmatch(r"port_or_(\w+)_default", name)
        km = re.search(r"port\.unwrap_or\(([0-9_]+)\)", body)
        if m and km:
            defaults[m.group(1)] = num(km.group(1))

    def port_of(fn):
        m = re.search(r"port_or_(\w+)_default\(port\)", bodies.get(fn, ""))
        return defaults.get(m.group(1), 0) if m else 0
    rows = []
    for d in defs:
        if not d["proto"].startswith("prop:Minecraft("):
            continue
        v = d["proto"][len("prop:Minecraft("):-1]
        fn = {"None": "query", "Some(Server::Java)": "query_java", "Some(Server::Bedrock)": "query_bedrock"}.get(v)
        if fn is None and v.startswith("Some(Server::Legacy("):
            fn = "query_legacy_specific"
        if fn is None or fn not in bodies:
            continue
        if fn == "query":
            calls = re.findall(r"\b(query_\w+)\(address, port", bodies["query"])
            ports = [port_of(c) for c in calls]
            ok = calls == ["query_java", "query_bedrock", "query_legacy"] and ports[0] == ports[2]
            port, port2 = (ports[0], ports[1]) if ok else (0, 0)
        else:
            port = port2 = port_of(fn)
        rows.append(dict(id=d["id"], name="(hand-written module)", port=port, port2=port2, proto=d["proto"], engine="-", gather="-"))
    return rows


def proto_tag(d):
    """the row's protocol and parameters as a term of the generated `ProtoTag` type (typed twin of proto/engine/gather)"""
    p = d["proto"]
    if p == "valve":
        m = re.fullmatch(r"S:(\d+)(?::(\d+))?", d["engine"])
        if m:
            eng = f"(.source {m.group(1)} {'(some ' + m.group(2) + ')' if m.group(2) else 'none'})"
        elif d["engine"] in ("G:0", "G:1"):
            eng = f"(.goldSrc {'true' if d['engine'] == 'G:1' else 'false'})"
        else:
            return ".other"
        g = d["gather"]
        if not re.fullmatch(r"[ste][ste][TF]", g):
            return ".other"
        t = {"s": ".skip", "t": ".try_", "e": ".enforce"}
        return f".valve {eng} {t[g[0]]} {t[g[1]]} {'true' if g[2] == 'T' else 'false'}"
    simple = {"gs1": ".gs1", "gs2": ".gs2", "gs3": ".gs3", "quake1": ".quake1", "quake2": ".quake2", "quake3": ".quake3",
              "unreal2": ".unreal2", "prop:Savage2": ".savage2", "prop:TheShip": ".theShip", "prop:FFOW": ".ffow",
              "prop:JC2M": ".jc2m", "prop:Mindustry": ".mindustry", "prop:Eco": ".eco",
              "prop:Minecraft(None)": ".minecraft .auto", "prop:Minecraft(Some(Server::Java))": ".minecraft .java",
              "prop:Minecraft(Some(Server::Bedrock))": ".minecraft .bedrock",
              "prop:Minecraft(Some(Server::Legacy(LegacyGroup::V1_6)))": ".minecraft .legacy16",
              "prop:Minecraft(Some(Server::Legacy(LegacyGroup::V1_4)))": ".minecraft .legacy14",
              "prop:Minecraft(Some(Server::Legacy(LegacyGroup::VB1_8)))": ".minecraft .legacyB18"}
    return simple.get(p, ".other")


def gen_games():
    defs, mods = game_tables()

    def row(d):
        tag = proto_tag(d)
        ok = (not (d["proto"].startswith("?") or d["engine"].startswith("?") or d["gather"].startswith("?")) and d["port"] != 0
              and d["port2"] != 0 and tag != ".other")
        return (f"  ⟨{lean_str(d['id'])}, {lean_str(d['name'])}, {d['port']}, {lean_str(d['proto'])}, {lean_str(d['engine'])}, "
                f"{lean_str(d['gather'])}, {'true' if ok else 'false'}, {d['port2']}, {'true' if d['hand'] else 'false'}, {tag}⟩")
    L = ["/- GENERATED by tools/xlate.py on every run — do not edit.",
         "   defs: the GAMES table of games/definitions.rs;  mods: every game_query_mod! invocation of",
         "   games/{valve,gamespy,quake,unreal2}.rs and the hand-written game modules (default port = their",
         "   `port.unwrap_or(n)`; the minecraft module: one row per definition id, the module function for that variant).",
         "   engine/gather use the line protocol's argument syntax; `tag` is their typed twin. -/",
         "namespace Gd.Gen", "",
         "/-- `GatherToggle` -/", "inductive Tog | skip | try_ | enforce", "  deriving Repr, DecidableEq", "",
         "/-- `valve::Engine`: `Engine::new(a)` = `source a none`, `Engine::new_with_dedicated(a, d)` = `source a (some d)`,",
         "`Engine::new_gold_src(f)` = `goldSrc f` -/",
         "inductive EngineTag", "  | source (appid : Nat) (dedicated : Option Nat)", "  | goldSrc (force : Bool)", "  deriving Repr, DecidableEq", "",
         "/-- the argument of `ProprietaryProtocol::Minecraft`: `None` = auto, `Some(Server::…)` -/",
         "inductive McTag | auto | java | bedrock | legacy16 | legacy14 | legacyB18", "  deriving Repr, DecidableEq", "",
         "/-- the `Protocol` of a row with its parameters (typed twin of the `proto` / `engine` / `gather` texts; for Valve rows the",
         "gathering settings are the row's `GatheringSettings { players, rules, check_app_id }`) -/",
         "inductive ProtoTag",
         "  | valve (engine : EngineTag) (players rules : Tog) (checkAppId : Bool)",
         "  | gs1 | gs2 | gs3 | quake1 | quake2 | quake3 | unreal2",
         "  | savage2 | theShip | ffow | jc2m | mindustry | eco",
         "  | minecraft (k : McTag)",
         "  /-- a protocol or an expression outside the translator's grammar -/",
         "  | other",
         "  deriving Repr, DecidableEq", "",
         "structure GameRow where", "  id : String", "  name : String", "  port : Nat", "  proto : String", "  engine : String",
         "  gather : String",
         "  /-- every expression of the row was in the translator's grammar -/", "  understood : Bool",
         "  /-- second default port of the row: for the Minecraft auto-detect module function the default of its Bedrock probe;",
         "  equal to `port` for every other row -/", "  port2 : Nat",
         "  /-- a hand-written game module (not a `game_query_mod!` invocation) -/", "  hand : Bool",
         "  tag : ProtoTag",
         "  deriving Repr, DecidableEq", "",
         "def gameDefs : List GameRow := [", ",\n".join(row(d) for d in defs), "]", "",
         "def gameMods : List GameRow := [", ",\n".join(row(d) for d in mods), "]", "",
         "/-- (id, name) of every shipped definition, as byte strings (for the id-naming checker, C20) -/",
         "def shippedIds : List (List UInt8 × List UInt8) := [",
         ",\n".join("  ([" + ", ".join(str(b) for b in d["id"].encode()) + "], [" + ", ".join(str(b) for b in d["name"].encode()) + "])" for d in defs),
         "]", "", "end Gd.Gen", ""]
    write_if_changed(os.path.join(GEN, "Games.lean"), "\n".join(L))
    import json
    os.makedirs(os.path.join(V, ".work"), exist_ok=True)
    json.dump(dict(defs=defs, mods=mods), open(os.path.join(V, ".work", "games.json"), "w"), indent=1)
    # harness dispatch table for the dedicated modules
    H = ["// GENERATED by tools/xlate.py on every run — do not edit.", "// Dispatch from a module name to the game's dedicated query function.",
         "#![allow(clippy::all)]", "use std::net::IpAddr;", "",
         "pub fn valve_module(id: &str, ip: &IpAddr, port: Option<u16>) -> Option<gamedig::GDResult<gamedig::protocols::valve::game::Response>> {",
         "    Some(match id {"]
    for d in mods:
        if d["proto"] == "valve" and d["name"] != "(hand-written module)":
            H.append(f'        "{d["id"]}" => gamedig::games::{d["id"]}::query(ip, port),')
    H += ['        "battalion1944" => gamedig::games::battalion1944::query(ip, port),', "        _ => return None,", "    })", "}", ""]
    # every other dedicated module: result in the protocol-independent canonical form (sorted JSON of as_original()) for the
    # three-path oracle, and printed per family (harness/src/dispatch.rs) for the correspondence with the dispatch model
    for fn, ty, conv in (("any_module", "crate::games::AnyResp", "crate::games::canon_any"),
                         ("disp_module", "crate::dispatch::DispResp", "crate::dispatch::canon")):
        H += [f"pub fn {fn}(id: &str, ip: &IpAddr, port: Option<u16>) -> Option<gamedig::GDResult<{ty}>> {{",
              f"    use {conv} as c;", "    Some(match id {"]
        for d in mods:
            if d["proto"] != "valve" and d["name"] != "(hand-written module)":
                H.append(f'        "{d["id"]}" => gamedig::games::{d["id"]}::query(ip, port).map(|r| c(&r)),')
        for mod in ("theship", "ffow", "jc2m", "savage2"):
            H.append(f'        "{mod}" => gamedig::games::{mod}::query(ip, port).map(|r| c(&r)),')
        H += ['        "mindustry" => gamedig::games::mindustry::query(ip, port, &None).map(|r| c(&r)),',
              '        "minecraft" => gamedig::games::minecraft::query(ip, port).map(|r| c(&r)),',
              '        "minecraftjava" => gamedig::games::minecraft::query_java(ip, port, None).map(|r| c(&r)),',
              '        "minecraftbedrock" | "minecraftpocket" => gamedig::games::minecraft::query_bedrock(ip, port).map(|r| c(&r)),',
              '        "minecraftlegacy16" => gamedig::games::minecraft::query_legacy_specific(gamedig::games::minecraft::LegacyGroup::V1_6, ip, port).map(|r| c(&r)),',
              '        "minecraftlegacy14" => gamedig::games::minecraft::query_legacy_specific(gamedig::games::minecraft::LegacyGroup::V1_4, ip, port).map(|r| c(&r)),',
              '        "minecraftlegacyb18" => gamedig::games::minecraft::query_legacy_specific(gamedig::games::minecraft::LegacyGroup::VB1_8, ip, port).map(|r| c(&r)),',
              "        _ => return None,", "    })", "}", ""]
    write_if_changed(os.path.join(V, "harness", "src", "gen_games.rs"), "\n".join(H))
    return defs, mods


# --------------------------------------------------------------------------- constants and small tables (Gen/Consts.lean)

class ConstError(Exception):
    pass


_SRC_CACHE = {}


def csrc(rel):
    """a source file of crates/lib/src without its tests and without `//` comments"""
    if rel not in _SRC_CACHE:
        fp = os.path.join(SRC, rel)
        if not os.path.exists(fp):
            raise ConstError(f"file {rel} does not exist")
        _SRC_CACHE[rel] = re.sub(r"//[^\n]*", "", strip_tests(open(fp).read()))
    return _SRC_CACHE[rel]


def need(pattern, text, what, flags=re.S):
    m = re.search(pattern, text, flags)
    if not m:
        raise ConstError(f"{what}: not found in the expected shape /{pattern}/")
    return m


def need_all(pattern, text, what, count=None, at_least=1, flags=re.S):
    ms = re.findall(pattern, text, flags)
    if (count is not None and len(ms) != count) or len(ms) < at_least:
        raise ConstError(f"{what}: expected {count if count is not None else 'at least ' + str(at_least)} "
                         f"occurrence(s) of /{pattern}/, found {len(ms)}")
    return ms


def block(text, header, what):
    """the `{ … }` group that follows the first match of `header`"""
    m = need(header, text, what)
    i = text.find("{", m.end() - 1 if text[m.end() - 1] == "{" else m.end())
    if i < 0:
        raise ConstError(f"{what}: no block after /{header}/")
    return balanced(text, i, "{", "}")


def rust_int(s, what="number"):
    """value of a Rust integer expression of the few shapes the library uses"""
    s = s.strip()
    if "*" in s:
        v = 1
        for f in s.split("*"):
            v *= rust_int(f, what)
        return v
    m = re.fullmatch(r"\(?\s*(-?[0-9][0-9_]*)i8\s+as\s+u8\s*\)?", s)
    if m:
        return int(m.group(1).replace("_", "")) % 256
    m = re.fullmatch(r"b'(\\.|[^\\'])'", s)
    if m:
        return rust_str(m.group(1), what).encode()[0]
    m = re.fullmatch(r"'(\\x[0-9a-fA-F]{2}|\\.|[^\\'])'", s)
    if m:
        return ord(rust_str(m.group(1), what))
    if s in ("u32::MAX", "u16::MAX", "u8::MAX", "u64::MAX"):
        return 2 ** int(s[1:s.index(":")]) - 1
    m = re.fullmatch(r"(-?)(0x[0-9a-fA-F_]+|[0-9][0-9_]*)(?:u8|u16|u32|u64|usize|i8|i16|i32|i64|isize)?", s)
    if not m:
        raise ConstError(f"{what}: `{s}` is not an integer literal the translator understands")
    v = int(m.group(2).replace("_", ""), 0)
    return -v if m.group(1) else v


def rust_str(body, what="string"):
    """the text of a Rust (byte) string literal, given what stands between the quotes"""
    out, i = [], 0
    while i < len(body):
        c = body[i]
        if c != "\\":
            out.append(c)
            i += 1
            continue
        e = body[i + 1] if i + 1 < len(body) else ""
        if e == "x":
            out.append(chr(int(body[i + 2:i + 4], 16)))
            i += 4
        elif e in "0nrt\\\"'":
            out.append({"0": "\0", "n": "\n", "r": "\r", "t": "\t", "\\": "\\", '"': '"', "'": "'"}[e])
            i += 2
        else:
            raise ConstError(f"{what}: escape `\\{e}` not understood")
    return "".join(out)


STR = r'"((?:[^"\\]|\\.)*)"'


def rust_bytes(list_body, what="byte list"):
    """`0xFE, 0xFD, 0x00` -> [254, 253, 0]"""
    parts = [x for x in (y.strip() for y in list_body.split(",")) if x]
    vals = [rust_int(x, what) for x in parts]
    for v in vals:
        if not 0 <= v < 256:
            raise ConstError(f"{what}: {v} is not a byte")
    return vals


def str_bytes(s):
    return list(s.encode("utf-8"))


def lean_val(v):
    if isinstance(v, bool):
        return "true" if v else "false"
    if isinstance(v, int):
        return str(v) if v >= 0 else f"({v})"
    if isinstance(v, str):
        out = ['"']
        for ch in v:
            if ch == "\\":
                out.append("\\\\")
            elif ch == '"':
                out.append('\\"')
            elif ch == "\n":
                out.append("\\n")
            elif ord(ch) < 32 or ord(ch) == 127:
                out.append("\\x%02x" % ord(ch))
            else:
                out.append(ch)
        return "".join(out) + '"'
    if isinstance(v, tuple):
        return "(" + ", ".join(lean_val(x) for x in v) + ")"
    if isinstance(v, list):
        return "[" + ", ".join(lean_val(x) for x in v) + "]"
    raise ConstError(f"cannot render {v!r}")


CONST_ITEMS = []


def const(name, ty, rel, what):
    """register an extractor: `fn(src) -> value` for the item `what` of file `rel`, written as `def name : ty`"""
    def deco(fn):
        CONST_ITEMS.append((name, ty, rel, what, fn))
        return fn
    return deco


BYTES = "List UInt8"
F_VT = "protocols/valve/types.rs"
F_VP = "protocols/valve/protocol.rs"
F_G1 = "protocols/gamespy/protocols/one/protocol.rs"
F_G2 = "protocols/gamespy/protocols/two/protocol.rs"
F_G3 = "protocols/gamespy/protocols/three/protocol.rs"
F_GC = "protocols/gamespy/common.rs"
F_QC = "protocols/quake/client.rs"
F_UP = "protocols/unreal2/protocol.rs"
F_UT = "protocols/unreal2/types.rs"
F_MS = "services/valve_master_server/service.rs"
F_MT = "services/valve_master_server/types.rs"
F_PT = "protocols/types.rs"


def const_decl(src, name, ty="usize", what=None):
    m = need(r"\b(?:const|static)\s+%s\s*:\s*%s\s*=\s*([^;]+);" % (name, re.escape(ty)), src, what or f"const {name}")
    return m.group(1)


def enum_codes(src, enum, what):
    body = block(src, r"\benum\s+%s\s*\{" % enum, what)
    return [(n, rust_int(v, what)) for n, v in need_all(r"\b([A-Z]\w*)\s*=\s*(0x[0-9A-Fa-f]+|[0-9]+)\s*,", body, what)]


def match_arms_to(src_block, target, what, at_least=1):
    """`68 => Server::Dedicated,` / `109 | 111 => Self::Mac,` -> [(68, "Dedicated"), (109, "Mac"), (111, "Mac")], ascending"""
    out = []
    for codes, variant in need_all(r"((?:[0-9]+\s*\|\s*)*[0-9]+)\s*=>\s*(?:Ok\()?%s(\w+)" % target, src_block, what, at_least=at_least):
        for c in codes.split("|"):
            out.append((rust_int(c, what), variant))
    if len({c for c, _ in out}) != len(out):
        raise ConstError(f"{what}: a code occurs in two arms")
    return sorted(out)  # the arms are disjoint literals: their order carries no meaning


# ---- Valve

@const("valve_request_kinds", "List (String × Nat)", F_VT, "enum Request (discriminants)")
def _(s):
    r = enum_codes(s, "Request", "enum Request")
    if [n for n, _ in r] != ["Info", "Players", "Rules"]:
        raise ConstError(f"enum Request: variants are {[n for n, _ in r]}, expected Info, Players, Rules")
    return r


@const("valve_info_payload", BYTES, F_VT, "Request::get_default_payload, arm Self::Info")
def _(s):
    b = block(s, r"fn\s+get_default_payload\b", "Request::get_default_payload")
    return str_bytes(rust_str(need(r"Self::Info\s*=>\s*String::from\(%s\)\.into_bytes\(\)" % STR, b, "Info payload").group(1)))


@const("valve_default_payload", BYTES, F_VT, "Request::get_default_payload, arm `_`")
def _(s):
    b = block(s, r"fn\s+get_default_payload\b", "Request::get_default_payload")
    return rust_bytes(need(r"_\s*=>\s*vec!\[([^\]]*)\]", b, "default payload").group(1))


@const("valve_packet_header", BYTES, F_VT, "Packet::new header (u32, written by to_bytes with to_be_bytes)")
def _(s):
    imp = block(s, r"\bimpl\s+Packet\s*\{", "impl Packet")
    v = rust_int(need(r"header:\s*([A-Za-z0-9_:]+)\s*,", block(imp, r"fn\s+new\s*\(", "Packet::new"), "Packet::new header").group(1))
    need(r"self\.header\.to_be_bytes\(\)", block(imp, r"fn\s+to_bytes\b", "Packet::to_bytes"), "Packet::to_bytes: header.to_be_bytes()")
    return list(v.to_bytes(4, "big"))


def _gldsrc(s, ty):
    imp = block(s, r"\bimpl\s+%s\s*\{" % ty, f"impl {ty}")
    f = block(imp, r"fn\s+from_gldsrc\b", f"{ty}::from_gldsrc")
    need(r"match\s+value\.to_ascii_lowercase\(\)", f, f"{ty}::from_gldsrc: match value.to_ascii_lowercase()")
    return match_arms_to(f, "Self::", f"{ty}::from_gldsrc arms", at_least=2)


@const("valve_server_from_gldsrc", "List (Nat × String)", F_VT, "Server::from_gldsrc (byte after to_ascii_lowercase ↦ variant)")
def _(s):
    return _gldsrc(s, "Server")


@const("valve_environment_from_gldsrc", "List (Nat × String)", F_VT, "Environment::from_gldsrc (byte after to_ascii_lowercase ↦ variant)")
def _(s):
    return _gldsrc(s, "Environment")


@const("valve_gather_default", "List (String × String)", F_VT, "GatheringSettings::default")
def _(s):
    f = block(block(s, r"\bimpl\s+GatheringSettings\s*\{", "impl GatheringSettings"), r"fn\s+default\b", "GatheringSettings::default")
    return [("players", need(r"players:\s*GatherToggle::(\w+)", f, "players").group(1)),
            ("rules", need(r"rules:\s*GatherToggle::(\w+)", f, "rules").group(1)),
            ("check_app_id", need(r"check_app_id:\s*(true|false)", f, "check_app_id").group(1))]


@const("valve_packet_size", "Nat", F_VP, "static PACKET_SIZE")
def _(s):
    return rust_int(const_decl(s, "PACKET_SIZE"))


@const("valve_max_decompressed_size", "Nat", F_VP, "const MAX_DECOMPRESSED_SIZE")
def _(s):
    return rust_int(const_decl(s, "MAX_DECOMPRESSED_SIZE"))


@const("valve_split_header", "Nat", F_VP, "ValveProtocol::receive: `if header == 0xFE`")
def _(s):
    f = block(s, r"fn\s+receive\s*\(", "ValveProtocol::receive")
    return rust_int(need(r"if\s+header\s*==\s*(0x[0-9A-Fa-f]+|[0-9]+)\s*\{", f, "split header test").group(1))


@const("valve_challenge_kind", "Nat", F_VP, "get_request_data_impl: `while packet.kind == 0x41`")
def _(s):
    f = block(s, r"fn\s+get_request_data_impl\b", "get_request_data_impl")
    return rust_int(need(r"while\s+packet\.kind\s*==\s*(0x[0-9A-Fa-f]+|[0-9]+)\s*\{", f, "challenge kind").group(1))


def _css(s):
    f = block(block(s, r"\bimpl\s+SplitPacket\s*\{", "impl SplitPacket"), r"fn\s+new\s*\(", "SplitPacket::new")
    m = need(r"let\s+size\s*=\s*match\s+protocol\s*==\s*([0-9]+)\s*&&\s*\(\*engine\s*==\s*Engine::new\(([0-9_]+)\)\)\s*\{(.*?)\}", f,
             "SplitPacket::new: the `size` special case")
    t = need(r"true\s*=>\s*([0-9_]+)\s*,", m.group(3), "SplitPacket::new: size when the field is absent")
    need(r"false\s*=>\s*buffer\.read\(\)\?", m.group(3), "SplitPacket::new: size read otherwise")
    return rust_int(m.group(1)), rust_int(m.group(2)), rust_int(t.group(1))


@const("valve_css_protocol", "Nat", F_VP, "SplitPacket::new: protocol of the split header without size field")
def _(s):
    return _css(s)[0]


@const("valve_css_appid", "Nat", F_VP, "SplitPacket::new: app id of the split header without size field")
def _(s):
    return _css(s)[1]


@const("valve_css_split_size", "Nat", F_VP, "SplitPacket::new: size assumed when the field is absent")
def _(s):
    return _css(s)[2]


@const("valve_compressed_bit", "Nat", F_VP, "SplitPacket::new: `(id >> 31) & 1`")
def _(s):
    f = block(block(s, r"\bimpl\s+SplitPacket\s*\{", "impl SplitPacket"), r"fn\s+new\s*\(", "SplitPacket::new")
    return rust_int(need(r"\(\(id\s*>>\s*([0-9]+)\)\s*&\s*1u32\)\s*==\s*1u32", f, "compressed bit").group(1))


@const("valve_goldsrc_server_types", "List (Nat × String)", F_VP, "get_goldsrc_server_info: server_type match")
def _(s):
    f = block(s, r"fn\s+get_goldsrc_server_info\b", "get_goldsrc_server_info")
    return match_arms_to(block(f, r"let\s+server_type\s*=\s*match\b", "server_type match"), "Server::", "server_type arms", at_least=2)


@const("valve_goldsrc_environments", "List (Nat × String)", F_VP, "get_goldsrc_server_info: environment_type match")
def _(s):
    f = block(s, r"fn\s+get_goldsrc_server_info\b", "get_goldsrc_server_info")
    return match_arms_to(block(f, r"let\s+environment_type\s*=\s*match\b", "environment_type match"), "Environment::", "environment arms", at_least=2)


@const("valve_edf_flags", "List (String × Nat)", F_VP, "get_server_info: extra data flag of each ExtraData field")
def _(s):
    f = block(s, r"fn\s+get_server_info\b", "get_server_info")
    r = need_all(r"(\w+):\s*match\s*\(value\s*&\s*(0x[0-9A-Fa-f]+)\)\s*>\s*0", f, "extra data flags", count=6)
    return [(n, rust_int(v)) for n, v in r]


@const("valve_appid_mask_bits", "Nat", F_VP, "get_server_info: `gid & ((1 << 24) - 1)`")
def _(s):
    f = block(s, r"fn\s+get_server_info\b", "get_server_info")
    return rust_int(need(r"gid\s*&\s*\(\(1\s*<<\s*([0-9]+)\)\s*-\s*1\)", f, "app id mask").group(1))


@const("valve_the_ship_appids", "List Nat", F_VP, "Engine::new(2400) tests of get_server_info (the_ship) and get_server_players (deaths, money)")
def _(s):
    a = need_all(r"match\s+\*engine\s*==\s*Engine::new\(([0-9_]+)\)", block(s, r"fn\s+get_server_info\b", "get_server_info"), "the_ship test", count=1)
    b = need_all(r"match\s+\*engine\s*==\s*Engine::new\(([0-9_]+)\)", block(s, r"fn\s+get_server_players\b", "get_server_players"), "deaths/money tests", count=2)
    return [rust_int(x) for x in a + b]


@const("valve_ror2_appid", "Nat", F_VP, "get_server_rules: `if *engine == Engine::new(632_360)`")
def _(s):
    f = block(s, r"fn\s+get_server_rules\b", "get_server_rules")
    return rust_int(need(r"if\s+\*engine\s*==\s*Engine::new\(([0-9_]+)\)", f, "ROR2 app id").group(1))


@const("valve_ror2_removed_rule", "String", F_VP, "get_server_rules: `rules.remove(\"Test\")`")
def _(s):
    f = block(s, r"fn\s+get_server_rules\b", "get_server_rules")
    return rust_str(need(r"rules\.remove\(%s\)" % STR, f, "removed rule").group(1))


# ---- GameSpy 1

def removes_in_order(f, what, password_marker=True):
    """keys taken out of `server_vars` by a `query` function, in source order; `has_password(&mut server_vars)` stands for the
    key common.rs removes"""
    keys = []
    for m in re.finditer(r"server_vars\s*\.remove\(%s\)|has_password\(&mut\s+server_vars\)" % STR, f):
        if m.group(1) is not None:
            keys.append(rust_str(m.group(1)))
        elif password_marker:
            keys.append(password_key())
    if not keys:
        raise ConstError(f"{what}: no `server_vars.remove(\"…\")` found")
    return keys


def password_key():
    f = block(csrc(F_GC), r"fn\s+has_password\b", "common.rs has_password")
    return rust_str(need(r"server_vars\s*\.remove\(%s\)" % STR, f, "has_password key").group(1))


@const("gs_password_key", "String", F_GC, "has_password: `server_vars.remove(\"password\")`")
def _(s):
    return password_key()


@const("gs1_packet_size", "Nat", F_G1, "const PACKET_SIZE")
def _(s):
    return rust_int(const_decl(s, "PACKET_SIZE"))


@const("gs1_status_request", BYTES, F_G1, "get_server_values_impl: `socket.send(b\"\\\\status\\\\xserverquery\")`")
def _(s):
    f = block(s, r"fn\s+get_server_values_impl\b", "get_server_values_impl")
    return str_bytes(rust_str(need(r"socket\.send\(b%s\)" % STR, f, "status request").group(1)))


@const("gs1_final_key", "String", F_G1, "get_server_values_impl: `server_values.remove(\"final\")`")
def _(s):
    f = block(s, r"fn\s+get_server_values_impl\b", "get_server_values_impl")
    return rust_str(need(r"let\s+is_final\s*=\s*server_values\.remove\(%s\)" % STR, f, "final key").group(1))


@const("gs1_queryid_key", "String", F_G1, "get_server_values_impl: `server_values.get(\"queryid\")` / `.remove(\"queryid\")`")
def _(s):
    f = block(s, r"fn\s+get_server_values_impl\b", "get_server_values_impl")
    a = rust_str(need(r"let\s+query_data\s*=\s*server_values\.get\(%s\)" % STR, f, "queryid get").group(1))
    b = rust_str(need(r"server_values\.remove\(%s\);" % STR, f, "queryid remove").group(1))
    if a != b:
        raise ConstError(f"queryid key: get uses {a!r}, remove uses {b!r}")
    return a


@const("gs1_player_kinds", "List String", F_G1, "extract_players: the field kinds of the `match kind` arm")
def _(s):
    f = block(s, r"fn\s+extract_players\b", "extract_players")
    m = need(r"let\s+early_return\s*=\s*match\s+kind\s*\{\s*((?:\"\w+\"\s*\|?\s*)+)=>\s*false", f, "player field kinds")
    return [rust_str(x) for x in re.findall(STR, m.group(1))]


@const("gs1_player_gets", "List String", F_G1, "extract_players: `player_data.get(\"…\")` keys, in source order")
def _(s):
    f = block(s, r"fn\s+extract_players\b", "extract_players")
    return [rust_str(x) for x in need_all(r"player_data\s*\.get\(%s\)" % STR, f, "player_data.get keys", at_least=5)]


@const("gs1_typed_keys", "List String", F_G1, "query: keys removed from server_vars, in source order (has_password = its key)")
def _(s):
    return removes_in_order(block(s, r"pub\s+fn\s+query\b", "one::query"), "one::query")


@const("gs1_tournament_default", "String", F_G1, "query: tournament `unwrap_or_else(|| \"true\".to_string())`")
def _(s):
    f = block(s, r"pub\s+fn\s+query\b", "one::query")
    return rust_str(need(r"\.remove\(\"tournament\"\)\s*\.unwrap_or_else\(\|\|\s*%s\.to_string\(\)\)" % STR, f, "tournament default").group(1))


# ---- GameSpy 2

@const("gs2_packet_size", "Nat", F_G2, "const PACKET_SIZE")
def _(s):
    return rust_int(const_decl(s, "PACKET_SIZE"))


@const("gs2_request", BYTES, F_G2, "request_data_impl: the bytes sent")
def _(s):
    f = block(s, r"fn\s+request_data_impl\b", "request_data_impl")
    return rust_bytes(need(r"\.send\(&\[([^\]]*)\]\)", f, "request bytes").group(1))


@const("gs2_reply_header", "List Nat", F_G2, "request_data_impl: `read::<u8>() != 0 || read::<u32>() != 1`")
def _(s):
    f = block(s, r"fn\s+request_data_impl\b", "request_data_impl")
    m = need(r"buf\.read::<u8>\(\)\?\s*!=\s*([0-9]+)\s*\|\|\s*buf\.read::<u32>\(\)\?\s*!=\s*([0-9]+)", f, "reply header check")
    return [rust_int(m.group(1)), rust_int(m.group(2))]


@const("gs2_typed_keys", "List String", F_G2, "query: keys removed from server_vars, in source order")
def _(s):
    return removes_in_order(block(s, r"pub\s+fn\s+query\b", "two::query"), "two::query")


@const("gs2_player_columns", "List String", F_G2, "get_players: table_extract! column names")
def _(s):
    f = block(s, r"fn\s+get_players\b", "get_players")
    return [rust_str(x) for x in need_all(r"table_extract(?:_parse)?!\(table,\s*%s,\s*index\)" % STR, f, "player columns", at_least=1)]


@const("gs2_team_columns", "List String", F_G2, "get_teams: table_extract! column names")
def _(s):
    f = block(s, r"fn\s+get_teams\b", "get_teams")
    return [rust_str(x) for x in need_all(r"table_extract(?:_parse)?!\(table,\s*%s,\s*index\)" % STR, f, "team columns", at_least=1)]


@const("gs2_password_true", "String", F_G2, "query: `remove(\"password\") … == \"1\"`")
def _(s):
    f = block(s, r"pub\s+fn\s+query\b", "two::query")
    return rust_str(need(r"\.remove\(\"password\"\)\.ok_or\(PacketBad\)\?\s*==\s*%s" % STR, f, "password comparison").group(1))


# ---- GameSpy 3

@const("gs3_session_id", "Nat", F_G3, "const THIS_SESSION_ID")
def _(s):
    return rust_int(const_decl(s, "THIS_SESSION_ID", "u32"))


@const("gs3_packet_size", "Nat", F_G3, "const PACKET_SIZE")
def _(s):
    return rust_int(const_decl(s, "PACKET_SIZE"))


@const("gs3_default_payload", BYTES, F_G3, "const DEFAULT_PAYLOAD")
def _(s):
    return rust_bytes(need(r"const\s+DEFAULT_PAYLOAD\s*:\s*\[u8;\s*4\]\s*=\s*\[([^\]]*)\];", s, "DEFAULT_PAYLOAD").group(1))


def _gs3_packet(s, fn):
    f = block(s, r"fn\s+%s\b" % fn, fn)
    m = need(r"RequestPacket\s*\{\s*header:\s*([0-9_]+),\s*kind:\s*([0-9]+),\s*session_id:\s*THIS_SESSION_ID,", f, f"{fn}: RequestPacket literal")
    return rust_int(m.group(1)), rust_int(m.group(2)), f


@const("gs3_request_header", "Nat", F_G3, "RequestPacket { header: 65277, … } of make_initial_handshake and send_data_request")
def _(s):
    a, b = _gs3_packet(s, "make_initial_handshake")[0], _gs3_packet(s, "send_data_request")[0]
    if a != b:
        raise ConstError(f"gs3 request header: handshake uses {a}, data request uses {b}")
    need(r"self\.header\.to_be_bytes\(\)", block(s, r"\bimpl\s+RequestPacket\s*\{", "impl RequestPacket"), "RequestPacket::to_bytes: header.to_be_bytes()")
    return a


@const("gs3_handshake_kind", "Nat", F_G3, "make_initial_handshake: RequestPacket kind")
def _(s):
    return _gs3_packet(s, "make_initial_handshake")[1]


@const("gs3_data_kind", "Nat", F_G3, "send_data_request: RequestPacket kind")
def _(s):
    return _gs3_packet(s, "send_data_request")[1]


@const("gs3_handshake_receive", "List Nat", F_G3, "make_initial_handshake: `self.receive(Some(16), 9)` (buffer size, expected kind)")
def _(s):
    f = _gs3_packet(s, "make_initial_handshake")[2]
    m = need(r"self\.receive\(Some\(([0-9]+)\),\s*([0-9]+)\)", f, "handshake receive")
    return [rust_int(m.group(1)), rust_int(m.group(2))]


@const("gs3_data_receive_kind", "Nat", F_G3, "get_server_packets_impl: `self.receive(None, 0)`")
def _(s):
    f = block(s, r"fn\s+get_server_packets_impl\b", "get_server_packets_impl")
    return rust_int(need(r"self\.receive\(None,\s*([0-9]+)\)", f, "data receive").group(1))


@const("gs3_splitnum", "String", F_G3, "get_server_packets_impl: `!= \"splitnum\"`")
def _(s):
    f = block(s, r"fn\s+get_server_packets_impl\b", "get_server_packets_impl")
    return rust_str(need(r"read_string::<Utf8Decoder>\(None\)\?\s*!=\s*%s" % STR, f, "splitnum tag").group(1))


@const("gs3_last_flag_and_id_mask", "List Nat", F_G3, "get_server_packets_impl: `(id & 0x80) > 0`, `id & 0x7f`")
def _(s):
    f = block(s, r"fn\s+get_server_packets_impl\b", "get_server_packets_impl")
    a = need(r"let\s+is_last\s*=\s*\(id\s*&\s*(0x[0-9A-Fa-f]+)\)\s*>\s*0", f, "last flag")
    b = need(r"let\s+packet_id\s*=\s*\(id\s*&\s*(0x[0-9A-Fa-f]+)\)\s*as\s+usize", f, "id mask")
    return [rust_int(a.group(1)), rust_int(b.group(1))]


@const("gs3_single_packet_skip", "Nat", F_G3, "get_server_packets_impl: `buf.move_cursor(11)` in single-packet mode")
def _(s):
    f = block(s, r"fn\s+get_server_packets_impl\b", "get_server_packets_impl")
    return rust_int(need(r"if\s+self\.single_packets\s*\{\s*buf\.move_cursor\(([0-9]+)\)\?", f, "single packet skip").group(1))


@const("gs3_known_fields", "List String", F_G3, "parse_players_and_teams: the list of typed field names")
def _(s):
    f = block(s, r"fn\s+parse_players_and_teams\b", "parse_players_and_teams")
    m = need(r"if\s+!\[((?:\s*\"\w+\"\s*,?)+)\]\.contains\(field_name\)", f, "typed field names")
    return [rust_str(x) for x in re.findall(STR, m.group(1))]


@const("gs3_team_suffix", "String", F_G3, "parse_players_and_teams: `if v != &\"t\"`")
def _(s):
    f = block(s, r"fn\s+parse_players_and_teams\b", "parse_players_and_teams")
    return rust_str(need(r"if\s+v\s*!=\s*&%s" % STR, f, "team suffix").group(1))


@const("gs3_section_marker_bound", "Nat", F_G3, "parse_players_and_teams: `if buf.read::<u8>()? < 3`")
def _(s):
    f = block(s, r"fn\s+parse_players_and_teams\b", "parse_players_and_teams")
    return rust_int(need(r"if\s+buf\.read::<u8>\(\)\?\s*<\s*([0-9]+)\s*\{\s*continue", f, "section marker bound").group(1))


@const("gs3_player_gets", "List String", F_G3, "parse_players_and_teams: `player_data.get(\"…\")` keys, in source order")
def _(s):
    f = block(s, r"fn\s+parse_players_and_teams\b", "parse_players_and_teams")
    return [rust_str(x) for x in need_all(r"player_data\s*\.get\(%s\)" % STR, f, "player_data.get keys", at_least=2)]


@const("gs3_team_gets", "List String", F_G3, "parse_players_and_teams: `team_data.get(\"…\")` keys, in source order")
def _(s):
    f = block(s, r"fn\s+parse_players_and_teams\b", "parse_players_and_teams")
    return [rust_str(x) for x in need_all(r"team_data\s*\.get\(%s\)" % STR, f, "team_data.get keys", at_least=1)]


@const("gs3_typed_keys", "List String", F_G3, "query: keys removed from server_vars, in source order (has_password = its key)")
def _(s):
    return removes_in_order(block(s, r"pub\s+fn\s+query\b", "three::query"), "three::query")


# ---- Quake

@const("quake_packet_size", "Nat", F_QC, "const PACKET_SIZE")
def _(s):
    return rust_int(const_decl(s, "PACKET_SIZE"))


@const("quake_request_frame", "List (List UInt8)", F_QC, "get_data_impl: the bytes before and after the send header")
def _(s):
    f = block(s, r"fn\s+get_data_impl\b", "get_data_impl")
    m = need(r"socket\.send\(\s*&\[\s*&\[([^\]]*)\],\s*Client::get_send_header\(\)\.as_bytes\(\),\s*&\[([^\]]*)\],?\s*\]\s*\.concat\(\)", f, "request frame")
    return [rust_bytes(m.group(1)), rust_bytes(m.group(2))]


@const("quake_reply_header", "Nat", F_QC, "get_data_impl: `read::<u32>() != u32::MAX`")
def _(s):
    f = block(s, r"fn\s+get_data_impl\b", "get_data_impl")
    return rust_int(need(r"bufferer\.read::<u32>\(\)\?\s*!=\s*([A-Za-z0-9_:]+)", f, "reply header").group(1))


def _quake_header(kind):
    files = {"One": ("protocols/quake/one.rs", "QuakeOne"), "Two": ("protocols/quake/two.rs", "QuakeTwo"), "Three": ("protocols/quake/three.rs", "QuakeThree")}

    def get(v, depth=0):
        rel, ty = files[v]
        imp = block(csrc(rel), r"\bimpl\s+QuakeClient\s+for\s+%s\s*\{" % ty, f"impl QuakeClient for {ty}")
        m = need(r"fn\s+get_%s_header<'a>\(\)\s*->\s*&'a\s+str\s*\{\s*(?:%s|Quake(One|Two|Three)::get_%s_header\(\))\s*\}" % (kind, STR, kind),
                 imp, f"{ty}::get_{kind}_header")
        if m.group(1) is not None:
            return rust_str(m.group(1))
        if depth > 2:
            raise ConstError(f"{ty}::get_{kind}_header: delegation loop")
        return get(m.group(2), depth + 1)
    return [(v, str_bytes(get(v))) for v in ("One", "Two", "Three")]


@const("quake_send_headers", "List (String × List UInt8)", "protocols/quake/{one,two,three}.rs", "QuakeClient::get_send_header per version")
def _(s):
    return _quake_header("send")


@const("quake_response_headers", "List (String × List UInt8)", "protocols/quake/{one,two,three}.rs", "QuakeClient::get_response_header per version")
def _(s):
    return _quake_header("response")


@const("quake_var_names", "List (String × String × String)", F_QC, "client_query: (response field, variable, fallback variable)")
def _(s):
    f = block(s, r"pub\s+fn\s+client_query\b", "client_query")
    r = need_all(r"(\w+):\s*server_vars\s*\.remove\(%s\)\s*\.or_else\(\|\|\s*server_vars\.remove\(%s\)\)" % (STR, STR), f, "variable names", count=4)
    return [(a, rust_str(b), rust_str(c)) for a, b, c in r]


@const("quake_line_delimiter", "List Nat", F_QC, "get_server_values / get_players: `read_string::<Utf8Decoder>(Some([0x0A]))`")
def _(s):
    r = need_all(r"read_string::<Utf8Decoder>\(Some\(\[(0x[0-9A-Fa-f]+)\]\)\)", s, "line delimiter", count=2)
    return [rust_int(x) for x in r]


# ---- Unreal 2

@const("unreal2_packet_size", "Nat", F_UP, "const PACKET_SIZE")
def _(s):
    return rust_int(const_decl(s, "PACKET_SIZE"))


@const("unreal2_default_player_preallocation", "Nat", F_UP, "const DEFAULT_PLAYER_PREALLOCATION")
def _(s):
    return rust_int(const_decl(s, "DEFAULT_PLAYER_PREALLOCATION"))


@const("unreal2_maximum_player_preallocation", "Nat", F_UP, "const MAXIMUM_PLAYER_PREALLOCATION")
def _(s):
    return rust_int(const_decl(s, "MAXIMUM_PLAYER_PREALLOCATION"))


@const("unreal2_request_prefix", BYTES, F_UP, "get_request_data_impl: `[0x79, 0, 0, 0, packet_type as u8]`")
def _(s):
    f = block(s, r"fn\s+get_request_data_impl\b", "get_request_data_impl")
    return rust_bytes(need(r"let\s+request\s*=\s*\[([^\]]*?),\s*packet_type\s+as\s+u8\s*\]", f, "request bytes").group(1))


@const("unreal2_header_skip", "Nat", F_UP, "consume_response_headers: `buffer.move_cursor(4)`")
def _(s):
    f = block(s, r"fn\s+consume_response_headers\b", "consume_response_headers")
    return rust_int(need(r"buffer\.move_cursor\(([0-9]+)\)\?", f, "header skip").group(1))


@const("unreal2_packet_kinds", "List (String × Nat)", F_UT, "enum PacketKind (discriminants)")
def _(s):
    return enum_codes(s, "PacketKind", "enum PacketKind")


@const("unreal2_packet_kind_of", "List (Nat × String)", F_UT, "impl TryFrom<u8> for PacketKind")
def _(s):
    f = block(s, r"\bimpl\s+TryFrom<u8>\s+for\s+PacketKind\s*\{", "impl TryFrom<u8> for PacketKind")
    return match_arms_to(f, "Self::", "PacketKind::try_from arms", at_least=2)


@const("unreal2_mutator_key", "String", F_UT, "MutatorsAndRules::parse: `key.eq_ignore_ascii_case(\"mutator\")`")
def _(s):
    return rust_str(need(r"key\.eq_ignore_ascii_case\(%s\)" % STR, s, "mutator key").group(1))


@const("unreal2_password_rule", "List String", F_UP, "Unreal2Protocol::query: `rules.get(\"GamePassword\")`, `string == \"true\"`")
def _(s):
    f = block(s, r"pub\s+fn\s+query\(&mut\s+self", "Unreal2Protocol::query")
    a = need(r"mutators_and_rules\.rules\.get\(%s\)" % STR, f, "password rule")
    b = need(r"server_info\.password\s*=\s*string\s*==\s*%s" % STR, f, "password comparison")
    return [rust_str(a.group(1)), rust_str(b.group(1))]


@const("unreal2_string_consts", "List (String × Nat)", F_UP, "Unreal2StringDecoder::decode_string: UCS-2 threshold and mask, colour escape, characters dropped after it, last control character removed")
def _(s):
    f = block(s, r"fn\s+decode_string\b", "decode_string")
    return [("ucs2_threshold", rust_int(need(r"if\s+length\s*>=\s*(0x[0-9A-Fa-f]+)", f, "UCS-2 threshold").group(1))),
            ("length_mask", rust_int(need(r"length\s*=\s*\(length\s*&\s*(0x[0-9A-Fa-f]+)\)\s*\*\s*2", f, "length mask").group(1))),
            ("stray_byte", rust_int(need(r"\.first\(\)\s*==\s*Some\(&([0-9]+)\)", f, "stray byte").group(1))),
            ("colour_escape", rust_int(need(r"if\s+('\\x[0-9a-fA-F]{2}')\.eq\(c\)", f, "colour escape").group(1))),
            ("colour_skip", rust_int(need(r"char_skip\s*=\s*([0-9]+);", f, "colour skip").group(1))),
            ("last_control", rust_int(need(r"c\s*>\s*'\\x00'\s*&&\s*c\s*<=\s*('\\x[0-9a-fA-F]{2}')", f, "last control character").group(1)))]


@const("unreal2_gather_default", "List (String × String)", F_UT, "GatheringSettings::default")
def _(s):
    f = block(block(s, r"\bimpl\s+GatheringSettings\s*\{", "impl GatheringSettings"), r"fn\s+default\b", "GatheringSettings::default")
    return [("players", need(r"players:\s*GatherToggle::(\w+)", f, "players").group(1)),
            ("mutators_and_rules", need(r"mutators_and_rules:\s*GatherToggle::(\w+)", f, "mutators_and_rules").group(1))]


# ---- Minecraft

F_MB = "games/minecraft/protocol/bedrock.rs"
F_MJ = "games/minecraft/protocol/java.rs"
F_MTY = "games/minecraft/types.rs"
F_MM = "games/minecraft/mod.rs"


@const("mc_bedrock_request", BYTES, F_MB, "Bedrock::send_status_request: the bytes sent")
def _(s):
    f = block(s, r"fn\s+send_status_request\b", "send_status_request")
    return rust_bytes(need(r"\.send\(&\[([^\]]*)\]\)", f, "unconnected ping").group(1))


@const("mc_bedrock_reply_checks", "List (String × Nat)", F_MB, "Bedrock::get_info_impl: reply id, nonce and the two magic words (little-endian u64), minimum number of fields")
def _(s):
    f = block(s, r"fn\s+get_info_impl\b", "get_info_impl")
    ident = need(r"buffer\.read::<u8>\(\)\?\s*!=\s*(0x[0-9A-Fa-f]+)", f, "reply id")
    words = need_all(r"buffer\.read::<u64>\(\)\?\s*!=\s*([0-9_]+)", f, "nonce and magic", count=3)
    skip = need(r"buffer\.move_cursor\(([0-9]+)\)\?", f, "server id skip")
    least = need(r"if\s+status\.len\(\)\s*<\s*([0-9]+)", f, "minimum fields")
    return [("id", rust_int(ident.group(1))), ("nonce", rust_int(words[0])), ("server_id_skip", rust_int(skip.group(1))),
            ("magic_low", rust_int(words[1])), ("magic_high", rust_int(words[2])), ("min_fields", rust_int(least.group(1)))]


@const("mc_bedrock_field_indices", "List (String × Nat)", F_MB, "Bedrock::get_info_impl: index of each response field in the `;`-separated status")
def _(s):
    f = block(s, r"fn\s+get_info_impl\b", "get_info_impl")
    r = need_all(r"(\w+):\s*(?:match\s+)?status(?:\[([0-9]+)\]|\.get\(([0-9]+)\))", f, "status indices", at_least=9)
    return [(n, rust_int(a or b)) for n, a, b in r]


@const("mc_bedrock_game_modes", "List (String × String)", F_MTY, "GameMode::from_bedrock (text ↦ variant)")
def _(s):
    f = block(s, r"fn\s+from_bedrock\(value", "GameMode::from_bedrock")
    return [(rust_str(a), b) for a, b in need_all(r"%s\s*=>\s*Ok\(Self::(\w+)\)" % STR, f, "game mode arms", at_least=2)]


@const("mc_request_settings_default", "List (String × String)", F_MTY, "impl Default for RequestSettings")
def _(s):
    f = block(s, r"\bimpl\s+Default\s+for\s+RequestSettings\s*\{", "impl Default for RequestSettings")
    return [("hostname", rust_str(need(r"hostname:\s*%s\.to_string\(\)" % STR, f, "hostname").group(1))),
            ("protocol_version", str(rust_int(need(r"protocol_version:\s*(-?[0-9]+)", f, "protocol_version").group(1))))]


@const("mc_default_ports", "List (String × Nat)", F_MM, "port_or_java_default / port_or_bedrock_default")
def _(s):
    return [(k, rust_int(need(r"fn\s+port_or_%s_default\(port:\s*Option<u16>\)\s*->\s*u16\s*\{\s*port\.unwrap_or\(([0-9_]+)\)" % k, s, f"port_or_{k}_default").group(1)))
            for k in ("java", "bedrock")]


@const("mc_java_packet_ids", "List (String × List UInt8)", F_MJ, "Java: handshake packet id and next state, status request, ping request")
def _(s):
    h = block(s, r"fn\s+send_handshake\b", "send_handshake")
    ids = need_all(r"&\[\s*(0x[0-9A-Fa-f]+)\s*,?\s*\]", h, "handshake id / next state", count=2)
    st = need(r"\[([^\]]*)\]\s*\.to_vec\(\)", block(s, r"fn\s+send_status_request\b", "send_status_request"), "status request")
    pg = need(r"\[([^\]]*)\]\s*\.to_vec\(\)", block(s, r"fn\s+send_ping_request\b", "send_ping_request"), "ping request")
    return [("handshake_id", rust_bytes(ids[0])), ("next_state", rust_bytes(ids[1])), ("status", rust_bytes(st.group(1))), ("ping", rust_bytes(pg.group(1)))]


def _legacy_request(rel):
    f = block(csrc(rel), r"fn\s+send_initial_request\b", "send_initial_request")
    return rust_bytes(need(r"\.send\(&\[([^\]]*)\]\)", f, "initial request").group(1))


@const("mc_legacy_requests", "List (String × List UInt8)", "games/minecraft/protocol/legacy_{v1_6,v1_4,vb1_8}.rs", "send_initial_request per legacy group")
def _(s):
    return [(k, _legacy_request(f"games/minecraft/protocol/legacy_{k}.rs")) for k in ("v1_6", "v1_4", "vb1_8")]


@const("mc_legacy16_marker", BYTES, "games/minecraft/protocol/legacy_v1_6.rs", "LegacyV1_6::is_protocol: `starts_with(&[…])`")
def _(s):
    s = csrc("games/minecraft/protocol/legacy_v1_6.rs")
    return rust_bytes(need(r"\.starts_with\(&\[([^\]]*)\]\)", block(s, r"fn\s+is_protocol\b", "is_protocol"), "1.6 marker").group(1))


@const("mc_legacy_reply_ids", "List (String × Nat)", "games/minecraft/protocol/legacy_{v1_6,v1_4,vb1_8}.rs", "`buffer.read::<u8>()? != 0xFF` per legacy group")
def _(s):
    return [(k, rust_int(need(r"buffer\.read::<u8>\(\)\?\s*!=\s*(0x[0-9A-Fa-f]+)", csrc(f"games/minecraft/protocol/legacy_{k}.rs"), f"legacy_{k} reply id").group(1)))
            for k in ("v1_6", "v1_4", "vb1_8")]


@const("mc_legacy_versions", "List (String × String)", "games/minecraft/protocol/legacy_{v1_4,vb1_8}.rs", "`game_version: \"…\".to_string()` of the groups without a version field")
def _(s):
    return [(k, rust_str(need(r"game_version:\s*%s\.to_string\(\)" % STR, csrc(f"games/minecraft/protocol/legacy_{k}.rs"), f"legacy_{k} game_version").group(1)))
            for k in ("v1_4", "vb1_8")]


# ---- single games

def _unwrap_or_port(rel, what):
    return rust_int(need(r"port\.unwrap_or\(([0-9_]+)\)", csrc(rel), what).group(1))


@const("ffow_request", "List (String × List UInt8)", "games/ffow/protocol.rs", "query_with_timeout: get_request_data(&Engine::GoldSrc(true), 0, 0x46, \"LSQ\")")
def _(s):
    m = need(r"client\.get_request_data\(\s*&Engine::GoldSrc\((true|false)\),\s*([0-9]+),\s*(0x[0-9A-Fa-f]+|[0-9]+),\s*String::from\(%s\)\.into_bytes\(\),?\s*\)" % STR,
             s, "get_request_data call")
    return [("goldsrc_force", [1 if m.group(1) == "true" else 0]), ("protocol", [rust_int(m.group(2))]), ("kind", [rust_int(m.group(3))]),
            ("payload", str_bytes(rust_str(m.group(4))))]


@const("ffow_skips", "List Nat", "games/ffow/protocol.rs", "query_with_timeout: `buffer.move_cursor(n)` in order")
def _(s):
    return [rust_int(x) for x in need_all(r"buffer\.move_cursor\(([0-9]+)\)\?", s, "cursor moves", count=2)]


@const("jc2m_payload", BYTES, "games/jc2m/protocol.rs", "query_with_timeout: GameSpy3::new_custom payload")
def _(s):
    m = need(r"GameSpy3::new_custom\(.*?,\s*timeout_settings,\s*\[([^\]]*)\],\s*(true|false),?\s*\)", s, "new_custom call")
    if m.group(2) != "true":
        raise ConstError("jc2m: single_packets is no longer `true`")
    return rust_bytes(m.group(1))


@const("jc2m_typed_keys", "List String", "games/jc2m/protocol.rs", "query_with_timeout: keys removed from server_vars, in source order")
def _(s):
    return removes_in_order(block(s, r"pub\s+fn\s+query_with_timeout\b", "jc2m query_with_timeout"), "jc2m query_with_timeout")


@const("savage2_request", BYTES, "games/savage2/protocol.rs", "query_with_timeout: `socket.send(&[0x01])`")
def _(s):
    return rust_bytes(need(r"socket\.send\(&\[([^\]]*)\]\)", s, "request").group(1))


@const("savage2_header_skip", "Nat", "games/savage2/protocol.rs", "query_with_timeout: `buffer.move_cursor(12)`")
def _(s):
    return rust_int(need(r"buffer\.move_cursor\(([0-9]+)\)\?", s, "header skip").group(1))


@const("mindustry_max_buffer_size", "Nat", "games/mindustry/protocol.rs", "const MAX_BUFFER_SIZE")
def _(s):
    return rust_int(const_decl(s, "MAX_BUFFER_SIZE"))


@const("mindustry_ping", BYTES, "games/mindustry/protocol.rs", "send_ping: `[-2i8 as u8, 1i8 as u8]`")
def _(s):
    return rust_bytes(need(r"fn\s+send_ping\b[^{]*\{\s*socket\.send\(&\[([^\]]*)\]\)", s, "ping").group(1))


@const("mindustry_game_modes", "List (Nat × String)", "games/mindustry/types.rs", "impl TryFrom<u8> for GameMode")
def _(s):
    return match_arms_to(block(s, r"\bimpl\s+TryFrom<u8>\s+for\s+GameMode\s*\{", "impl TryFrom<u8> for GameMode"), "", "game mode arms", at_least=2)


@const("battalion_overrides", "List (String × String)", "games/battalion1944.rs", "query: (rule key, info field it overrides), in source order; the last key is only removed")
def _(s):
    r = []
    for m in re.finditer(r"if\s+let\s+Some\((\w+)\)\s*=\s*rules\.get\(%s\)\s*\{(.*?)rules\.remove\(%s\);" % (STR, STR), s, re.S):
        if m.group(2) != m.group(4):
            raise ConstError(f"battalion1944: `{m.group(2)}` is read but `{m.group(4)}` is removed")
        fm = need(r"valve_response\.info\.(\w+)", m.group(3), f"field overridden by {m.group(2)}")
        r.append((rust_str(m.group(2)), fm.group(1)))
    tail = need(r"\}\s*rules\.remove\(%s\);\s*\}" % STR, s, "the key removed unconditionally")
    if len(r) < 2:
        raise ConstError("battalion1944: override blocks not found")
    return r + [(rust_str(tail.group(1)), "")]


@const("battalion_password_yes", "String", "games/battalion1944.rs", "query: `bat_has_password == \"Y\"`")
def _(s):
    return rust_str(need(r"has_password\s*=\s*bat_has_password\s*==\s*%s" % STR, s, "password comparison").group(1))


@const("game_engines", "List (String × Nat)", "games/{theship/protocol,battalion1944}.rs", "Engine::new(app id) of the hand-written Valve game modules")
def _(s):
    return [("theship", rust_int(need(r"Engine::new\(([0-9_]+)\)", csrc("games/theship/protocol.rs"), "theship engine").group(1))),
            ("battalion1944", rust_int(need(r"Engine::new\(([0-9_]+)\)", csrc("games/battalion1944.rs"), "battalion1944 engine").group(1)))]


@const("game_default_ports", "List (String × Nat)", "games/*/protocol.rs, games/battalion1944.rs, games/mindustry/mod.rs", "`port.unwrap_or(n)` of the hand-written game modules")
def _(s):
    r = [(g, _unwrap_or_port(rel, f"{g} default port")) for g, rel in
         (("ffow", "games/ffow/protocol.rs"), ("jc2m", "games/jc2m/protocol.rs"), ("savage2", "games/savage2/protocol.rs"),
          ("theship", "games/theship/protocol.rs"), ("battalion1944", "games/battalion1944.rs"), ("eco", "games/eco/protocol.rs"))]
    m = csrc("games/mindustry/mod.rs")
    need(r"port\.unwrap_or\(DEFAULT_PORT\)", m, "mindustry: port.unwrap_or(DEFAULT_PORT)")
    return r + [("mindustry", rust_int(const_decl(m, "DEFAULT_PORT", "u16")))]


@const("eco_path", "String", "games/eco/protocol.rs", "query_with_timeout_and_extra_settings: `client.get_json::<Root>(\"/frontpage\", None)`")
def _(s):
    return rust_str(need(r"client\.get_json::<Root>\(%s,\s*None\)" % STR, s, "document path").group(1))


@const("eco_info_members", "List (String × String × String)", "games/eco/types.rs", "struct Info: (serde rename = JSON member, field, type), in declaration order")
def _(s):
    b = block(s, r"\bpub\s+struct\s+Info\s*\{", "struct Info")
    r = need_all(r"#\[serde\(rename\s*=\s*%s\)\]\s*pub\s+(\w+)\s*:\s*([^\n]+?),\s*\n" % STR, b, "renamed fields", at_least=1, flags=0)
    fields = re.findall(r"\bpub\s+(\w+)\s*:", b)
    if len(fields) != len(r):
        raise ConstError(f"struct Info: {len(fields)} fields but {len(r)} `#[serde(rename = …)]` attributes")
    return [(rust_str(j), f, re.sub(r"\s+", "", t)) for j, f, t in r]


@const("eco_root_member", "String", "games/eco/types.rs", "struct Root: serde rename of `info`")
def _(s):
    b = block(s, r"\bpub\s+struct\s+Root\s*\{", "struct Root")
    return rust_str(need(r"#\[serde\(rename\s*=\s*%s\)\]\s*pub\s+info\s*:\s*Info" % STR, b, "Root.info rename").group(1))


# ---- services: Valve master server

@const("master_default_address", "List Nat", F_MS, "default_master_address: the four address bytes and the port")
def _(s):
    f = block(s, r"fn\s+default_master_address\b", "default_master_address")
    m = need(r"Ipv4Addr::new\(([0-9]+),\s*([0-9]+),\s*([0-9]+),\s*([0-9]+)\)\),\s*([0-9_]+)\)", f, "address")
    return [rust_int(m.group(i)) for i in range(1, 6)]


@const("master_payload_frame", "List (List UInt8)", F_MS, "construct_payload: first byte, separator between ip and port, terminator; filters of `None`")
def _(s):
    f = block(s, r"fn\s+construct_payload\b", "construct_payload")
    arr = need(r"\n\s*\[\s*(&\[.*?)\]\s*\.concat\(\)", f, "the concatenated slices").group(1)
    lits = need_all(r"&\[([^\]&]*)\]\s*,", arr, "literal slices", count=3)
    none = need(r"\.map_or_else\(\|\|\s*vec!\[([^\]]*)\],\s*SearchFilters::to_bytes\)", f, "filters of None")
    return [rust_bytes(x) for x in lits] + [rust_bytes(none.group(1))]


@const("master_receive_size", "Nat", F_MS, "query_specific: `self.socket.receive(Some(1400))`")
def _(s):
    f = block(s, r"pub\s+fn\s+query_specific\b", "query_specific")
    return rust_int(need(r"self\.socket\.receive\(Some\(([0-9_]+)\)\)", f, "receive size").group(1))


@const("master_reply_header", "List Nat", F_MS, "query_specific: `read::<u32>() != u32::MAX || read::<u16>() != 26122`")
def _(s):
    f = block(s, r"pub\s+fn\s+query_specific\b", "query_specific")
    m = need(r"buf\.read::<u32>\(\)\?\s*!=\s*([A-Za-z0-9_:]+)\s*\|\|\s*buf\.read::<u16>\(\)\?\s*!=\s*([0-9_]+)", f, "reply header check")
    return [rust_int(m.group(1)), rust_int(m.group(2))]


@const("master_zero_address", "List String", F_MS, "every `\"0.0.0.0\"` of service.rs (seed and end marker)")
def _(s):
    return [rust_str(x) for x in need_all(r"\"(0\.0\.0\.0)\"", s, "zero address", at_least=4)]


@const("master_filter_keys", "List (String × String × String)", F_MT, "Filter::to_bytes: (variant, text written before the value, kind of value)")
def _(s):
    f = block(block(s, r"\bimpl\s+Filter\s*\{", "impl Filter"), r"fn\s+to_bytes\b", "Filter::to_bytes")
    out = []
    for m in re.finditer(r"Self::(\w+)\((\w+)\)\s*=>\s*\{", f):
        arm = balanced(f, m.end() - 1, "{", "}")
        key = rust_str(need(r"bytes\s*=\s*b%s\.to_vec\(\);" % STR, arm, f"Filter::{m.group(1)} key").group(1))
        if "bool_as_char_u8(" in arm:
            kind = "bool"
        elif re.search(r"\.to_string\(\)\.as_bytes\(\)", arm):
            kind = "number"
        elif "for tag in" in arm:
            kind = "tags"
        elif re.search(r"bytes\.extend\(\w+\.as_bytes\(\)\)", arm):
            kind = "text"
        else:
            raise ConstError(f"Filter::{m.group(1)}: value encoding not understood")
        out.append((m.group(1), key, kind))
    variants = re.findall(r"\b([A-Z]\w*)\(", block(s, r"\bpub\s+enum\s+Filter\s*\{", "enum Filter"))
    if sorted(v for v, _, _ in out) != sorted(variants):
        raise ConstError(f"Filter::to_bytes: arms {sorted(v for v, _, _ in out)} do not cover the variants {sorted(variants)}")
    return out


@const("master_filter_variants", "List String", F_MT, "enum Filter: variants in declaration order")
def _(s):
    return re.findall(r"\b([A-Z]\w*)\(", block(s, r"\bpub\s+enum\s+Filter\s*\{", "enum Filter"))


@const("master_group_names", "List String", F_MT, "SearchFilters::to_bytes: the names given to special_filter_to_bytes (nand, nor)")
def _(s):
    f = block(block(s, r"\bimpl\s+SearchFilters\s*\{", "impl SearchFilters"), r"fn\s+to_bytes\b", "SearchFilters::to_bytes")
    a = need(r"special_filter_to_bytes\(%s,\s*&self\.nand_filters\)" % STR, f, "nand group")
    b = need(r"special_filter_to_bytes\(%s,\s*&self\.nor_filters\)" % STR, f, "nor group")
    return [rust_str(a.group(1)), rust_str(b.group(1))]


@const("master_text_bytes", "List (String × Nat)", F_MT, "bool_as_char_u8 (true, false), the tag separator, the filter terminator")
def _(s):
    f = block(s, r"fn\s+bool_as_char_u8\b", "bool_as_char_u8")
    t = need(r"true\s*=>\s*(b'.')", f, "true character")
    e = need(r"false\s*=>\s*(b'.')", f, "false character")
    sep = need(r"bytes\.extend\(\[(b'.')\]\);\s*\}\s*bytes\.pop\(\);", s, "tag separator")
    fin = need(r"bytes\.extend\(\[(0x[0-9A-Fa-f]+)\]\);\s*bytes\s*\}", block(block(s, r"\bimpl\s+SearchFilters\s*\{", "impl SearchFilters"), r"fn\s+to_bytes\b", "SearchFilters::to_bytes"), "terminator")
    return [("true", rust_int(t.group(1))), ("false", rust_int(e.group(1))), ("tag_separator", rust_int(sep.group(1))), ("terminator", rust_int(fin.group(1)))]


@const("master_regions", "List (String × Nat)", F_MT, "enum Region (discriminants)")
def _(s):
    return enum_codes(s, "Region", "enum Region")


# ---- settings, transport

@const("timeout_defaults", "List (String × Nat)", F_PT, "TimeoutSettings::const_default: seconds of read / write / connect, retries")
def _(s):
    f = block(s, r"fn\s+const_default\b", "TimeoutSettings::const_default")
    r = [(k, rust_int(need(r"%s:\s*Some\(Duration::from_secs\(([0-9_]+)\)\)" % k, f, f"default {k}").group(1))) for k in ("read", "write", "connect")]
    return r + [("retries", rust_int(need(r"retries:\s*([0-9_]+)", f, "default retries").group(1)))]


@const("timeout_clap_defaults", "List (String × String)", F_PT, "struct TimeoutSettings: clap `default_value` of each flag")
def _(s):
    b = block(s, r"\bpub\s+struct\s+TimeoutSettings\s*\{", "struct TimeoutSettings")
    out = []
    for k in ("connect", "read", "write", "retries"):
        m = need(r"default_value\s*=\s*%s\s*\)\s*\)\]\s*%s\s*:" % (STR, k), b, f"clap default of {k}")
        out.append((k, rust_str(m.group(1))))
    return out


@const("socket_default_packet_size", "Nat", "socket.rs", "const DEFAULT_PACKET_SIZE")
def _(s):
    need(r"size\.unwrap_or\(DEFAULT_PACKET_SIZE\)", s, "receive: size.unwrap_or(DEFAULT_PACKET_SIZE)")
    return rust_int(const_decl(s, "DEFAULT_PACKET_SIZE"))


@const("http_max_response_length", "Nat", "http.rs", "const MAX_RESPONSE_LENGTH")
def _(s):
    return rust_int(const_decl(s, "MAX_RESPONSE_LENGTH"))


def gen_consts():
    """Gen/Consts.lean: constants and small tables of crates/lib/src.  Returns (items, errors); an item whose source is no
    longer found in the expected shape is left out of the file (the theorems that use it stop checking) and reported."""
    items, errors = [], []
    for name, ty, rel, what, fn in CONST_ITEMS:
        try:
            v = fn(csrc(rel) if "{" not in rel and "*" not in rel else None)
            items.append((name, ty, rel, what, lean_val(v), v))
        except ConstError as e:
            errors.append(f"consts: {name} ({rel} :: {what}): {e}")
        except Exception as e:  # a translator defect must not pass silently either
            errors.append(f"consts: {name} ({rel} :: {what}): translator error {type(e).__name__}: {e}")
    L = ["/- GENERATED by tools/xlate.py (gen_consts) from crates/lib/src on every run — do not edit.",
         "   Constants and small tables of the Rust source; `Props/Cnn_consts.lean` prove that the MODEL (and, where it states the",
         "   literal itself, the SPEC) uses the same values.  An item the translator no longer finds in the expected shape is",
         "   left out (and the translator reports it), so the theorems about it stop checking. -/",
         "namespace Gd.Gen.Consts", ""]
    for name, ty, rel, what, text, value in items:
        L.append(f"/-- {rel} :: {what} -/")
        if len(text) > 100 and text.startswith("[("):
            text = "[\n   " + ",\n   ".join(lean_val(x) for x in value) + "]"
        L.append(f"def {name} : {ty} := {text}")
        L.append("")
    L += ["/-- names of the items above, in order -/", "def itemNames : List String := [" + ", ".join(lean_val(i[0]) for i in items) + "]", "",
          "end Gd.Gen.Consts", ""]
    write_if_changed(os.path.join(GEN, "Consts.lean"), "\n".join(L))
    import json
    os.makedirs(os.path.join(V, ".work"), exist_ok=True)
    json.dump([dict(name=i[0], type=i[1], file=i[2], item=i[3], value=i[5]) for i in items], open(os.path.join(V, ".work", "consts.json"), "w"), indent=1)
    return items, errors


def gen_root():
    """lean/GdVerif.lean imports every module of the project, so that one `lake build GdVerif` checks them together
    (catches name collisions between families)"""
    mods = []
    base = os.path.join(V, "lean", "GdVerif")
    for root, _, files in os.walk(base):
        for f in sorted(files):
            if f.endswith(".lean"):
                rel = os.path.relpath(os.path.join(root, f), os.path.join(V, "lean"))[:-5].replace(os.sep, ".")
                mods.append(rel)
    write_if_changed(os.path.join(V, "lean", "GdVerif.lean"),
                     "-- GENERATED by tools/xlate.py: every module of the project\n" + "\n".join("import " + m for m in sorted(mods)) + "\n")


if __name__ == "__main__":
    sites = gen_alloc_sites()
    consts, const_errors = gen_consts()
    sys.path.insert(0, os.path.dirname(os.path.abspath(__file__)))
    import xlate_arms
    # Gen/Arms.lean: the arms of games/query.rs, the conversion impls and the game_query_fn! bodies (fails loudly)
    const_errors += xlate_arms.gen_arms(V, SRC, GEN, csrc, write_if_changed)
    gen_root()
    gen_games()
    vs = gen_views()
    if "--views" in sys.argv:
        for v in vs:
            print(v["file"], v["trait"], v["type"], v["original_wraps_self"], v["extra"])
            for a, e in v["table"]:
                print("   ", a, e)
    if "--list" in sys.argv:
        for s in sites:
            print(site_id(s), *s, sep="\t")
    if "--consts" in sys.argv:
        for name, ty, rel, what, text, _ in consts:
            print(f"{name}\t{ty}\t{rel} :: {what}\t{text}")
    if const_errors:
        # everything else has been regenerated; the run as a whole fails, naming every item that was not found
        for e in const_errors:
            print("xlate: " + e, file=sys.stderr)
        sys.exit(1)
