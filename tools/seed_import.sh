#!/bin/sh
# tools/seed_import.sh <property> <scratch worktree of the author> : copy SEED/ into seeded/<property>-<n>, confirm it in
# the verification worktree /tmp/seed-verify (created on demand), print the verdict.
set -e
P=$1; SRC=$2
V=$(cd "$(dirname "$0")/.." && pwd)
n=1; while [ -e "$V/seeded/$P-$n" ]; do n=$((n+1)); done
D="$V/seeded/$P-$n"
mkdir -p "$D"
cp -r "$SRC/SEED/." "$D/"
[ -d /tmp/seed-verify ] || git -C "$V/repo-link/" worktree add --detach /tmp/seed-verify HEAD -q
python3 "$V/tools/seeded.py" verify "$D" /tmp/seed-verify > "$D/verify.json" 2>&1 && echo "$P-$n confirmed" || echo "$P-$n NOT confirmed (see $D/verify.json)"
