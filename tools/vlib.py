"""Shared machinery for /verif/check: builds, proof stage, model/impl runners, verdicts, evidence."""
import fcntl, hashlib, json, os, re, subprocess, sys, tempfile, time

VERIF = os.path.dirname(os.path.dirname(os.path.abspath(__file__)))
LEAN = os.path.join(VERIF, "lean")
HARNESS = os.path.join(VERIF, "harness")
GDMODEL = os.path.join(LEAN, ".lake", "build", "bin", "gdmodel")
# VERIF_HARNESS_BIN: another build of the same harness (tools/coverage.py uses an instrumented one)
GDHARNESS = os.environ.get("VERIF_HARNESS_BIN") or os.path.join(HARNESS, "target", "debug", "gdharness")
WORK = os.path.join(VERIF, ".work")
REPO = os.path.realpath(os.path.join(VERIF, "repo-link"))
ALLOWED_AXIOMS = {"propext", "Classical.choice", "Quot.sound"}
ENV = dict(os.environ, CARGO_NET_OFFLINE="true")

os.makedirs(WORK, exist_ok=True)


class Lock:
    def __init__(self, name):
        self.path = os.path.join(WORK, name + ".lock")

    def __enter__(self):
        self.f = open(self.path, "w")
        fcntl.flock(self.f, fcntl.LOCK_EX)
        return self

    def __exit__(self, *a):
        fcntl.flock(self.f, fcntl.LOCK_UN)
        self.f.close()


def sh(cmd, cwd=None, timeout=None, input=None):
    p = subprocess.run(cmd, cwd=cwd, env=ENV, stdout=subprocess.PIPE, stderr=subprocess.STDOUT,
                       timeout=timeout, input=input, text=True)
    return p.returncode, p.stdout


# --------------------------------------------------------------------------- builds

def build_harness():
    """Rebuild the harness against /repo's working tree (hooks on). Returns (ok, log)."""
    with Lock("cargo"):
        lock_src = os.path.join(REPO, "Cargo.lock")
        dst = os.path.join(HARNESS, "Cargo.lock")
        # keep the harness lock file in step with the repository's (offline: no resolution possible)
        if not os.path.exists(dst):
            import shutil
            shutil.copy(lock_src, dst)
        rc, out = sh(["cargo", "build", "--offline"], cwd=HARNESS, timeout=1800)
        return rc == 0, out


def lake_build(targets):
    with Lock("lake"):
        rc, out = sh(["lake", "build"] + targets, cwd=LEAN, timeout=3600)
        return rc == 0, out


def regen():
    """Regenerate GdVerif/Gen/* from /repo (translator). Returns (ok, log)."""
    tool = os.path.join(VERIF, "tools", "xlate.py")
    if not os.path.exists(tool):
        return True, ""
    with Lock("lake"):
        rc, out = sh([sys.executable, tool], cwd=VERIF, timeout=600)
        return rc == 0, out


# --------------------------------------------------------------------------- proof stage

FORBIDDEN = re.compile(r"\bsorry\b|\badmit\b|^axiom\s|native_decide|bv_decide|implemented_by|\bunsafe\s|maxHeartbeats\s+0", re.M)


def strip_comments(src):
    # remove /- ... -/ (nested not handled beyond one level; our files do not nest) and -- comments
    out, i, depth = [], 0, 0
    while i < len(src):
        if src.startswith("/-", i):
            depth += 1
            i += 2
        elif src.startswith("-/", i) and depth > 0:
            depth -= 1
            i += 2
        elif depth > 0:
            i += 1
        elif src.startswith("--", i):
            j = src.find("\n", i)
            i = len(src) if j < 0 else j
        else:
            out.append(src[i])
            i += 1
    return "".join(out)


def lean_sources():
    res = []
    for root, _, files in os.walk(LEAN):
        if ".lake" in root:
            continue
        for f in files:
            if f.endswith(".lean"):
                res.append(os.path.join(root, f))
    return sorted(res)


def forbidden_scan():
    hits = []
    for p in lean_sources():
        m = FORBIDDEN.search(strip_comments(open(p).read()))
        if m:
            hits.append(f"{os.path.relpath(p, LEAN)}: {m.group(0).strip()}")
    return hits


def theorems_in(module_file):
    src = strip_comments(open(module_file).read())
    return re.findall(r"^theorem\s+([A-Za-z0-9_.']+)", src, re.M)


def prop_modules(pid):
    """Props/<pid>.lean plus Props/<pid>_*.lean (one file per protocol family)"""
    d = os.path.join(LEAN, "GdVerif", "Props")
    names = []
    if os.path.exists(os.path.join(d, f"{pid}.lean")):
        names.append(pid)
    names += sorted(f[:-5] for f in os.listdir(d) if f.startswith(pid + "_") and f.endswith(".lean"))
    return names


def proof_stage(pid, tier):
    """Build Props/<pid>*.lean, audit axioms of every theorem in them.
    Returns dict(ok, obligations, discharged, failures[list of str], theorems, axioms)"""
    res = dict(ok=False, obligations=0, discharged=0, failures=[], theorems=[], axioms=[], log="")
    files = prop_modules(pid)
    if not files:
        res["failures"].append(f"missing GdVerif/Props/{pid}.lean")
        return res
    mods = [f"GdVerif.Props.{f}" for f in files]
    names = []
    for f in files:
        names += theorems_in(os.path.join(LEAN, "GdVerif", "Props", f + ".lean"))
    res["theorems"] = names
    res["obligations"] = len(names)
    ok, out = lake_build(mods)
    res["log"] = out[-4000:]
    if not ok:
        # which theorems failed? lean reports file:line; map to the enclosing theorem
        bad = set()
        for f in files:
            src_lines = open(os.path.join(LEAN, "GdVerif", "Props", f + ".lean")).read().split("\n")
            # lean prints `file:line:col: error: …`, lake relays it as `error: file:line:col: …`
            for m in re.finditer(r"Props/%s\.lean:(\d+):\d+: error|error: \S*Props/%s\.lean:(\d+):\d+:" % (f, f), out):
                ln = int(m.group(1) or m.group(2))
                for k in range(min(ln, len(src_lines)) - 1, -1, -1):
                    mm = re.match(r"^(?:theorem|def|example|lemma)\s+([A-Za-z0-9_.']+)?", src_lines[k])
                    if mm:
                        bad.add(mm.group(1) or f"example@{f}:{k+1}")
                        break
        if not bad:
            bad.add("(build of %s or one of their imports failed)" % ", ".join(mods))
        res["failures"] = [f"does not check: {b}" for b in sorted(bad)]
        res["discharged"] = max(0, len(names) - len(bad))
        return res
    hits = forbidden_scan()
    if hits:
        res["failures"] = ["forbidden construct: " + h for h in hits]
        return res
    # axiom audit
    audit = os.path.join(WORK, f"Audit_{pid}.lean")
    with open(audit, "w") as f:
        for m in mods:
            f.write(f"import {m}\n")
        for n in names:
            f.write(f"#print axioms {n}\n")
    rc, out = sh(["lake", "env", "lean", audit], cwd=LEAN, timeout=1800)
    if rc != 0:
        res["failures"] = ["axiom audit failed to run: " + out[-500:]]
        return res
    used = set()
    discharged = 0
    text = out.replace("\n  ", " ")
    for line in text.split("\n"):
        m = re.match(r"'([^']+)' depends on axioms: \[(.*)\]", line.strip())
        if m:
            ax = {a.strip() for a in m.group(2).split(",") if a.strip()}
            used |= ax
            extra = ax - ALLOWED_AXIOMS
            if extra:
                res["failures"].append(f"{m.group(1)} uses axioms {sorted(extra)}")
            else:
                discharged += 1
        elif "does not depend on any axioms" in line:
            discharged += 1
    res["axioms"] = sorted(used)
    res["discharged"] = discharged
    if discharged != len(names) and not res["failures"]:
        res["failures"].append(f"axiom audit covered {discharged} of {len(names)} theorems")
    if tier == "thorough" and not res["failures"]:
        for m in mods:
            rc, out = sh(["lake", "env", "leanchecker", m], cwd=LEAN, timeout=3600)
            if rc != 0:
                res["failures"].append("leanchecker rejected " + m + ": " + out[-400:])
        res["leanchecker"] = not res["failures"]
    res["ok"] = not res["failures"]
    return res


# --------------------------------------------------------------------------- runners

MODEL_TIMEOUT = int(os.environ.get("VERIF_MODEL_TIMEOUT", "900"))


def run_model(lines):
    """lines: list of case lines. Returns dict id -> outcome text."""
    if not lines:
        return {}
    text = "\n".join(lines) + "\n"
    try:
        p = subprocess.run([GDMODEL, "run"], input=text, stdout=subprocess.PIPE,
                           stderr=subprocess.PIPE, text=True, timeout=MODEL_TIMEOUT)
    except subprocess.TimeoutExpired:
        # the model driver is total; a run this long is a defect of the machinery, name the line
        culprit = None
        for l in lines:
            try:
                subprocess.run([GDMODEL, "run"], input=l + "\n", stdout=subprocess.PIPE, stderr=subprocess.PIPE,
                               text=True, timeout=20)
            except subprocess.TimeoutExpired:
                culprit = l
                break
        raise RuntimeError("model driver did not finish within %ds; slow line: %s" % (MODEL_TIMEOUT, (culprit or "?")[:400]))
    if p.returncode != 0:
        raise RuntimeError("model driver failed: " + p.stderr[-2000:])
    out = {}
    for l in p.stdout.split("\n"):
        if l:
            i, _, rest = l.partition(" ")
            out[i] = rest
    return out


def model_gen(suite, seed, n, extra=()):
    p = subprocess.run([GDMODEL, "gen", suite, str(seed), str(n)] + list(extra), stdout=subprocess.PIPE,
                       stderr=subprocess.PIPE, text=True)
    if p.returncode != 0:
        raise RuntimeError("model generator failed: " + p.stderr[-2000:])
    return [l for l in p.stdout.split("\n") if l]


CASE_LIMIT_S = 60   # a single case (on real sockets: a query that waits for ever) gets this long, then the worker is killed


class _Watched:
    def __init__(self):
        self.returncode, self.stdout, self.stderr, self.stalled, self.over_budget = None, "", "", False, False


def _run_watched(cmd, text_in, progress_file, deadline=None):
    """run the worker; kill it when the case it is on (last `B <id>` line of the progress file) has not ended within
    CASE_LIMIT_S seconds — the caller reports that case as HANG and runs the rest in a new worker"""
    import threading, time
    res = _Watched()
    proc = subprocess.Popen(cmd, stdin=subprocess.PIPE, stdout=subprocess.PIPE, stderr=subprocess.PIPE, text=True)

    def pump():
        try:
            res.stdout, res.stderr = proc.communicate(text_in)
        except Exception as e:  # noqa: BLE001
            res.stderr = str(e)

    t = threading.Thread(target=pump, daemon=True)
    t.start()
    while t.is_alive():
        t.join(2.0)
        if not t.is_alive():
            break
        try:
            age = time.time() - os.path.getmtime(progress_file)
        except OSError:
            continue
        if age > CASE_LIMIT_S:
            res.stalled = True
            proc.kill()
            t.join(10)
            break
        if deadline is not None and time.time() > deadline:
            res.over_budget = True
            proc.kill()
            t.join(10)
            break
    res.returncode = proc.returncode if proc.returncode is not None else -9
    return res


def run_impl(lines, tag="h", budget_s=None):
    """Run the real code on the case lines. Survives aborts: the case that killed the worker is
    reported as `ABORT` and the rest are re-run in a new worker.
    Returns (dict id -> outcome text, dict id -> panic message)."""
    out, panics = {}, {}
    todo = list(lines)
    rounds = 0
    stalls = 0
    import time as _time
    t_start = _time.time()
    while todo:
        rounds += 1
        prog = os.path.join(WORK, f"progress_{tag}_{os.getpid()}")
        plog = os.path.join(WORK, f"panics_{tag}_{os.getpid()}")
        p = _run_watched([GDHARNESS, "run", "--progress", prog, "--panic-log", plog], "\n".join(todo) + "\n", prog,
                         deadline=(t_start + budget_s) if budget_s else None)
        got = {}
        for l in p.stdout.split("\n"):
            if l:
                i, _, rest = l.partition(" ")
                got[i] = rest
        out.update(got)
        if os.path.exists(plog):
            for l in open(plog):
                i, _, rest = l.strip().partition(" ")
                panics[i] = rest
        ids = [l.split(" ", 1)[0] for l in todo]
        if p.returncode == 0 and all(i in got for i in ids):
            break
        if p.over_budget:
            # the batch as a whole took longer than the caller allows (real sockets: every wait had become longer): the cases
            # that were not reached are marked, the caller reports the overrun
            for i in ids:
                out.setdefault(i, "NOT-RUN time budget of the batch used up")
            panics["<budget>"] = f"the batch did not end within {budget_s} s"
            break
        # worker died: find the case it was on
        begun = [l.strip()[2:] for l in open(prog)] if os.path.exists(prog) else []
        culprit = begun[-1] if begun else ids[0]
        if culprit in got:  # died after finishing its last case?!
            rest_ids = [i for i in ids if i not in got]
            if not rest_ids:
                break
            culprit = rest_ids[0]
        out[culprit] = "HANG" if p.stalled else "ABORT"
        stalls += 1 if p.stalled else 0
        panics[culprit] = (f"the case did not end within {CASE_LIMIT_S} s (worker killed)" if p.stalled
                           else f"worker exited with status {p.returncode}: {p.stderr[-300:].strip()}")
        k = ids.index(culprit)
        todo = [l for l in todo[k + 1:]]
        if stalls >= 3:
            # three cases already waited for ever: the rest of this batch is not run (each would cost the full limit again);
            # what was found is reported
            for l in todo:
                out.setdefault(l.split(" ", 1)[0], "NOT-RUN after three cases that did not end")
            break
        if rounds > 200:
            raise RuntimeError("too many worker restarts")
    for f in (os.path.join(WORK, f"progress_{tag}_{os.getpid()}"), os.path.join(WORK, f"panics_{tag}_{os.getpid()}")):
        if os.path.exists(f):
            os.remove(f)
    return out, panics


# --------------------------------------------------------------------------- findings / verdict

def load_known():
    p = os.path.join(VERIF, "known_findings.json")
    if not os.path.exists(p):
        return []
    return json.load(open(p)).get("findings", [])


class Report:
    """Collects what a check run found and produces verdict + evidence."""

    def __init__(self, pid, tier, seed, level):
        self.pid, self.tier, self.seed, self.level = pid, tier, seed, level
        self.t0 = time.time()
        self.proof = None
        self.evaluations = 0
        self.distinct = set()
        self.hist = {}
        self.samples = []
        self.divergences = []      # (case line, model, impl, panic)
        self.oracle_failures = []  # (signature, description, case line, impl)
        self.tie_failures = []     # translator / correspondence infrastructure failures (strings)
        self.notes = {}
        self.assumptions = []
        self.rule = ""
        self.trusted = []
        self.extra_cov = {}

    def count(self, key, n=1):
        self.hist[key] = self.hist.get(key, 0) + n

    def seen(self, case, impl_out, trivial=False):
        self.evaluations += 1
        if not trivial:
            self.distinct.add(hashlib.sha1(impl_out.encode()).hexdigest())
        if len(self.samples) < 6 and not trivial:
            self.samples.append({"case": case[:400], "impl": impl_out[:400]})

    def finish(self):
        replay_dir = os.path.join(WORK, "replay")
        os.makedirs(replay_dir, exist_ok=True)
        known = [k for k in load_known() if k.get("property") == self.pid and k.get("status") == "finding"]
        known_sigs = {k["signature"]: k for k in known}
        lines = []
        new_fail = [f for f in self.oracle_failures if f[0] not in known_sigs]
        listed = {}
        for f in self.oracle_failures:
            if f[0] in known_sigs:
                listed.setdefault(f[0], f)
        for sig in listed:
            lines.append(f"KNOWN-FINDING: property={self.pid} {known_sigs[sig]['what']}")
        violation = None
        proof_fail = self.proof is not None and not self.proof["ok"]
        if new_fail:
            path = os.path.join(replay_dir, f"{self.pid}.replay")
            with open(path, "w") as f:
                f.write(f"# property {self.pid}: failing input(s) found on the implementation\n")
                for sig, desc, case, impl in new_fail[:20]:
                    f.write(f"# {sig}: {desc}\n# impl: {impl}\n{case}\n")
                if proof_fail:
                    f.write("# proof stage: " + "; ".join(self.proof["failures"]) + "\n")
                for c, m, i, pn in self.divergences[:10]:
                    f.write(f"# correspondence diverges\n# model: {m}\n# impl:  {i}\n# panic: {pn}\n{c}\n")
            violation = f"VIOLATION property={self.pid} replay={path}"
        elif proof_fail or self.divergences or self.tie_failures:
            path = os.path.join(replay_dir, f"{self.pid}.replay")
            with open(path, "w") as f:
                f.write(f"# property {self.pid}: no failing input found; what no longer checks:\n")
                if proof_fail:
                    for x in self.proof["failures"]:
                        f.write(f"# theorem/proof stage: {x}\n")
                    f.write("# build log tail:\n" + "\n".join("#   " + l for l in self.proof.get("log", "").split("\n")[-25:]) + "\n")
                for x in self.tie_failures:
                    f.write(f"# tie: {x}\n")
                for c, m, i, pn in self.divergences[:20]:
                    f.write(f"# correspondence diverges (model vs implementation)\n# model: {m}\n# impl:  {i}\n# panic: {pn}\n{c}\n")
            violation = f"VIOLATION property={self.pid} replay={path} no-failing-input-found"
        cov = {
            "evaluations": self.evaluations,
            "distinct_nontrivial": len(self.distinct),
            "rule": self.rule,
            "samples": self.samples or [{"note": "no executable cases in this run"}],
            "histogram": dict(sorted(self.hist.items())),
            "correspondence_divergences": len(self.divergences),
            "oracle_failures_new": len(new_fail),
            "oracle_failures_known": len(self.oracle_failures) - len(new_fail),
            "traces_validated_against_impl": self.evaluations,
        }
        if self.proof is not None:
            cov.update({
                "obligations": self.proof["obligations"],
                "discharged": self.proof["discharged"] if self.proof["ok"] else min(self.proof["discharged"], max(0, self.proof["obligations"] - 1)),
                "checker_cmd": "cd /verif/lean && lake build " + " ".join("GdVerif.Props." + f for f in prop_modules(self.pid)) + f" && lake env lean ../.work/Audit_{self.pid}.lean  (#print axioms of every theorem)" + ("; lake env leanchecker <each module>" if self.tier == "thorough" else ""),
                "trusted_base": ["Lean 4.33.0 kernel", "axioms: " + ", ".join(self.proof["axioms"] or ["none"])] + self.trusted,
                "theorems": self.proof["theorems"],
                "proof_failures": self.proof["failures"],
            })
        cov.update(self.extra_cov)
        ev = {
            "property_id": self.pid, "tier": self.tier, "seed": self.seed, "level": self.level,
            "coverage": cov, "assumptions": self.assumptions, "wall_s": round(time.time() - self.t0, 2),
            "violations": (1 if violation else 0),
        }
        os.makedirs(os.path.join(VERIF, "evidence"), exist_ok=True)
        with open(os.path.join(VERIF, "evidence", f"{self.pid}.json"), "w") as f:
            json.dump(ev, f, indent=1)
        for l in lines:
            print(l)
        if not violation:
            stale = os.path.join(replay_dir, f"{self.pid}.replay")
            if os.path.exists(stale):
                os.remove(stale)
        if violation:
            print(violation)
            return 1
        print(f"{self.pid}: ok — {self.evaluations} cases, {len(self.distinct)} distinct non-trivial, "
              f"proof {self.proof['discharged'] if self.proof else 0}/{self.proof['obligations'] if self.proof else 0}, "
              f"{ev['wall_s']} s")
        return 0


def strip_alloc(out):
    """the implementation appends ` ;; A<peak>/<largest>` (measured allocation) and ` ;; V<hex>` (view dump, C15),
    which no model line predicts"""
    for marker in (" ;; V", " ;; A"):
        i = out.rfind(marker)
        if i >= 0:
            out = out[:i]
    return out


def view_of(out):
    """the C15 view dump of an implementation output line (parsed JSON) or None"""
    i = out.rfind(" ;; V")
    if i < 0:
        return None
    try:
        return json.loads(bytes.fromhex(out[i + 5:]).decode())
    except ValueError:
        return None


def alloc_of(out):
    i = out.rfind(" ;; A")
    if i < 0:
        return None
    a, _, b = out[i + 5:].split(" ;; ")[0].partition("/")
    try:
        return int(a), int(b)
    except ValueError:
        return None


def result_of(out):
    """the result part of `<result> ;; <trace> [;; A…]`"""
    return out.split(" ;; ")[0]


def trace_of(out):
    p = out.split(" ;; ")
    return p[1].split(" ") if len(p) > 1 and p[1] else []


def sends_of(out):
    """[(conn, port, hex, failed)] in order"""
    res = []
    for e in trace_of(out):
        if e.startswith("S"):
            head, _, data = e.partition(":")
            conn, _, port = head[1:].partition(">")
            failed = data.endswith("!")
            res.append((int(conn), int(port), data.rstrip("!"), failed))
    return res


def correspond(report, cases, oracle=None, trivial=None, tag="h"):
    """cases: list of case lines. Runs model and implementation, records divergences.
    oracle(case, impl_out, model_out) -> list of (signature, description) failures on the IMPLEMENTATION."""
    model = run_model(cases)
    impl, panics = run_impl(cases, tag=tag)
    for c in cases:
        cid = c.split(" ", 1)[0]
        m = model.get(cid, "<no output>")
        i = impl.get(cid, "<no output>")
        triv = trivial(c, i) if trivial else False
        report.seen(c, i, triv)
        first = i.split(" ", 1)[0]
        report.count("impl:" + (first if first in ("OK", "ERR", "CRASH", "ABORT", "HANG") else "other"))
        if i.startswith("ERR "):
            report.count("errkind:" + i.split(" ")[1])
        icmp = "CRASH" if i == "ABORT" else strip_alloc(i)
        if icmp in ("CRASH", "HANG") and m.startswith("CRASH"):
            icmp = m  # a crash is a crash; the model's trace up to it is not compared
        if m != icmp:
            report.divergences.append((c, m, i, panics.get(cid, "")))
        if oracle:
            for sig, desc in oracle(c, i, m, panics.get(cid, "")):
                report.oracle_failures.append((sig, desc, c, i))
    return model, impl, panics
