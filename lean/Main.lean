import GdVerif.Run.Reader
import GdVerif.Run.Valve
import GdVerif.Run.GenValve
import GdVerif.Run.ValveFaults
import GdVerif.Run.TheShipFaults
import GdVerif.Run.Gs1
import GdVerif.Run.GenGs1
import GdVerif.Run.Gs1Faults
import GdVerif.Run.Gs2
import GdVerif.Run.GenGs2
import GdVerif.Run.Gs2Faults
import GdVerif.Run.Master
import GdVerif.Run.GenMaster
import GdVerif.Run.Settings
import GdVerif.Run.Views
import GdVerif.Run.Games
import GdVerif.Run.Dispatch
import GdVerif.Run.Arms
import GdVerif.Run.IdCheck
import GdVerif.Run.Real
import GdVerif.Run.Cli
import GdVerif.Run.CliPlan
import GdVerif.Run.CliBson
import GdVerif.Run.Quake
import GdVerif.Run.GenQuake
import GdVerif.Run.QuakeFaults
import GdVerif.Run.Unreal2
import GdVerif.Run.GenUnreal2
import GdVerif.Run.Unreal2Faults
import GdVerif.Run.Minecraft
import GdVerif.Run.GenMinecraft
import GdVerif.Run.McFaults
import GdVerif.Run.Gs3
import GdVerif.Run.Jc2m
import GdVerif.Run.GenGs3
import GdVerif.Run.Gs3Faults
import GdVerif.Run.GenJc2m
import GdVerif.Run.Jc2mFaults
import GdVerif.Run.Small
import GdVerif.Run.FfowFaults
import GdVerif.Run.MindustryFaults
import GdVerif.Run.Http
import GdVerif.Run.GenHttp
import GdVerif.Run.Socket
/-
  gdmodel: the model behind a line protocol.
    gdmodel run        : reads `<id> <entry> <args…>` lines on stdin, prints `<id> <outcome>`
-/
open Gd Gd.Run






def allEntries : List (String × (List String → String)) := List.flatten [
  readerEntries,
  valveEntries,
  valveFaultEntries,
  theShipFaultEntries,
  masterEntries,
  settingsEntries,
  viewEntries,
  gameEntries,
  dispatchEntries,
  armsEntries,
  idCheckEntries,
  realEntries,
  cliEntries,
  cliPlanEntries,
  cliBsonEntries,
  quakeEntries,
  quakeFaultEntries,
  unreal2Entries,
  unreal2FaultEntries,
  McDrv.minecraftEntries,
  McGen.mcFaultEntries,
  gs3Entries,
  gs3FaultEntries,
  jc2mEntries,
  jc2mFaultEntries,
  smallEntries,
  ffowFaultEntries,
  mindustryFaultEntries,
  gs1Entries,
  gs1FaultEntries,
  gs2Entries,
  gs2FaultEntries,
  httpEntries,
  SockDrv.sockEntries
  ]

def runLine (line : String) : String :=
  match line.trimAscii.toString.splitOn " " with
  | id :: entry :: args =>
    match allEntries.lookup entry with
    | some f => id ++ " " ++ f (args.filter (· ≠ ""))
    | none => id ++ " unknown-entry"
  | _ => "? bad-line"

partial def loop (h : IO.FS.Stream) (out : IO.FS.Stream) : IO Unit := do
  let line ← h.getLine
  if line.isEmpty then return ()
  if line.trimAscii.toString.isEmpty then loop h out
  else
    out.putStrLn (runLine line)
    loop h out

def main (args : List String) : IO UInt32 := do
  match args with
  | ["run"] =>
    loop (← IO.getStdin) (← IO.getStdout)
    return 0
  | ["gen", suite, seed, n] =>
    match seed.toNat?, n.toNat? with
    | some seed, some n =>
      let lines := match suite with
        | "valve" => genValve seed n
        | "gs1" => genGs1 seed n
        | "gs2" => genGs2 seed n
        | "quake" => genQuake seed n
        | "unreal2" => genUnreal2 seed n
        | "u2str" => genUnreal2Strings seed n
        | "mcjava" | "mcbedrock" | "mclegacy" | "mcauto" => McGen.genMinecraft suite seed n
        | "gs3" => genGs3 seed n
        | "jc2m" => genJc2m seed n
        | "master" => genMaster seed n
        | s => ((smallGen s seed n).orElse fun _ => httpGen s seed n).getD []
      for l in lines do IO.println l
      return 0
    | _, _ => return 2
  | ["gen", "valvefor", seed, n, eng, g] =>
    match seed.toNat?, n.toNat?, parseEngine eng, parseGather g with
    | some seed, some n, some eng, some g =>
      for l in genValveWith (some (eng, g)) seed n do IO.println l
      return 0
    | _, _, _, _ => return 2
  | _ =>
    IO.eprintln "usage: gdmodel run | gen <suite> <seed> <n>"
    return 2
