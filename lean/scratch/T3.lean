import GdVerif.Base
open Gd
theorem v (b : UInt8) (r : Bytes) (hb : b.toNat < 128) : validUtf8 (b :: r) = validUtf8 r := by
  conv => lhs; unfold validUtf8
  simp [hb]
