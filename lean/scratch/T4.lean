import GdVerif.Lemmas.Decodes
open Gd
theorem bits7 : ∀ id, id < 128 → (id + 128) &&& 0x7f = id ∧ ((id + 128) &&& 0x80 > 0) = True ∧ id &&& 0x7f = id ∧ (id &&& 0x80 > 0) = False := by
  decide
example : asciiBytes "splitnum" ++ [0] = [115, 112, 108, 105, 116, 110, 117, 109, 0] := by decide
example : okOr (some 3) ErrKind.packetBad = Res.ok 3 := rfl
