import GdVerif.Base
open Gd
example : asciiBytes "player" = [112, 108, 97, 121, 101, 114] := by decide
example : asciiBytes "player" = [112, 108, 97, 121, 101, 114] := by rfl
example (n : Nat) : (toString n).toList = Nat.toDigits 10 n := by simp
example (s : String) : ("-" ++ s).toList = '-' :: s.toList := by simp
#check @List.Perm.foldl_eq'
#check @String.toList_append
