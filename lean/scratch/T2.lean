import GdVerif.Base
open Gd
example (c : Char) (h : c.isDigit = true) : 48 ≤ c.toNat ∧ c.toNat ≤ 57 := by
  simp only [Char.isDigit, Bool.and_eq_true, decide_eq_true_eq, ge_iff_le, UInt32.le_iff_toNat_le] at h
  exact h

theorem pu_cons (bits : Nat) (d : UInt8) (r : Bytes) (hd : d ≠ 43) :
    parseUnsigned bits (d :: r) =
      if (d :: r).isEmpty || !(d :: r).all isDigit then none
      else if digitsVal (d :: r) < 2 ^ bits then some (digitsVal (d :: r)) else none := by
  unfold parseUnsigned
  split
  · rename_i heq
    simp only [List.cons.injEq] at heq
    exact absurd heq.1 hd
  · rfl
