import GdVerif.Buffer
/-
  MODEL of the transport and of the two combinators of `utils.rs`.

  All I/O of the library goes through `Socket::{new, send, receive}`.  A query
  is therefore a deterministic function of the *script* (what the peer
  delivers to each socket the client opens, which sends fail) returning a
  result and the *log* of everything the client did.  `Net` is that state;
  `Q α` is a computation over it.  The state survives an error (because
  `retry_on_timeout` re-runs a closure over the same socket).
-/
namespace Gd

inductive Delivery
  | data (b : Bytes)
  | silence
  deriving Repr, DecidableEq

inductive ConnScript
  | refused
  | opened (ds : List Delivery)
  deriving Repr, DecidableEq

/-- one logged transport operation -/
inductive Ev
  | opened (conn : Nat) (tcp : Bool) (port : Nat) (refused : Bool)
  | send (conn : Nat) (port : Nat) (data : Bytes) (failed : Bool)
  | recv (conn : Nat) (size : Option Nat) (got : Option Nat)
  deriving Repr, DecidableEq

structure Net where
  /-- scripts of sockets not yet opened, in order of creation -/
  pending : List ConnScript
  /-- remaining deliveries of each socket opened so far (index = socket id) -/
  conns : List (List Delivery)
  /-- one flag per `send`, `true` = that send fails -/
  faults : List Bool
  /-- everything the client did, oldest first -/
  log : List Ev
  deriving Repr

def Net.init (script : List ConnScript) (faults : List Bool) : Net := ⟨script, [], faults, []⟩

/-- A query computation. -/
def Q (α : Type) := Net → Res α × Net

namespace Q

@[inline] def pure' (a : α) : Q α := fun w => (.ok a, w)

@[inline] def bind' (q : Q α) (f : α → Q β) : Q β := fun w =>
  match q w with
  | (.ok a, w') => f a w'
  | (.err k, w') => (.err k, w')
  | (.crash, w') => (.crash, w')

instance : Monad Q where
  pure := pure'
  bind := bind'

/-- lift a pure result (`?` on something that does no I/O) -/
@[inline] def lift (r : Res α) : Q α := fun w => (r, w)

@[inline] def fail (k : ErrKind) : Q α := fun w => (.err k, w)

@[simp] theorem pure_apply (a : α) (w : Net) : (pure a : Q α) w = (.ok a, w) := rfl

theorem bind_apply (q : Q α) (f : α → Q β) (w : Net) :
    (q >>= f) w = match q w with
      | (.ok a, w') => f a w'
      | (.err k, w') => (.err k, w')
      | (.crash, w') => (.crash, w') := rfl

end Q

/-- socket handle: its id and the remote port (the IP is the caller's and never changes) -/
structure Sock where
  id : Nat
  port : Nat
  tcp : Bool
  deriving Repr, DecidableEq

/-- `UdpSocket::new` / `TcpSocket::new` -/
def openSock (tcp : Bool) (port : Nat) : Q Sock := fun w =>
  let id := w.conns.length
  match w.pending with
  | [] => (.ok ⟨id, port, tcp⟩,
      { w with conns := w.conns ++ [[]], log := w.log ++ [.opened id tcp port false] })
  | .opened ds :: rest => (.ok ⟨id, port, tcp⟩,
      { w with pending := rest, conns := w.conns ++ [ds], log := w.log ++ [.opened id tcp port false] })
  | .refused :: rest => (.err (if tcp then .socketConnect else .socketBind),
      { w with pending := rest, conns := w.conns ++ [[]], log := w.log ++ [.opened id tcp port true] })

/-- `Socket::send` -/
def send (s : Sock) (data : Bytes) : Q Unit := fun w =>
  match w.faults with
  | true :: rest => (.err .packetSend, { w with faults := rest, log := w.log ++ [.send s.id s.port data true] })
  | _ :: rest => (.ok (), { w with faults := rest, log := w.log ++ [.send s.id s.port data false] })
  | [] => (.ok (), { w with log := w.log ++ [.send s.id s.port data false] })

def setAt (l : List α) (i : Nat) (x : α) : List α :=
  match l, i with
  | [], _ => []
  | _ :: r, 0 => x :: r
  | y :: r, i + 1 => y :: setAt r i x

/-- `Socket::receive(size)`.
UDP: one datagram, truncated to the buffer size (`size` or 1024); silence = timeout.
TCP: `read_to_end`: everything the peer wrote before closing; an exhausted script is a closed
stream (empty read). -/
def recv (s : Sock) (size : Option Nat) : Q Bytes := fun w =>
  match w.conns.getD s.id [] with
  | .data d :: rest =>
    let d' := if s.tcp then d else d.take (size.getD 1024)
    (.ok d', { w with conns := setAt w.conns s.id rest, log := w.log ++ [.recv s.id size (some d'.length)] })
  | .silence :: rest =>
    (.err .packetReceive, { w with conns := setAt w.conns s.id rest, log := w.log ++ [.recv s.id size none] })
  | [] =>
    if s.tcp then (.ok [], { w with log := w.log ++ [.recv s.id size (some 0)] })
    else (.err .packetReceive, { w with log := w.log ++ [.recv s.id size none] })

/-! ### `retry_on_timeout` -/

/-- `retry_on_timeout(r, f)`: run `f`; after a timeout-class error run it again, at most `r` more
times. -/
def retryOnTimeout : Nat → Q α → Q α
  | 0, f => f
  | r + 1, f => fun w =>
    match f w with
    | (.err k, w') => if k.isTimeout then retryOnTimeout r f w' else (.err k, w')
    | x => x

/-! ### `maybe_gather!` -/

inductive Toggle | skip | try_ | enforce
  deriving Repr, DecidableEq

/-- `maybe_gather!(toggle, f)` -/
def maybeGather (t : Toggle) (f : Q α) : Q (Option α) :=
  match t with
  | .skip => pure none
  | .try_ => fun w =>
    match f w with
    | (.ok a, w') => (.ok (some a), w')
    | (.err _, w') => (.ok none, w')
    | (.crash, w') => (.crash, w')
  | .enforce => do
    let a ← f
    pure (some a)

/-- run a parser on received bytes inside a query -/
def parse (p : Par α) (data : Bytes) : Q α := Q.lift (p.run data)

end Gd
