/-
  Base definitions shared by every model: bytes, error kinds, the outcome
  type with an explicit `crash` outcome, number codecs, text codecs.
  Nothing here imports anything outside Lean core, so the driver links.
-/
namespace Gd

abbrev Bytes := List UInt8

/-- Mirrors `GDErrorKind` one for one. -/
inductive ErrKind
  | packetOverflow | packetUnderflow | packetBad | packetSend | packetReceive
  | decompress | socketConnect | socketBind | invalidInput | badGame | autoQuery
  | protocolFormat | unknownEnumCast | jsonParse | typeParse | hostLookup
  deriving DecidableEq, Repr, Inhabited

def ErrKind.name : ErrKind → String
  | .packetOverflow => "PacketOverflow" | .packetUnderflow => "PacketUnderflow"
  | .packetBad => "PacketBad" | .packetSend => "PacketSend" | .packetReceive => "PacketReceive"
  | .decompress => "Decompress" | .socketConnect => "SocketConnect" | .socketBind => "SocketBind"
  | .invalidInput => "InvalidInput" | .badGame => "BadGame" | .autoQuery => "AutoQuery"
  | .protocolFormat => "ProtocolFormat" | .unknownEnumCast => "UnknownEnumCast"
  | .jsonParse => "JsonParse" | .typeParse => "TypeParse" | .hostLookup => "HostLookup"

/-- Timeout-class errors: the ones `retry_on_timeout` retries. -/
def ErrKind.isTimeout : ErrKind → Bool
  | .packetReceive | .packetSend => true
  | _ => false

/-- Outcome of running a piece of Rust: a value, a `GDError` of some kind, or
the process stopping (panic, overflow trap, allocation failure, abort). -/
inductive Res (α : Type) where
  | ok (a : α)
  | err (k : ErrKind)
  | crash
  deriving Repr, DecidableEq

namespace Res

@[inline] def bind {α β : Type} (r : Res α) (f : α → Res β) : Res β :=
  match r with
  | .ok a => f a
  | .err k => .err k
  | .crash => .crash

instance : Monad Res where
  pure := .ok
  bind := Res.bind

def isCrash : Res α → Bool
  | .crash => true
  | _ => false

def isOk : Res α → Bool
  | .ok _ => true
  | _ => false

def isErr : Res α → Bool
  | .err _ => true
  | _ => false

/-- `Result::ok()` -/
def toOption : Res α → Option α
  | .ok a => some a
  | _ => none

/-- `.map_err(|_| k)` -/
def mapErr (r : Res α) (k : ErrKind) : Res α :=
  match r with
  | .err _ => .err k
  | r => r

@[simp] theorem bind_ok (a : α) (f : α → Res β) : (Res.ok a >>= f) = f a := rfl
@[simp] theorem bind_err (k : ErrKind) (f : α → Res β) : (Res.err k >>= f) = .err k := rfl
@[simp] theorem bind_crash (f : α → Res β) : ((Res.crash : Res α) >>= f) = .crash := rfl
@[simp] theorem pure_eq (a : α) : (pure a : Res α) = .ok a := rfl

end Res

/-- `Option::ok_or(kind)` -/
def okOr (o : Option α) (k : ErrKind) : Res α :=
  match o with
  | some a => .ok a
  | none => .err k

/-- `Option::unwrap()` / indexing: absence is a crash. -/
def unwrapOrCrash (o : Option α) : Res α :=
  match o with
  | some a => .ok a
  | none => .crash

/-! ### Hex -/

def hexDigit (n : Nat) : Char :=
  if n < 10 then Char.ofNat (48 + n) else Char.ofNat (87 + n)

def hexOfByte (b : UInt8) : List Char := [hexDigit (b.toNat / 16), hexDigit (b.toNat % 16)]

def hexOf (bs : Bytes) : String := String.ofList (bs.flatMap hexOfByte)

def hexVal (c : Char) : Option Nat :=
  if '0' ≤ c ∧ c ≤ '9' then some (c.toNat - 48)
  else if 'a' ≤ c ∧ c ≤ 'f' then some (c.toNat - 87)
  else if 'A' ≤ c ∧ c ≤ 'F' then some (c.toNat - 55)
  else none

def parseHexAux : List Char → Bytes → Option Bytes
  | [], acc => some acc.reverse
  | [_], _ => none
  | a :: b :: r, acc =>
    match hexVal a, hexVal b with
    | some x, some y => parseHexAux r (UInt8.ofNat (x * 16 + y) :: acc)
    | _, _ => none

def parseHex (s : String) : Option Bytes := if s == "-" then some [] else parseHexAux s.toList []

/-! ### Fixed-width integers (values are `Nat` / `Int`; widths are explicit) -/

/-- little-endian bytes → natural number -/
def leNat : Bytes → Nat
  | [] => 0
  | b :: r => b.toNat + 256 * leNat r

/-- big-endian bytes → natural number -/
def beNat (bs : Bytes) : Nat := bs.foldl (fun acc b => acc * 256 + b.toNat) 0

/-- two's complement reinterpretation of an unsigned `bits`-bit value -/
def toSigned (bits : Nat) (n : Nat) : Int :=
  if n < 2 ^ (bits - 1) then (n : Int) else (n : Int) - (2 ^ bits : Nat)

/-- natural number → `w` little-endian bytes (value taken mod 256^w) -/
def natLE : Nat → Nat → Bytes
  | 0, _ => []
  | w + 1, n => UInt8.ofNat (n % 256) :: natLE w (n / 256)

def natBE (w n : Nat) : Bytes := (natLE w n).reverse

/-- two's complement encoding of an `Int` into `bits` bits -/
def ofSigned (bits : Nat) (i : Int) : Nat := (i % (2 ^ bits : Nat)).toNat

inductive Endian | little | big
  deriving DecidableEq, Repr

def Endian.decode : Endian → Bytes → Nat
  | .little, bs => leNat bs
  | .big, bs => beNat bs

def Endian.encode : Endian → Nat → Nat → Bytes
  | .little, w, n => natLE w n
  | .big, w, n => natBE w n

def Endian.flip : Endian → Endian
  | .little => .big
  | .big => .little

/-! ### UTF-8 (exactly `core::str::from_utf8`: Unicode Table 3-7) -/

@[inline] def inRange (b : UInt8) (lo hi : Nat) : Bool := lo ≤ b.toNat && b.toNat ≤ hi

def isCont (b : UInt8) : Bool := inRange b 0x80 0xBF

/-- Well-formed UTF-8 byte sequences. Structural on the list via explicit
patterns of at most four bytes. -/
def validUtf8 : Bytes → Bool
  | [] => true
  | b0 :: r =>
    if b0.toNat < 0x80 then validUtf8 r
    else if inRange b0 0xC2 0xDF then
      match r with
      | b1 :: r => isCont b1 && validUtf8 r
      | _ => false
    else if b0.toNat == 0xE0 then
      match r with
      | b1 :: b2 :: r => inRange b1 0xA0 0xBF && isCont b2 && validUtf8 r
      | _ => false
    else if inRange b0 0xE1 0xEC || inRange b0 0xEE 0xEF then
      match r with
      | b1 :: b2 :: r => isCont b1 && isCont b2 && validUtf8 r
      | _ => false
    else if b0.toNat == 0xED then
      match r with
      | b1 :: b2 :: r => inRange b1 0x80 0x9F && isCont b2 && validUtf8 r
      | _ => false
    else if b0.toNat == 0xF0 then
      match r with
      | b1 :: b2 :: b3 :: r => inRange b1 0x90 0xBF && isCont b2 && isCont b3 && validUtf8 r
      | _ => false
    else if inRange b0 0xF1 0xF3 then
      match r with
      | b1 :: b2 :: b3 :: r => isCont b1 && isCont b2 && isCont b3 && validUtf8 r
      | _ => false
    else if b0.toNat == 0xF4 then
      match r with
      | b1 :: b2 :: b3 :: r => inRange b1 0x80 0x8F && isCont b2 && isCont b3 && validUtf8 r
      | _ => false
    else false

/-- A Unicode scalar value: what a Rust `char` holds. -/
def isScalar (c : Nat) : Bool := c < 0xD800 || (0xE000 ≤ c && c < 0x110000)

/-- UTF-8 encoding of one scalar value (total; only meaningful on scalars). -/
def utf8EncodeChar (c : Nat) : Bytes :=
  if c < 0x80 then [UInt8.ofNat c]
  else if c < 0x800 then [UInt8.ofNat (0xC0 + c / 64), UInt8.ofNat (0x80 + c % 64)]
  else if c < 0x10000 then
    [UInt8.ofNat (0xE0 + c / 4096), UInt8.ofNat (0x80 + c / 64 % 64), UInt8.ofNat (0x80 + c % 64)]
  else
    [UInt8.ofNat (0xF0 + c / 262144), UInt8.ofNat (0x80 + c / 4096 % 64),
     UInt8.ofNat (0x80 + c / 64 % 64), UInt8.ofNat (0x80 + c % 64)]

def utf8Encode (cs : List Nat) : Bytes := cs.flatMap utf8EncodeChar

/-- Decode valid UTF-8 to scalar values (on invalid input the result is
unspecified garbage; callers validate first). Fuel = length. -/
def utf8DecodeAux : Nat → Bytes → List Nat
  | 0, _ => []
  | _ + 1, [] => []
  | f + 1, b0 :: r =>
    if b0.toNat < 0x80 then b0.toNat :: utf8DecodeAux f r
    else if b0.toNat < 0xE0 then
      match r with
      | b1 :: r => ((b0.toNat - 0xC0) * 64 + (b1.toNat - 0x80)) :: utf8DecodeAux f r
      | _ => []
    else if b0.toNat < 0xF0 then
      match r with
      | b1 :: b2 :: r =>
        ((b0.toNat - 0xE0) * 4096 + (b1.toNat - 0x80) * 64 + (b2.toNat - 0x80)) :: utf8DecodeAux f r
      | _ => []
    else
      match r with
      | b1 :: b2 :: b3 :: r =>
        ((b0.toNat - 0xF0) * 262144 + (b1.toNat - 0x80) * 4096 + (b2.toNat - 0x80) * 64 + (b3.toNat - 0x80))
          :: utf8DecodeAux f r
      | _ => []

def utf8Decode (bs : Bytes) : List Nat := utf8DecodeAux bs.length bs

/-! ### UTF-16 (exactly `String::from_utf16`: unpaired surrogate = error) -/

def utf16Decode : List Nat → Option (List Nat)
  | [] => some []
  | u :: r =>
    if u < 0xD800 || 0xE000 ≤ u then (utf16Decode r).map (u :: ·)
    else if u < 0xDC00 then
      match r with
      | l :: r =>
        if 0xDC00 ≤ l && l < 0xE000 then
          (utf16Decode r).map ((0x10000 + (u - 0xD800) * 1024 + (l - 0xDC00)) :: ·)
        else none
      | [] => none
    else none

def utf16EncodeChar (c : Nat) : List Nat :=
  if c < 0x10000 then [c] else [0xD800 + (c - 0x10000) / 1024, 0xDC00 + (c - 0x10000) % 1024]

def utf16Encode (cs : List Nat) : List Nat := cs.flatMap utf16EncodeChar

/-- pair bytes into 16-bit units with the given byte order; a trailing odd
byte is dropped (callers decide what an odd length means) -/
def unitsOf (e : Endian) : Bytes → List Nat
  | a :: b :: r => e.decode [a, b] :: unitsOf e r
  | _ => []

def bytesOfUnits (e : Endian) (us : List Nat) : Bytes := us.flatMap (e.encode 2)

/-! ### Windows-1252 as `encoding_rs` decodes it (never fails) -/

def cp1252High : List Nat :=
  [0x20AC, 0x0081, 0x201A, 0x0192, 0x201E, 0x2026, 0x2020, 0x2021,
   0x02C6, 0x2030, 0x0160, 0x2039, 0x0152, 0x008D, 0x017D, 0x008F,
   0x0090, 0x2018, 0x2019, 0x201C, 0x201D, 0x2022, 0x2013, 0x2014,
   0x02DC, 0x2122, 0x0161, 0x203A, 0x0153, 0x009D, 0x017E, 0x0178]

def cp1252Char (b : UInt8) : Nat :=
  if 0x80 ≤ b.toNat && b.toNat < 0xA0 then cp1252High.getD (b.toNat - 0x80) 0xFFFD else b.toNat

def cp1252Decode (bs : Bytes) : List Nat := bs.map cp1252Char

/-! ### Text helpers over byte strings -/

def asciiBytes (s : String) : Bytes := s.toList.map (fun c => UInt8.ofNat c.toNat)

/-- split on a single byte, like `str::split(char)` for an ASCII char:
always returns at least one piece -/
def splitOn (d : UInt8) : Bytes → List Bytes
  | [] => [[]]
  | b :: r =>
    if b == d then [] :: splitOn d r
    else match splitOn d r with
      | [] => [[b]]
      | p :: ps => (b :: p) :: ps

def isDigit (b : UInt8) : Bool := inRange b 48 57

def digitsVal (bs : Bytes) : Nat := bs.foldl (fun acc b => acc * 10 + (b.toNat - 48)) 0

/-- Rust `str::parse::<uN>()`: optional `+`, at least one digit, digits only,
value < 2^bits. -/
def stripPlus : Bytes → Bytes
  | 43 :: r => r
  | s => s

def parseUnsigned (bits : Nat) (s : Bytes) : Option Nat :=
  let ds := stripPlus s
  if ds.isEmpty || !ds.all isDigit then none
  else
    let v := digitsVal ds
    if v < 2 ^ bits then some v else none

/-- Rust `str::parse::<iN>()`: optional `+` or `-`, digits, range check. -/
def parseSigned (bits : Nat) (s : Bytes) : Option Int :=
  let (neg, ds) := match s with
    | 43 :: r => (false, r)
    | 45 :: r => (true, r)
    | s => (false, s)
  if ds.isEmpty || !ds.all isDigit then none
  else
    let v := digitsVal ds
    if neg then (if v ≤ 2 ^ (bits - 1) then some (-(v : Int)) else none)
    else (if v < 2 ^ (bits - 1) then some (v : Int) else none)

/-- decimal digits of `n`, most significant first (fuel ≥ number of digits) -/
def natDecAux : Nat → Nat → Bytes
  | 0, _ => []
  | f + 1, n => if n < 10 then [UInt8.ofNat (48 + n)] else natDecAux f (n / 10) ++ [UInt8.ofNat (48 + n % 10)]

/-- decimal rendering, as `to_string()` on an unsigned integer -/
def natDec (n : Nat) : Bytes := natDecAux (n + 1) n

/-- decimal rendering, as `to_string()` on a signed integer -/
def intDec (i : Int) : Bytes := if i < 0 then 45 :: natDec (-i).toNat else natDec i.toNat

/-- ASCII lower-casing (used only where the code compares with ASCII literals) -/
def asciiLower (bs : Bytes) : Bytes :=
  bs.map (fun b => if inRange b 65 90 then b + 32 else b)

/-- Rust `char::is_whitespace` (White_Space property). -/
def isWhiteSpaceScalar (c : Nat) : Bool :=
  (9 ≤ c && c ≤ 13) || c == 0x20 || c == 0x85 || c == 0xA0 || c == 0x1680 ||
  (0x2000 ≤ c && c ≤ 0x200A) || c == 0x2028 || c == 0x2029 || c == 0x202F || c == 0x205F || c == 0x3000

/-- `str::trim` on a valid UTF-8 byte string. -/
def trimUtf8 (bs : Bytes) : Bytes :=
  let cs := utf8Decode bs
  let cs := cs.dropWhile isWhiteSpaceScalar
  let cs := (cs.reverse.dropWhile isWhiteSpaceScalar).reverse
  utf8Encode cs

/-! ### A small deterministic PRNG for the generators (SplitMix64) -/

structure Rng where
  s : UInt64

def Rng.next (r : Rng) : UInt64 × Rng :=
  let s := r.s + 0x9E3779B97F4A7C15
  let z := s
  let z := (z ^^^ (z >>> 30)) * 0xBF58476D1CE4E5B9
  let z := (z ^^^ (z >>> 27)) * 0x94D049BB133111EB
  (z ^^^ (z >>> 31), ⟨s⟩)

end Gd
