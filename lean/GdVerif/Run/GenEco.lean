import GdVerif.Run.GenLib
import GdVerif.Run.Eco
import GdVerif.Spec.Eco
namespace Gd.Run
open Gd Gd.Eco

instance : Inhabited Spec.Decimal := ⟨⟨false, 0, 0⟩⟩

/-- any valid UTF-8 text, NUL and the other control characters included (they travel escaped) -/
def gEcoStr : G Bytes := do
  let t ← G.text [] 40
  let ctl ← G.chance 1 8
  pure (utf8Encode (if ctl then [0, 8, 12, 13, 0x1f] ++ t else t))

def gNames : G (List Bytes) := do
  let n ← G.oneOf [0, 0, 1, 2, 3, 7, 30]
  G.listOf n gEcoStr

def gDict : G (List (Bytes × Bytes)) := do
  let n ← G.oneOf [0, 0, 1, 2, 5]
  let kvs ← G.listOf n (do let k ← G.ident; let v ← gEcoStr; pure (utf8Encode k, v))
  pure (dedupKeys kvs)

/-- decimal literals: zeros, integers (also beyond 2^53 and 2^64), short decimals, 17-significant-digit decimals
(what a server prints for a double), the extremes of the double range -/
def gDecimal : G Spec.Decimal := do
  let neg ← G.chance 1 5
  let c ← G.below 9
  match c with
  | 0 => pure ⟨neg, 0, 0⟩
  | 1 => do let n ← G.nat 53; pure ⟨neg, n, 0⟩
  | 2 => do let n ← G.nat 20; pure ⟨neg, n, 0⟩
  | 3 => do
    let k : Nat ← G.oneOf [1, 2, 3, 4, 6, 10]
    let n ← G.nat 24
    pure ⟨neg, n * 5 ^ k, -(k : Int)⟩
  | 4 => do let n ← G.nat 67; pure ⟨neg, n, 0⟩
  | 5 => G.oneOf [⟨neg, 17976931348623157, 292⟩, ⟨neg, 5, -324⟩, ⟨neg, 22250738585072014, -324⟩, ⟨neg, 1, -400⟩,
      ⟨neg, 9007199254740993, 0⟩, ⟨neg, 90071992547409910, -1⟩, ⟨neg, 1, 22⟩, ⟨neg, 1, 23⟩]
  | _ => do
    -- 17 significant digits, as printed for a double
    let hi ← G.below 90000000
    let lo ← G.below 1000000000
    let e ← G.oneOf [-16, -12, -11, -8, -20, 0, 3]
    pure ⟨neg, (hi + 10000000) * 1000000000 + lo, e⟩

def gEcoState : G Spec.State := do
  let d0 ← gDecimal
  let d1 ← gDecimal
  let d2 ← gDecimal
  let d3 ← gDecimal
  let info : Info := {
      external := ← G.bool,
      gamePort := ← G.nat 32,
      webPort := ← G.nat 32,
      isLan := ← G.bool,
      description := ← gEcoStr,
      detailedDescription := ← gEcoStr,
      category := ← gEcoStr,
      onlinePlayers := ← G.nat 32,
      totalPlayers := ← G.nat 32,
      onlinePlayersNames := ← gNames,
      adminOnline := ← G.bool,
      timeSinceStart := d0.bits,
      timeLeft := d1.bits,
      animals := ← G.nat 32,
      plants := ← G.nat 32,
      laws := ← G.nat 32,
      worldSize := ← gEcoStr,
      version := ← gEcoStr,
      economyDesc := ← gEcoStr,
      skillSpecializationSetting := ← gEcoStr,
      language := ← gEcoStr,
      hasPassword := ← G.bool,
      hasMeteor := ← G.bool,
      distributionStationItems := ← gEcoStr,
      playtimes := ← gEcoStr,
      discordAddress := ← gEcoStr,
      isPaused := ← G.bool,
      activeAndOnlinePlayers := ← G.nat 32,
      peakActivePlayers := ← G.nat 32,
      maxActivePlayers := ← G.nat 32,
      shelfLifeMultiplier := d2.bits,
      exhaustionAfterHours := d3.bits,
      isLimitingHours := ← G.bool,
      serverAchievementsDict := ← gDict,
      relayAddress := ← gEcoStr,
      access := ← gEcoStr,
      joinUrl := ← gEcoStr }
  pure ⟨info, d0, d1, d2, d3⟩

/-! ### varied renderings of the same document (test inputs; the SPEC's own rendering is `Spec.render`) -/

def gWs : G Bytes := G.oneOf [[], [], [], [32], [10], [9, 32], [13, 10], [32, 32]]

def hex4u (n : Nat) : Bytes := Spec.hex4 n

/-- one scalar as JSON string content: literally, or as a `\u` escape (a surrogate pair above the BMP), or
with the short escape -/
def vscalar (c : Nat) : G Bytes := do
  let esc ← G.chance 1 6
  let upper ← G.bool
  let up (b : Bytes) : Bytes := if upper then b.map (fun x => if 97 ≤ x.toNat && x.toNat ≤ 102 then x - 32 else x) else b
  if c == 34 then pure [92, 34]
  else if c == 92 then pure [92, 92]
  else if c == 47 && esc then pure [92, 47]
  else if c == 8 && esc then pure [92, 98]
  else if c == 12 && esc then pure [92, 102]
  else if c == 10 && esc then pure [92, 110]
  else if c == 13 && esc then pure [92, 114]
  else if c == 9 && esc then pure [92, 116]
  else if c < 32 || esc then
    if c < 0x10000 then pure ([92, 117] ++ up (hex4u c))
    else pure ([92, 117] ++ up (hex4u (0xD800 + (c - 0x10000) / 1024)) ++ [92, 117] ++ up (hex4u (0xDC00 + (c - 0x10000) % 1024)))
  else pure (utf8EncodeChar c)

def vstr (s : Bytes) : G Bytes := do
  let parts ← (utf8Decode s).mapM vscalar
  pure ([34] ++ parts.flatten ++ [34])

def vsep (xs : List Bytes) : G Bytes := do
  match xs with
  | [] => gWs
  | x :: r => do
    let mut out ← gWs
    out := out ++ x
    for y in r do
      out := out ++ (← gWs) ++ [44] ++ (← gWs) ++ y
    pure (out ++ (← gWs))

def varr (xs : List Bytes) : G Bytes := do pure ([91] ++ (← vsep xs) ++ [93])

def vobj (kvs : List (Bytes × Bytes)) : G Bytes := do
  let ms ← kvs.mapM fun kv => do pure (kv.1 ++ (← gWs) ++ [58] ++ (← gWs) ++ kv.2)
  pure ([123] ++ (← vsep ms) ++ [125])

/-- the same value in one of the number notations: exponent form, positional form, trailing zeros -/
def vfloat (d : Spec.Decimal) : G Bytes := do
  let c ← G.below 6
  let sign : Bytes := if d.neg then [45] else []
  let ds := natDec d.m
  let positional : Option Bytes :=
    if d.e ≥ 0 then (if d.e ≤ 25 && d.m != 0 then some (ds ++ List.replicate d.e.toNat 48) else if d.m == 0 then some ds else none)
    else
      let k := (-d.e).toNat
      if k > 40 then none
      else
        let padded := List.replicate (k + 1 - ds.length) 48 ++ ds
        some (padded.take (padded.length - k) ++ [46] ++ padded.drop (padded.length - k))
  match c, positional with
  | 0, _ => pure (sign ++ ds ++ asciiBytes "E" ++ (if d.e ≥ 0 then asciiBytes "+" else []) ++ intDec d.e)
  | 1, _ => pure (sign ++ ds ++ asciiBytes ".0e" ++ intDec d.e)
  | 2, some p => pure (sign ++ p ++ (if d.e ≥ 0 then asciiBytes ".0" else asciiBytes "0"))
  | 3, some p => pure (sign ++ p ++ asciiBytes "e0")
  | _, some p => pure (sign ++ p)
  | _, none => pure d.text

/-- values of members the reader does not know: skipped, whatever they are -/
def gJunk : G Bytes :=
  G.oneOf (["null", "true", "[]", "{}", "-0", "1e400", "123456789012345678901234567890", "[1,[2,{\"a\":[null]}],\"x\"]",
    "{\"External\":false,\"k\":{\"k\":[]}}", "\"\\ud800\"", "\"plain\"", "0.5E-7"].map asciiBytes)

def shuffle (xs : List α) : G (List α) := do
  let keyed ← xs.mapM fun x => do let k ← G.below 1000000; pure (k, x)
  pure ((sortBy (fun a b => a.1 < b.1) keyed).map (·.2))

/-- a document for the state: members in random order, random white space, escapes and number notations,
unknown members (some differing from known names only in case) in between -/
def gDocument (st : Spec.State) : G Bytes := do
  let i := st.info
  let members : List (Bytes × Bytes) := [
    (asciiBytes "External", ← pure (Spec.jbool i.external)),
    (asciiBytes "GamePort", ← pure (Spec.jnat i.gamePort)),
    (asciiBytes "WebPort", ← pure (Spec.jnat i.webPort)),
    (asciiBytes "IsLAN", ← pure (Spec.jbool i.isLan)),
    (asciiBytes "Description", ← vstr i.description),
    (asciiBytes "DetailedDescription", ← vstr i.detailedDescription),
    (asciiBytes "Category", ← vstr i.category),
    (asciiBytes "OnlinePlayers", ← pure (Spec.jnat i.onlinePlayers)),
    (asciiBytes "TotalPlayers", ← pure (Spec.jnat i.totalPlayers)),
    (asciiBytes "OnlinePlayersNames", ← (do let xs ← i.onlinePlayersNames.mapM vstr; varr xs)),
    (asciiBytes "AdminOnline", ← pure (Spec.jbool i.adminOnline)),
    (asciiBytes "TimeSinceStart", ← vfloat st.timeSinceStart),
    (asciiBytes "TimeLeft", ← vfloat st.timeLeft),
    (asciiBytes "Animals", ← pure (Spec.jnat i.animals)),
    (asciiBytes "Plants", ← pure (Spec.jnat i.plants)),
    (asciiBytes "Laws", ← pure (Spec.jnat i.laws)),
    (asciiBytes "WorldSize", ← vstr i.worldSize),
    (asciiBytes "Version", ← vstr i.version),
    (asciiBytes "EconomyDesc", ← vstr i.economyDesc),
    (asciiBytes "SkillSpecializationSetting", ← vstr i.skillSpecializationSetting),
    (asciiBytes "Language", ← vstr i.language),
    (asciiBytes "HasPassword", ← pure (Spec.jbool i.hasPassword)),
    (asciiBytes "HasMeteor", ← pure (Spec.jbool i.hasMeteor)),
    (asciiBytes "DistributionStationItems", ← vstr i.distributionStationItems),
    (asciiBytes "Playtimes", ← vstr i.playtimes),
    (asciiBytes "DiscordAddress", ← vstr i.discordAddress),
    (asciiBytes "IsPaused", ← pure (Spec.jbool i.isPaused)),
    (asciiBytes "ActiveAndOnlinePlayers", ← pure (Spec.jnat i.activeAndOnlinePlayers)),
    (asciiBytes "PeakActivePlayers", ← pure (Spec.jnat i.peakActivePlayers)),
    (asciiBytes "MaxActivePlayers", ← pure (Spec.jnat i.maxActivePlayers)),
    (asciiBytes "ShelfLifeMultiplier", ← vfloat st.shelfLifeMultiplier),
    (asciiBytes "ExhaustionAfterHours", ← vfloat st.exhaustionAfterHours),
    (asciiBytes "IsLimitingHours", ← pure (Spec.jbool i.isLimitingHours)),
    (asciiBytes "ServerAchievementsDict", ← (do let kvs ← i.serverAchievementsDict.mapM (fun kv => do let k ← vstr kv.1; let v ← vstr kv.2; pure (k, v)); vobj kvs)),
    (asciiBytes "RelayAddress", ← vstr i.relayAddress),
    (asciiBytes "Access", ← vstr i.access),
    (asciiBytes "JoinUrl", ← vstr i.joinUrl)]
  let plain ← G.chance 1 6
  if plain then pure (Spec.render st) else do
    let nextra ← G.oneOf [0, 0, 1, 3]
    let extra ← G.listOf nextra (do
      let k ← G.oneOf ["external", "Extra", "", "INFO", "Laws ", "x"]
      pure (asciiBytes k, ← gJunk))
    let ms ← shuffle (members ++ extra)
    let ms ← ms.mapM fun kv => do pure (← vstr kv.1, kv.2)
    let infoObj ← vobj ms
    let withJunk ← G.chance 1 3
    let junk ← gJunk
    let top ← shuffle ([(asciiBytes "Info", infoObj)] ++ (if withJunk then [(asciiBytes "info", junk)] else []))
    let top ← top.mapM fun kv => do pure (← vstr kv.1, kv.2)
    let doc ← vobj top
    pure ((← gWs) ++ doc ++ (← gWs))

/-- `gen eco <seed> <n>` -/
def genEco (seed n : Nat) : List String :=
  (List.range n).map fun k =>
    let (st, doc) := G.run (do let st ← gEcoState; let doc ← gDocument st; pure (st, doc)) (seed * 1000003 + k)
    -- a share of the cases goes over a real loopback HTTP server (IPv4 / IPv6)
    let entry := if k % 20 == 19 then "eco_http6" else if k % 10 == 9 then "eco_http" else "eco"
    let line := s!"eco{seed}_{k} {entry} 3001 0 {hexOf doc}"
    let wf := if Spec.wf st then "" else " NOTWF"
    line ++ " ## WANT " ++ showRes showEco (.ok (Spec.expected st)) ++ wf ++ " ## SEG 1"

end Gd.Run
