import GdVerif.Run.GenTheShip
import GdVerif.Run.ValveFaults
/-
  Driver entry `theshipplan`: the SPEC's faulty script for one fault vector of the C10 check on The Ship.

  The Ship's query is the Valve query with engine app 2400 and the DEFAULT gathering settings (players and rules are
  only *tried*) followed by the conversion that requires both sections; its whole-query theorems
  (`Props/C10_theship_whole.lean`) speak about the Valve plans of `Spec/ValveFaults.lean` on
  `TheShip.Spec.shipConfig cfg`.  This entry rebuilds the exchange `gen theship` printed from its seed, reads the
  vector as such a plan (`planOfVector` of `Run/ValveFaults.lean`) and prints the case line built by
  `Spec.faultyScript` / `Spec.faultyFaults`, the outcome `faultyExpected … >>= TheShip.convert`, the sends
  `Spec.faultySends`, and `THM 1` when the hypotheses of `C10_theship_query_faulty` hold.

  Units 0-2: the fault hits the initial request of info / players / rules; 3-5 (units whose reply travels as two or
  more fragments): after the challenge rounds the reply STOPS HALF WAY (`valveGot` as for the Valve units 6-8).

  What differs from `valveplan`: a players or rules unit that does not end with the server's reply does not end the
  query (the section is only tried), so the units behind it belong to the plan, not to its continuation.  When the
  vector holds letters the unit never gets to (attempts beyond `retries + 1`, anything after a malformed datagram),
  their deliveries sit between the players unit and the rules unit, which meets them instead of its own replies.
  For a fault at the initial request these letters ARE a plan of the rules unit (`absorbLeft`: silences and failed
  sends are its failed attempts, the malformed datagram its end) unless the players reply would have to be read
  again; for a reply that stops half way (unit 4: challenge replies and fragments of the PLAYERS exchange) no plan
  describes them — those lines are printed (the script must still be the check's) with `THM 0`.
-/
namespace Gd.Run
open Gd Gd.Valve Gd.Valve.Spec

/-- Left-over letters of a players unit that was hit at its initial request (so that each letter is a bare silence, a
failed send or the malformed datagram), read as the beginning of the RULES unit's plan — which is what they are to a
query that only tried the players: `S` / `F` are failed attempts of the rules request, `M` ends it; when the letters run
out before `r + 1` attempts failed the rules reply follows and is valid.  `none` when a `V` (the players reply once
more) would have to be read: no plan describes a rules request answered by a players reply. -/
def absorbLeft (r : Nat) (pool : List Bytes) (left : List Char) : Option (UnitPlan × List Char) :=
  let (p', left') := planOfVector r 0 0 pool left []
  match p'.ending with
  | .valid => none
  | .gaveUp => if p'.fails.length ≤ r then some (⟨p'.fails, .valid⟩, left') else some (p', left')
  | .malformed _ _ _ => some (p', left')

/-- `theshipplan <seed> <k> <retries> <unit 0-5> <vector>` → the case line of the plan, with tags -/
def entryTheShipPlan (args : List String) : String :=
  match args with
  | [seed, k, r, unit, vec] =>
    match seed.toNat?, k.toNat?, r.toNat?, unit.toNat? with
    | some seed, some k, some r, some unit =>
      let (cfg0, st) := G.run (gGameState TheShip.Spec.shipEngine 2400 (pure [])) (seed * 1000003 + k)
      let cfg := TheShip.Spec.shipConfig cfg0
      let dp := k % 5 == 4
      let port := if dp then TheShip.Spec.defaultPort else 27015 + k % 3
      let entry := if dp then "theship_dp" else "theship"
      let u : Request := if unit % 3 == 0 then .info else if unit % 3 == 1 then .players else .rules
      let x := exchangeOf cfg u
      let j := if unit ≥ 3 then x.challenges.length else 0
      -- the selection of fragments a failed attempt still receives: the Valve units 6-8
      let gotUnit := if unit ≥ 3 then unit + 3 else unit
      let arrival := poolOf cfg st u
      let (p, left) := planOfVector r j gotUnit arrival vec.toList []
      let ok : UnitPlan := ⟨[], .valid⟩
      let none' : UnitPlan := ⟨[], .gaveUp⟩
      -- left-over letters behind a tried players unit hit at its initial request are what the RULES unit meets first
      let absorbed : Option (UnitPlan × List Char) :=
        if u == .players && unit < 3 && p.ending != .valid && !left.isEmpty then absorbLeft r (poolOf cfg st .rules) left
        else none
      -- does the query go on behind this unit with the next unit's own plan?  behind the info unit only when it is
      -- answered; behind a tried section always — but a plan has its replies only when no left-over letters sit in
      -- between (or when they read as attempts of the next unit)
      let goesOn := p.ending == .valid || (u != .info && left.isEmpty)
      let after := if goesOn then ok else none'
      let plan : Plan := match u, absorbed with
        | .players, some (p', _) => ⟨ok, p, p'⟩
        | .info, _ => ⟨p, after, after⟩
        | .players, _ => ⟨ok, p, after⟩
        | .rules, _ => ⟨ok, ok, p⟩
      let left := match absorbed with
        | some (_, left') => left'
        | none => left
      let (lq, lf) := leftover x arrival j gotUnit (vec.length - left.length) left
      -- the later units' exchanges, where the plan does not hold them already
      let inPlan : Bool := match absorbed with
        | some (p', _) => p'.ending == .valid
        | none => goesOn
      let laterQ : List Delivery := if inPlan then [] else
        (later u).flatMap fun v => Ending.valid.deliveries (exchangeOf cfg v) (poolOf cfg st v)
      let laterF : List Bool := if inPlan then [] else
        (later u).flatMap fun v => Ending.valid.faults (exchangeOf cfg v)
      let script := faultyScript cfg plan (infoDatagrams cfg st) (playersDatagrams cfg st) (rulesDatagrams cfg st)
        ++ (lq ++ laterQ)
      let faults := faultyFaults cfg plan ++ (lf ++ laterF)
      -- the hypotheses of `C10_theship_query_faulty` (`DecodersAgree` through `decodersAgree_of_uncompressed`)
      let thm := TheShip.Spec.wf cfg0 st && Spec.wfExchanges cfg && Spec.uncompressed cfg
        && Spec.fits (Spec.script cfg st) && wfPlanReached r cfg st plan
      s!"{entry} {port} {r} {showDeliveries script} f={showFaults faults}"
        ++ " ## WANT " ++ showRes showTheShip (faultyExpected cfg st plan >>= TheShip.convert)
        ++ " ## SENT " ++ showSent (faultySends cfg st plan)
        ++ " ## ATT " ++ toString (p.attempts)
        ++ " ## THM " ++ (if thm then "1" else "0")
    | _, _, _, _ => "bad-case"
  | _ => "bad-case"

def theShipFaultEntries : List (String × (List String → String)) := [("theshipplan", entryTheShipPlan)]

end Gd.Run
