import GdVerif.Run.Valve
import GdVerif.Run.Gs2
import GdVerif.Run.Minecraft
/-
  Model side of the real-socket checks (C12): the same query model, observed the way a loopback
  server observes the client (the datagrams it received), plus the number of blocking steps that ran
  into their timeout (for the wall-clock bound evaluated by props/c12.py).
-/
namespace Gd.Run
open Gd Gd.Valve

def sentHex (log : List Ev) : String :=
  String.intercalate "," (log.filterMap fun e => match e with
    | .send _ _ d false => some (hexOf d)
    | _ => none)

def blockedCount (log : List Ev) : Nat :=
  (log.filter fun e => match e with
    | .recv _ _ none => true
    | .send _ _ _ true => true
    | .opened _ _ _ true => true
    | _ => false).length

/-- `realudp <v4|v6> <timeout_ms> <engine> <gather> <retries> <script>` → `<result> ;; <requests> ;; B<blocked steps>` -/
def entryRealUdp (args : List String) : String :=
  match args with
  | _fam :: _ms :: eng :: g :: r :: rest =>
    match parseEngine eng, parseGather g, r.toNat?, parseNetArgs rest with
    | some eng, some g, some r, some na =>
      let (res, w) := Valve.query (extOf na) 0 eng g r (Net.init na.script na.faults)
      showRes showResponse res ++ " ;; " ++ sentHex w.log ++ " ;; B" ++ toString (blockedCount w.log)
    | _, _, _, _ => "bad-case"
  | _ => "bad-case"

/-- `realecho <udp|tcp> <v4|v6> <size> <recvsize>`: `recv` delivers a datagram truncated to the buffer, a stream whole -/
def entryRealEcho (args : List String) : String :=
  match args with
  | [kind, _fam, size, recvsize] =>
    match size.toNat?, recvsize.toNat? with
    | some size, some recvsize =>
      let payload : Bytes := List.replicate size 0
      let s : Sock := ⟨0, 1, kind == "tcp"⟩
      let w : Net := ⟨[], [[.data payload]], [], []⟩
      match (send s payload w), (recv s (some recvsize) w).1 with
      | (.ok (), w1), .ok got =>
        let seen := w1.log.filterMap fun e => match e with
          | .send _ _ d false => some d.length
          | _ => none
        s!"OK sent={seen.headD 0},T got={got.length},T"
      | _, _ => "ERR"
    | _, _ => "bad-case"
  | _ => "bad-case"

/-- `realrefused <v4|v6> <timeout_ms>` -/
def entryRealRefused (_ : List String) : String :=
  let (r, _) := openSock true 1 (Net.init [.refused] [])
  showRes (fun _ => "") r ++ " ;; - ;; B1"

/-- `realtcp <v4|v6> <timeout_ms> <c|h> <hex|.>`: a stream whose peer closes after writing is delivered whole; a peer
that stops writing and keeps the connection open is a read that runs into its timeout (whatever it wrote before) -/
def entryRealTcp (args : List String) : String :=
  match args with
  | [_fam, _ms, mode, hx] =>
    match (if hx == "." then some [] else parseHex hx) with
    | some bytes =>
      let s : Sock := ⟨0, 1, true⟩
      let w : Net := ⟨[], [[if mode == "h" then .silence else .data bytes]], [], []⟩
      let (r, w1) := recv s none w
      showRes showStr r ++ " ;; - ;; B" ++ toString (blockedCount w1.log)
    | none => "bad-case"
  | _ => "bad-case"

/-- `realgs2 <v4|v6> <timeout_ms> <retries> <script>`: the GameSpy 2 query against the same kind of loopback server
(bound: `C12_gs2_blocking_bound`) -/
def entryRealGs2 (args : List String) : String :=
  match args with
  | _fam :: _ms :: r :: rest =>
    match r.toNat?, parseNetArgs rest with
    | some r, some na =>
      let (res, w) := Gs2.query 0 r (Net.init na.script na.faults)
      showRes showGs2Response res ++ " ;; " ++ sentHex w.log ++ " ;; B" ++ toString (blockedCount w.log)
    | _, _ => "bad-case"
  | _ => "bad-case"

/-- `realjava <v4|v6> <timeout_ms> <retries>`: the Minecraft Java query against a TCP peer that accepts the
connection and never writes (`C12_minecraft_java_silent_server`: `retries + 1` timed-out reads).  The requests are
not compared: the handshake carries the server's ephemeral port. -/
def entryRealJava (args : List String) : String :=
  match args with
  | [_fam, _ms, r] =>
    match r.toNat? with
    | some r =>
      let (res, w) := Mc.queryJava McJson.ext 0 Mc.RequestSettings.default r
        (Net.init [.opened (List.replicate (r + 1) .silence)] [])
      showRes McDrv.showJavaResponse res ++ " ;; - ;; B" ++ toString (blockedCount w.log)
    | none => "bad-case"
  | _ => "bad-case"

/-- `realhttp <v4|v6> <read_ms> <other_ms> <mute|head|body|ok>`: the HTTP client is a parameter of the model (ureq); what
the model contributes is the count: a peer that stops writing costs one blocking step bounded by the read timeout -/
def entryRealHttp (args : List String) : String :=
  match args with
  | [_fam, _r, _o, mode] => "HTTP ;; - ;; B" ++ (if mode == "ok" || mode == "refused" then "0" else "1")
  | _ => "bad-case"

def realEntries : List (String × (List String → String)) :=
  [("realudp", entryRealUdp), ("realecho", entryRealEcho), ("realrefused", entryRealRefused), ("realtcp", entryRealTcp), ("realhttp", entryRealHttp),
   ("realgs2", entryRealGs2), ("realjava", entryRealJava)]

end Gd.Run
