import GdVerif.Run.GenLib
import GdVerif.Run.Savage2
import GdVerif.Spec.Savage2
namespace Gd.Run
open Gd Gd.Savage2 Gd.Savage2.Spec

def gS2Str (maxLen : Nat := 40) : G Bytes := do let t ← G.text [0] maxLen; pure (utf8Encode t)

def gBytes (n : Nat) : G Bytes :=
  G.listOf n (do let b ← G.oneOf [0, 1, 0x41, 0x7f, 0x80, 0xfe, 0xff, 0x5c]; pure (UInt8.ofNat b))

def gSavage2State : G Spec.State := do
  let header ← gBytes 12
  let nrest ← G.oneOf [0, 0, 1, 4, 17]
  let rest ← gBytes nrest
  pure { header, name := ← gS2Str 64, numPlayers := ← G.nat 8, maxPlayers := ← G.nat 8, time := ← gS2Str 12,
         map := ← gS2Str, nextMap := ← gS2Str, location := ← gS2Str 12, minPlayers := ← G.nat 8,
         gameType := ← gS2Str 12, version := ← gS2Str 12, minLevel := ← G.nat 8, rest }

/-- `gen savage2 <seed> <n>` -/
def genSavage2 (seed n : Nat) : List String :=
  (List.range n).map fun k =>
    let st := G.run gSavage2State (seed * 1000003 + k)
    let dp := k % 5 == 4
    let port := if dp then Spec.defaultPort else 11235 + k % 3
    let entry := if dp then "savage2_dp" else "savage2"
    let line := s!"s2{seed}_{k} {entry} {port} {k % 3} {hexOf (Spec.encode st)}"
    let wf := if Spec.wf st then "" else " NOTWF"
    line ++ " ## WANT " ++ showRes showSavage2 (.ok (Spec.expected st)) ++ wf
      ++ " ## SENT " ++ String.intercalate "," ((Spec.requests st).map hexOf)
      ++ " ## SEG 1"

end Gd.Run
