import GdVerif.Run.Eco
import GdVerif.Proto.Http
/-
  Driver side of the HTTP client model (`Proto/Http.lean`): the entries `http-plan` and `http-url`, with executable
  stand-ins for the model's parameters:
    * `idnaMirror`  — UTS 46 on a small repertoire of non-ASCII letters (identity mapping + a few upper-case ones) with a
                      Punycode encoder, and a table of `xn--` labels the generator uses;
    * `wireOf`      — what `ureq` makes of each behaviour of the loopback listener (`harness/src/http.rs`);
    * `EcoJson.fromReader` — the `serde_json` mirror of the Eco driver.
  No theorem depends on anything in this file.
-/
namespace Gd.Run
open Gd Gd.Http

/-! ### Punycode (RFC 3492) and the IDNA stand-in -/

def punyAdapt (delta numPoints : Nat) (first : Bool) : Nat :=
  let delta := if first then delta / 700 else delta / 2
  let delta := delta + delta / numPoints
  let rec go (fuel delta k : Nat) : Nat :=
    match fuel with
    | 0 => k
    | f + 1 => if delta > 455 then go f (delta / 35) (k + 36) else k + 36 * delta / (delta + 38)
  go 64 delta 0

def punyDigit (d : Nat) : UInt8 := if d < 26 then UInt8.ofNat (97 + d) else UInt8.ofNat (22 + d)

/-- the variable-length integer `q` with the given bias -/
def punyVarint (bias : Nat) : Nat → Nat → Nat → Bytes
  | 0, _, _ => []
  | f + 1, q, k =>
    let t := if k ≤ bias then 1 else if k ≥ bias + 26 then 26 else k - bias
    if q < t then [punyDigit q]
    else punyDigit (t + (q - t) % (36 - t)) :: punyVarint bias f ((q - t) / (36 - t)) (k + 36)

structure PunyState where
  n : Nat
  delta : Nat
  bias : Nat
  h : Nat
  out : Bytes

/-- Punycode of a label given as scalar values -/
def punyEncode (cps : List Nat) : Bytes :=
  let basic := cps.filter (· < 128)
  let b := basic.length
  let out0 : Bytes := basic.map UInt8.ofNat ++ (if b > 0 then [45] else [])
  let rec outer (fuel : Nat) (st : PunyState) : Bytes :=
    match fuel with
    | 0 => st.out
    | f + 1 =>
      if st.h ≥ cps.length then st.out
      else
        let m := (cps.filter (· ≥ st.n)).foldl min 0x110000
        let delta := st.delta + (m - st.n) * (st.h + 1)
        let st := cps.foldl (fun (st : PunyState) c =>
          if c < m then { st with delta := st.delta + 1 }
          else if c == m then
            let out := st.out ++ punyVarint st.bias 64 st.delta 36
            { st with out := out, bias := punyAdapt st.delta (st.h + 1) (st.h == b), delta := 0, h := st.h + 1 }
          else st) { st with n := m, delta := delta }
        outer f { st with delta := st.delta + 1, n := st.n + 1 }
  outer (cps.length + 1) ⟨128, 0, 72, b, out0⟩

/-- non-ASCII scalars the stand-in knows: what UTS 46 maps them to (lower-case letters map to themselves) -/
def idnaMap (c : Nat) : Option Nat :=
  if c < 128 then some c
  else if [0xE4, 0xF6, 0xFC, 0xE9, 0xE8, 0xF1, 0xDF, 0x3B1, 0x3B2, 0x43F, 0x440, 0x4E2D, 0x6587, 0x3042, 0x1F600].contains c then some c
  else if c == 0xC4 then some 0xE4 else if c == 0xD6 then some 0xF6 else if c == 0xDC then some 0xFC else if c == 0xC9 then some 0xE9
  else none

/-- `xn--` labels the stand-in knows to be valid (they decode to letters of the repertoire) -/
def knownPunycode : List Bytes := ["xn--bcher-kva", "xn--mnchen-3ya", "xn--fiq228c", "xn--caf-dma"].map asciiBytes

/-- stand-in for `idna::domain_to_ascii_from_cow(_, AsciiDenyList::URL)` on names that are not plain ASCII -/
def idnaMirror (d : Bytes) : Option Bytes :=
  if !validUtf8 d then none
  else
    let labels := splitOn 46 d
    let out := labels.mapM fun l =>
      if l.all (·.toNat < 128) then
        if isPunycodeLabel l then (if knownPunycode.contains (asciiLower l) then some (asciiLower l) else none)
        else if l.any deniedAscii then none else some (asciiLower l)
      else
        match (utf8Decode l).mapM idnaMap with
        | none => none
        | some cps =>
          let cps := cps.map fun c => if 65 ≤ c && c ≤ 90 then c + 32 else c
          if cps.any (fun c => c < 128 && deniedAscii (UInt8.ofNat c)) then none
          else some (asciiBytes "xn--" ++ punyEncode cps)
    out.map (joinWith [46])

/-! ### Case lines -/

/-- `x<hex>` (`x` alone = the empty string) -/
def parseXs (s : String) : Option Bytes :=
  if s == "x" then some [] else if s.startsWith "x" then parseHexAux (s.drop 1).toString.toList [] else none

def parseHexNat (s : String) : Option Nat :=
  if s.isEmpty then none
  else s.toList.foldl (fun acc c => acc.bind fun v => (hexVal c).map (v * 16 + ·)) (some 0)

def parseIp (s : String) : Option IpAddr :=
  if s.contains ':' then
    match (s.splitOn ":").mapM parseHexNat with
    | some [a, b, c, d, e, f, g, h] =>
      if [a, b, c, d, e, f, g, h].all (· < 65536) then
        some (.v6 a.toUInt16 b.toUInt16 c.toUInt16 d.toUInt16 e.toUInt16 f.toUInt16 g.toUInt16 h.toUInt16)
      else none
    | _ => none
  else
    match (s.splitOn ".").mapM String.toNat? with
    | some [a, b, c, d] => if [a, b, c, d].all (· < 256) then some (.v4 a.toUInt8 b.toUInt8 c.toUInt8 d.toUInt8) else none
    | _ => none

def parseDur (s : String) : Option (Option Settings.Duration) :=
  if s == "-" then some none
  else match s.splitOn ":" with
    | [a, b] => match a.toNat?, b.toNat? with
      | some a, some b => some (some ⟨a, b⟩)
      | _, _ => none
    | _ => none

/-- `-` or `<read>,<write>,<connect>` through `TimeoutSettings::new` -/
def parseTimeouts (s : String) : Option (Option Settings.Timeout) :=
  if s == "-" then some none
  else match (s.splitOn ",").mapM parseDur with
    | some [r, w, c] =>
      match Settings.new r w c 0 with
      | .ok t => some (some t)
      | _ => none
    | _ => none

def parseHeader (s : String) : Option (Bytes × Bytes) :=
  match s.splitOn ":" with
  | [n, v] => match parseXs n, parseXs v with
    | some n, some v => some (n, v)
    | _, _ => none
  | _ => none

/-- one connection's behaviour of the listener (`harness/src/http.rs: parse_one`) -/
inductive Behaviour where
  | refuse | full | mute | drop | lineStall | lineClose | garbage
  | status (code : Nat)
  | ok (doc : Bytes)
  | bodyStall (doc : Bytes) (n : Nat)
  | bodyClose (doc : Bytes) (n : Nat)
  | nolen (doc : Bytes)
  | badlen (doc : Bytes)
  | redirect (code : Nat) (location : Bytes)

def parseBehaviour1 (s : String) : Option Behaviour :=
  match s.splitOn ":" with
  | ["refuse"] => some .refuse
  | ["full"] => some .full
  | ["mute"] => some .mute
  | ["drop"] => some .drop
  | ["line-stall"] => some .lineStall
  | ["line-close"] => some .lineClose
  | ["garbage"] => some .garbage
  | ["status", c] => c.toNat?.map .status
  | ["ok", d] => (parseXs d).map .ok
  | ["body-stall", d, n] => match parseXs d, n.toNat? with
    | some d, some n => if n < d.length then some (.bodyStall d n) else none
    | _, _ => none
  | ["body-close", d, n] => match parseXs d, n.toNat? with
    | some d, some n => if n < d.length then some (.bodyClose d n) else none
    | _, _ => none
  | ["nolen", d] => (parseXs d).map .nolen
  | ["badlen", d] => (parseXs d).map .badlen
  | ["redirect", c, l] => match c.toNat?, parseXs l with
    | some c, some l => some (.redirect c l)
    | _, _ => none
  | _ => none

def parseBehaviour (s : String) : Option (List Behaviour) := (s.splitOn "+").mapM parseBehaviour1

/-- the body the listener's canned status responses carry -/
def statusBody : Bytes := asciiBytes "{\"error\":true}"

/-- what `ureq` sees of one connection that is not a redirect it follows (mirror) -/
def wireOf : Behaviour → Wire
  | .refuse => ⟨.refused, .sent, .closed, .closedEarly⟩
  | .full => ⟨.timedOut, .sent, .closed, .closedEarly⟩
  | .mute => ⟨.connected, .sent, .timedOut, .closedEarly⟩
  | .drop => ⟨.connected, .sent, .closed, .closedEarly⟩
  | .lineStall => ⟨.connected, .sent, .timedOut, .closedEarly⟩
  | .lineClose => ⟨.connected, .sent, .closed, .closedEarly⟩
  | .garbage => ⟨.connected, .sent, .malformed, .closedEarly⟩
  | .status c => ⟨.connected, .sent, .head c (some (natDec statusBody.length)), .complete statusBody⟩
  | .ok d => ⟨.connected, .sent, .head 200 (some (natDec d.length)), .complete d⟩
  | .bodyStall d _ => ⟨.connected, .sent, .head 200 (some (natDec d.length)), .timedOut⟩
  | .bodyClose d _ => ⟨.connected, .sent, .head 200 (some (natDec d.length)), .closedEarly⟩
  | .nolen d => ⟨.connected, .sent, .head 200 none, .complete d⟩
  | .badlen d => ⟨.connected, .sent, .head 200 (some (asciiBytes "many")), .complete d⟩
  -- a redirect that is not followed (no `Location`-following code): returned as the response
  | .redirect c _ => ⟨.connected, .sent, .head c (some (natDec 0)), .complete []⟩

/-- an absolute `http://…` location as `ureq` resolves it (`Url::join` of an absolute URL = parsing it) -/
def parseLocation (loc : Bytes) : Option Url :=
  let pre := asciiBytes "http:"
  if loc.take pre.length == pre then
    match parseUrl idnaMirror .http (loc.drop pre.length) with
    | .ok u => some u
    | _ => none
  else none

/-- the requests the listener sees and the wire outcome of the last one: `ureq` follows a 301/302/303/307/308 with a
`Location` (GET stays GET), dropping `Authorization` / `Cookie` / `Content-Length` headers it was given -/
def followRedirects (agent : AgentConfig) : Nat → Request → List Behaviour → List Bytes × Wire
  | 0, _, _ => ([], wireOf .drop)
  | f + 1, req, bs =>
    let head := Ureq.requestHead agent req
    match bs with
    | [] => ([head], wireOf .drop)  -- a connection the listener has no behaviour for: read, then closed
    | .redirect code loc :: rest =>
      if [301, 302, 303, 307, 308].contains code then
        match parseLocation loc with
        | some u =>
          let hs := req.headers.filter fun h =>
            !(["content-length", "cookie", "authorization"].map asciiBytes).contains (asciiLower h.1)
          let (heads, w) := followRedirects agent f ⟨req.method, u, hs⟩ rest
          (head :: heads, w)
        | none => ([head], ⟨.connected, .sent, .malformed, .closedEarly⟩)
      else ([head], wireOf (.redirect code loc))
    | b :: _ =>
      match b with
      | .refuse => ([], wireOf b)
      | .full => ([], wireOf b)
      | _ => ([head], wireOf b)

def showSteps (s : List Step) : String :=
  if s.isEmpty then "-" else String.join (s.map fun
    | .connect => "c"
    | .write => "w"
    | .read => "r")

structure HttpCase where
  ip : IpAddr
  port : Nat
  host : Option Bytes
  path : Bytes
  timeouts : Option Settings.Timeout
  call : String
  behaviour : List Behaviour
  headers : List (Bytes × Bytes)
  requestHeaders : List (Bytes × Bytes)
  ua : Bytes

def parseHttpCase (args : List String) : Option HttpCase :=
  match args with
  | ip :: port :: host :: path :: ts :: call :: beh :: opts =>
    match parseIp ip, port.toNat?, (if host == "-" then some none else (parseXs host).map some), parseXs path,
      parseTimeouts ts, parseBehaviour beh with
    | some ip, some port, some host, some path, some ts, some beh =>
      let init : Option HttpCase := some ⟨ip, port, host, path, ts, call, beh, [], [], asciiBytes "gamedig/?"⟩
      opts.foldl (fun acc o => acc.bind fun c =>
        if o.startsWith "h=" then (parseHeader (o.drop 2).toString).map fun h => { c with headers := c.headers ++ [h] }
        else if o.startsWith "rh=" then (parseHeader (o.drop 3).toString).map fun h => { c with requestHeaders := c.requestHeaders ++ [h] }
        else if o.startsWith "ua=" then (parseXs (o.drop 3).toString).map fun u => { c with ua := u }
        else none) init
    | _, _, _, _, _, _ => none
  | _ => none

/-- the listener's view of a request and the result -/
def showOutcome (c : HttpCase) (agent : AgentConfig) (req : Request) (res : String) (steps : List Step) : String :=
  let (heads, _) := followRedirects agent 6 req c.behaviour
  s!"p={c.port} {res} ;; N{heads.length} {String.intercalate "|" (heads.map hexOf)} ;; B{showSteps steps}"

/-- stand-in for the system resolver: only `localhost` is known (to the IPv4 loopback address) -/
def lookupMirror (d : Bytes) (port : Nat) : Option (List SocketAddr) :=
  if d == asciiBytes "localhost" then some [⟨.v4 127 0 0 1, port⟩] else none

/-- `http-plan …` (see `harness/src/http.rs`) → `p=<port> <result> ;; N<connections> <request heads> ;; B<timed-out steps>` -/
def entryHttpPlan (args : List String) : String :=
  match parseHttpCase args with
  | none => "bad-case"
  | some c =>
    -- the wire outcome does not depend on the request (only the listener's script does)
    let w := (followRedirects ureqDefaults 6 ⟨[], ⟨.http, [], none, .domain [], none, [], none, none⟩, []⟩ c.behaviour).2
    let failed (k : ErrKind) := s!"p={c.port} ERR {k.name} ;; N0  ;; B-"
    if c.call == "eco" then
      match Eco.query idnaMirror c.ua w EcoJson.fromReader c.ip (some c.port) c.timeouts (c.host.map fun h => ⟨some h⟩) with
      | (some (client, req), r, steps) => showOutcome c client.agent req (showRes showEco r) steps
      | (none, .err k, _) => failed k
      | (none, _, _) => s!"p={c.port} CRASH ;; N0  ;; B-"
    else
      let built : Res Client :=
        if c.call == "fromurl" then
          -- `from_url("http://<host or the address>:<port>/ignored?x=1#frag")`: the URL parsed, then `fromUrl`
          let hostText := c.host.getD (ipHostText c.ip)
          match parseUrl idnaMirror .http (asciiBytes "//" ++ hostText ++ [58] ++ natDec c.port ++ asciiBytes "/ignored?x=1#frag") with
          | .ok url => Http.fromUrl idnaMirror c.ua lookupMirror false url c.timeouts (if c.headers.isEmpty then none else some c.headers)
          | .err k => .err k
          | .crash => .crash
        else Http.new idnaMirror c.ua ⟨c.ip, c.port⟩ c.timeouts ⟨.http, c.host, c.headers⟩
      match built with
      | .err k => failed k
      | .crash => s!"p={c.port} CRASH ;; N0  ;; B-"
      | .ok client =>
        let req := client.makeRequest GET c.path c.requestHeaders
        -- a header ureq refuses (`BadHeader`) fails the call before anything is sent
        if !req.headers.all Ureq.validHeader then failed (requestError .badHeader)
        else if c.call == "raw" then
          let (req, r, steps) := client.request w GET c.path c.requestHeaders
          showOutcome c client.agent req (showRes (fun b => "RAW" ++ showStr b) r) steps
        else
          let (req, r, steps) := client.requestJson w EcoJson.fromReader GET c.path c.requestHeaders
          showOutcome c client.agent req (showRes showEco (r.bind fun i => .ok (Eco.fromRoot i))) steps

/-- `http-url <ip> <port> <host|-> <path>`: `HttpClient::new` and the URL a request for the path is made to -/
def entryHttpUrl (args : List String) : String :=
  match args with
  | [ip, port, host, path] =>
    match parseIp ip, port.toNat?, (if host == "-" then some none else (parseXs host).map some), parseXs path with
    | some ip, some port, some host, some path =>
      match Http.new idnaMirror [] ⟨ip, port⟩ none ⟨.http, host, []⟩ with
      | .ok client => "OK " ++ showStr (client.address.setPath path).text
      | .err k => "ERR " ++ k.name
      | .crash => "CRASH"
    | _, _, _, _ => "bad-case"
  | _ => "bad-case"

def httpEntries : List (String × (List String → String)) := [("http-plan", entryHttpPlan), ("http-url", entryHttpUrl)]

end Gd.Run
