import GdVerif.Run.GenGs3
import GdVerif.Run.Jc2m
import GdVerif.Spec.Jc2m
/-
  Generator of Just Cause 2: Multiplayer server states (mostly valid; a share of broken ones, NOTWF).
-/
namespace Gd.Run
open Gd Gd.Gs3 Gd.Jc2m Gd.Jc2m.Spec

def gJc2mPlayer : G Jc2m.Player := do
  let steam ← G.oneOf [76561197960265728, 76561198000000000, 0, 1, 18446744073709551615]
  let alt ← gStr 12
  let useAlt ← G.chance 1 5
  -- the smallest entry the format allows (two empty strings and the ping: 4 bytes) one time in eight
  let anon ← G.chance 1 8
  let name ← gStr 16
  let ping ← G.nat 16
  pure (if anon then ⟨[], [], ping⟩ else ⟨name, if useAlt then alt else natDec steam, ping⟩)

def gJc2mVars (listed : Nat) : G Vars := do
  let pw ← G.oneOf ["0", "1", "true", "false", "True", "FALSE", "2", "255", "+1"]
  let maxp ← G.nat 32
  let req : Vars := [
    (asciiBytes "hostname", ← gStr 48), (asciiBytes "version", ← gStr 12), (asciiBytes "description", ← gStr 64),
    (asciiBytes "password", asciiBytes pw), (asciiBytes "maxplayers", natDec maxp)]
  let rep ← G.oneOf [listed, listed, listed + 3, 0, listed - 1, 4294967295, 5000]
  let b ← G.chance 2 3
  let optional : Vars := if b then [(asciiBytes "numplayers", natDec rep)] else []
  let nx ← G.oneOf [0, 0, 1, 2, 3]
  let extras ← G.listOf nx (do
    let k ← G.ident
    let v ← gStr 24
    pure (utf8Encode k, v))
  gShuffle (dedupKeys (req ++ optional ++ extras))

def gJc2mDamage (cfg : Jc2m.Spec.Config) (st : Jc2m.Spec.State) : G (Jc2m.Spec.Config × Jc2m.Spec.State) := do
  let c ← G.below 6
  match c with
  | 0 => pure (cfg, { st with vars := st.vars.drop 1 })
  | 1 => pure (cfg, { st with vars := st.vars.map fun p => if p.1 == asciiBytes "maxplayers" then (p.1, asciiBytes "-1") else p })
  | 2 => pure ({ cfg with splitHeader := cfg.splitHeader.drop 1 }, st)
  | 3 => pure ({ cfg with splitHeader := cfg.splitHeader ++ [0] }, st)
  | 4 => pure (cfg, { st with players := st.players.map fun p => { p with ping := 65536 + p.ping } })
  | _ => pure ({ cfg with challenge := -2147483649 }, st)

def gJc2mCase : G (Jc2m.Spec.Config × Jc2m.Spec.State) := do
  let np ← G.oneOf [0, 1, 2, 3, 5, 12, 40, 100]
  let players ← G.listOf np gJc2mPlayer
  let vars ← gJc2mVars np
  let hdrKind ← G.below 3
  let hdr ← match hdrKind with
    | 0 => pure (asciiBytes "splitnum" ++ [0, 0x80, 0])
    | 1 => G.listOf 11 (do let b ← G.oneOf [0, 1, 0x41, 0xFF, 0x80]; pure (UInt8.ofNat b))
    | _ => pure (asciiBytes "splitnum" ++ [0, 0, 1])
  let cfg : Jc2m.Spec.Config := ⟨← gChallengeInt, hdr⟩
  let st : Jc2m.Spec.State := ⟨vars, players⟩
  let damage ← G.chance 1 10
  if damage then gJc2mDamage cfg st else pure (cfg, st)

/-- `gen jc2m <seed> <n>` -/
def genJc2m (seed n : Nat) : List String :=
  (List.range n).map fun k =>
    let (cfg, st) := G.run gJc2mCase (seed * 1000003 + k)
    let port := 7777 + k % 3
    let retries := k % 3
    let line := s!"j{seed}_{k} jc2m {port} {retries} {showScript (Jc2m.Spec.script cfg st)}"
    let wf := if Jc2m.Spec.wf cfg st then "" else " NOTWF"
    line ++ " ## WANT " ++ showRes showJc2mResponse (.ok (Jc2m.Spec.expected st)) ++ wf
      ++ " ## SENT " ++ String.intercalate "," ((Jc2m.Spec.requests cfg).map hexOf)
      ++ " ## SEG 2"

end Gd.Run
