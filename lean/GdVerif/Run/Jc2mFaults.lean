import GdVerif.Run.GenJc2m
import GdVerif.Run.Gs3Faults
import GdVerif.Spec.Jc2mFaults
/-
  Driver entry `jc2mplan`: the SPEC's plan script for one fault vector of the C10 check (see `Run/ValveFaults.lean`).
  `THM 1` = the hypotheses of `C10_jc2m_query_faulty` hold.
-/
namespace Gd.Run
open Gd Gd.Faults
open Gd.Gs3.Spec (Plan Attempt Ending Stage faultyFaults wfPlan)

def jc2mLeftover (c : Int) (packets : List Bytes) (stage : Stage) (cs : List Char) : List Delivery × List Bool :=
  cs.foldl (fun (acc : List Delivery × List Bool) ch =>
    let (d, f) :=
      if ch == 'S' then ((Attempt.mk stage false []).deliveriesAt c, (Attempt.mk stage false []).faults)
      else if ch == 'F' then ((Attempt.mk stage true []).deliveriesAt c, (Attempt.mk stage true []).faults)
      else if ch == 'M' then ((Ending.malformed stage [] malformedDatagram).deliveriesAt c packets,
        (Ending.malformed stage [] malformedDatagram).faults)
      else (Ending.valid.deliveriesAt c packets, Ending.valid.faults)
    (acc.1 ++ d, acc.2 ++ f)) ([], [])

/-- `jc2mplan <seed> <k> <retries> <unit 0|1> <vector>` -/
def entryJc2mPlan (args : List String) : String :=
  match args with
  | [seed, k, r, unit, vec] =>
    match seed.toNat?, k.toNat?, r.toNat?, unit.toNat? with
    | some seed, some k, some r, some unit =>
      let (cfg, st) := G.run gJc2mCase (seed * 1000003 + k)
      let port := 7777 + k % 3
      let stage : Stage := if unit == 0 then .handshake else .data
      let (plan, left) := gs3PlanOfVector r stage 0 [] vec.toList []
      let (lq, lf) := jc2mLeftover cfg.challenge [Jc2m.Spec.dataPacket cfg st] stage left
      let thm := Jc2m.Spec.wf cfg st && wfPlan r (Jc2m.Spec.pool cfg st) plan
      s!"jc2m {port} {r} {showDeliveries (Jc2m.Spec.faultyScript cfg st plan ++ lq)} f={showFaults (faultyFaults plan ++ lf)}"
        ++ " ## WANT " ++ showRes showJc2mResponse (Jc2m.Spec.faultyExpected st plan)
        ++ " ## SENT " ++ showSent (Jc2m.Spec.faultySends cfg plan)
        ++ " ## ATT " ++ toString plan.attempts
        ++ " ## THM " ++ (if thm then "1" else "0")
    | _, _, _, _ => "bad-case"
  | _ => "bad-case"

def jc2mFaultEntries : List (String × (List String → String)) := [("jc2mplan", entryJc2mPlan)]

end Gd.Run
